#!/bin/bash
# Regenerate the MIR dump of a ruma crate from /repo's current working tree.
# usage: mirdump.sh <crate> <out-file> [cargo feature list]
set -euo pipefail
crate="$1"; out="$(realpath -m "$2")"; feats="${3:-}"
repo="${VERIF_REPO:-/repo}"
tgt="${VERIF_CACHE:-/verif/.cache}/mir-target"
mkdir -p "$tgt" "$(dirname "$out")"
export CARGO_NET_OFFLINE=true CARGO_TARGET_DIR="$tgt" RUSTFLAGS="--cfg ruma_verif ${VERIF_EXTRA_RUSTFLAGS:-}"
# force re-emission: drop this crate's fingerprint (cargo prints nothing for a fresh unit)
cname="${crate//-/_}"
rm -rf "$tgt"/debug/.fingerprint/"$crate"-* 2>/dev/null || true
cd "$repo/crates/$crate"
fa=()
[ -n "$feats" ] && fa=(--features "$feats")
cargo +nightly rustc --offline --lib "${fa[@]}" -- -Zunpretty=mir -Ztrim-diagnostic-paths=no -C debug-assertions=off -C overflow-checks=on > "$out.tmp" 2> "$out.log" || { cat "$out.log" >&2; exit 3; }
mv "$out.tmp" "$out"
