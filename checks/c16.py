#!/usr/bin/env python3-vt
"""C16 - endpoint path selection (the ruma-owned kernel of the HTTP round-trip property).

VersionHistory::{select_path, versioning_decision_for, stable_endpoint_for} are executed from the MIR of ruma-common on
symbolic version histories (<= 2 unstable and <= 3 stable paths with symbolic Matrix versions satisfying the invariants
VersionHistory::new asserts, symbolic optional deprecated/removed versions) and symbolic lists of <= 3 supported versions;
z3 decides the selection against the oracle of the property statement (newest stable path some supported version offers,
otherwise the unstable path, error iff every supported version removed the endpoint).  Counterexamples are replayed
through Metadata::make_endpoint_url."""
import os, sys, itertools
sys.path.insert(0, os.path.dirname(os.path.abspath(__file__)))
from common import *

os.environ.setdefault('VERIF_MAIN_MODULE', 'c16')
MV = 'api::metadata::MatrixVersion'
UPATHS = [b'/u/a', b'/u/b']
SPATHS = [b'/s/a', b'/s/b', b'/s/c']


def run_shape(C, job):
    nu, ns, has_dep, has_rem, nv = job
    E = C.fresh_engine(['common'], N=8)
    E.feas_mode = 'budget'
    nvar = len(E.src.enum_variants(MV))
    label = f'history(unstable={nu},stable={ns},deprecated={has_dep},removed={has_rem}) versions={nv}'

    def ver(name):
        v = z3.BitVec(name, 64)
        return SymEnum(MV, v, nvar), [z3.ULT(v, nvar)]
    cons = []
    svers = []
    for i in range(ns):
        sv, c = ver(f'stable{i}'); svers.append(sv); cons += c
    for i in range(1, ns):
        cons.append(z3.ULT(svers[i - 1].v, svers[i].v))          # ascending, no duplicates (asserted by `new`)
    dep = rem = None
    if has_dep:
        dep, c = ver('deprecated'); cons += c
        if ns == 0:
            return                                                  # `new` panics: deprecated without a stable path
        last = svers[-1].v
        cons.append(z3.Or(z3.UGT(dep.v, last), z3.And(dep.v == last, dep.v == 0)))
    if has_rem:
        if not has_dep:
            return                                                  # `new` panics: removed without deprecated
        rem, c = ver('removed'); cons += c
        cons.append(z3.UGT(rem.v, dep.v))
    if nu + ns == 0:
        return
    versions = []
    for i in range(nv):
        x, c = ver(f'v{i}'); versions.append(x); cons += c
    fields = {'unstable_paths': Seq([E.const_str(p) for p in UPATHS[:nu]]),
              'stable_paths': Seq([Tup([svers[i], E.const_str(SPATHS[i])]) for i in range(ns)]),
              'deprecated': some(dep) if dep is not None else NONE, 'removed': some(rem) if rem is not None else NONE}
    names = E.src.structs['api::metadata::VersionHistory']
    hist = Adt('api::metadata::VersionHistory', None, [fields[n] for n in names])
    st = E.new_state()
    href = E.root_ref(st, hist)
    vseq = Seq(versions)
    # oracle terms
    def any_ge(x):
        return z3.Or(*[z3.UGE(v.v, x.v) for v in versions]) if versions else z3.BoolVal(False)
    def all_ge(x):
        return z3.And(*[z3.UGE(v.v, x.v) for v in versions]) if versions else z3.BoolVal(True)
    all_removed = all_ge(rem) if rem is not None else z3.BoolVal(False)
    any_stable = any_ge(svers[0]) if ns else z3.BoolVal(False)
    # newest stable path some supported version offers: index
    def want_stable_idx(i):
        later = [z3.Not(any_ge(svers[j])) for j in range(i + 1, ns)]
        return z3.And(any_ge(svers[i]), *later)

    def vec_of(m):
        g = lambda t: m.eval(t.v, model_completion=True).as_long()
        return {'op': 'c16:select', 'unstable': nu, 'stable': [g(s) for s in svers], 'deprecated': g(dep) if dep is not None else None,
                'removed': g(rem) if rem is not None else None, 'versions': [g(v) for v in versions]}

    def spec_of(vec):
        vs = vec['versions']
        if vec['removed'] is not None and all(v >= vec['removed'] for v in vs):
            return 'err:EndpointRemoved'
        best = None
        for i, s in enumerate(vec['stable']):
            if any(v >= s for v in vs):
                best = SPATHS[i].decode()
        if best:
            return 'ok:' + best
        return 'ok:' + UPATHS[vec['unstable'] - 1].decode() if vec['unstable'] else 'err:NoUnstablePath'

    def decide(qname, bad):
        r, m = C.solve(f'{label}: {qname}', cons + [bad])
        if r == 'sat':
            vec = vec_of(m)
            res = C.native(vec); vec['native'] = res
            want = spec_of(vec)
            got = ('ok:' + res.get('path', '')) if res.get('r') == 'ok' else ('err:' + str(res.get('e')) if res.get('r') == 'err' else str(res))
            vec['spec'] = want
            if got != want or qname.startswith(('versioning', 'stable_endpoint')):
                # the decision functions are public API of their own: a wrong flag is a violation even if the path agrees
                dres = res.get('decision')
                C.report_violation(f'{label}: {qname}: native {got} decision={dres}, property oracle {want}: {vec}', vec)
                C.samples.append({'query': qname, 'counterexample': vec})
            else:
                raise Broken(f'{label}: model for {qname} does not reproduce natively: {vec}')

    # ---- select_path
    f = E.find_method('VersionHistory', 'select_path')
    outs = E.run_func(f, [href, vseq], cons, st=st)
    C.absorb(E)
    bad = []
    for o in outs:
        if o.kind != 'ret':
            bad.append(o.cond()); continue
        v = o.value
        if v.variant == 'Err':
            e = v.fields[0]
            okc = z3.Or(z3.And(all_removed, z3.BoolVal(e.variant == 'EndpointRemoved')),
                        z3.And(z3.Not(all_removed), z3.Not(any_stable), z3.BoolVal(nu == 0 and e.variant == 'NoUnstablePath')))
        else:
            p = E.as_str(o.st, v.fields[0]).conc()
            alts = []
            for i in range(ns):
                alts.append(z3.And(z3.Not(all_removed), want_stable_idx(i), z3.BoolVal(p == SPATHS[i])))
            if nu:
                alts.append(z3.And(z3.Not(all_removed), z3.Not(any_stable), z3.BoolVal(p == UPATHS[nu - 1])))
            okc = z3.Or(*alts) if alts else z3.BoolVal(False)
        bad.append(z3.And(o.cond(), z3.Not(okc)))
    decide('select_path picks the path the property prescribes (and never panics)', z3.Or(*bad))
    # ---- versioning_decision_for
    f2 = E.find_method('VersionHistory', 'versioning_decision_for')
    outs = E.run_func(f2, [href, vseq], cons, st=st)
    C.absorb(E)
    bad = []
    fn = E.src.variant_fields.get(('api::metadata::VersioningDecision', 'Stable'), ['any_deprecated', 'all_deprecated', 'any_removed'])
    for o in outs:
        if o.kind != 'ret':
            bad.append(o.cond()); continue
        v = o.value
        if v.variant == 'Removed':
            okc = all_removed
        elif v.variant == 'Unstable':
            okc = z3.And(z3.Not(all_removed), z3.Not(any_stable))
        else:
            fl = dict(zip(fn, v.fields))
            w_all = all_ge(dep) if dep is not None else z3.BoolVal(False)
            w_any = z3.Or(w_all, any_ge(dep)) if dep is not None else z3.BoolVal(False)
            w_rem = any_ge(rem) if rem is not None else z3.BoolVal(False)
            okc = z3.And(z3.Not(all_removed), any_stable, fl['all_deprecated'] == w_all, fl['any_deprecated'] == w_any, fl['any_removed'] == w_rem)
        bad.append(z3.And(o.cond(), z3.Not(okc)))
    decide('versioning_decision_for agrees with the set semantics', z3.Or(*bad))
    # ---- stable_endpoint_for
    f3 = E.find_method('VersionHistory', 'stable_endpoint_for')
    outs = E.run_func(f3, [href, vseq], cons, st=st)
    C.absorb(E)
    bad = []
    for o in outs:
        if o.kind != 'ret':
            bad.append(o.cond()); continue
        v = o.value
        if v.variant == 'None':
            okc = z3.Not(any_stable)
        else:
            p = E.as_str(o.st, v.fields[0]).conc()
            okc = z3.Or(*[z3.And(want_stable_idx(i), z3.BoolVal(p == SPATHS[i])) for i in range(ns)]) if ns else z3.BoolVal(False)
        bad.append(z3.And(o.cond(), z3.Not(okc)))
    decide('stable_endpoint_for returns the newest offered stable path', z3.Or(*bad))
    # order / duplicates irrelevant: same verdict for the reversed list with its first element repeated
    if nv >= 2:
        v2 = Seq(list(reversed(versions)) + [versions[-1]])
        o1 = E.run_func(f, [href, vseq], cons, st=st)
        o2 = E.run_func(f, [href, v2], cons, st=st)
        def res_key(o):
            if o.kind != 'ret': return ('panic',)
            if o.value.variant == 'Err': return ('err', o.value.fields[0].variant)
            return ('ok', E.as_str(o.st, o.value.fields[0]).conc())
        diff = [z3.And(a.cond(), b.cond()) for a in o1 for b in o2 if res_key(a) != res_key(b)]
        r, m = C.solve(f'{label}: the selection depends on the set of versions only (order, duplicates)', cons + [z3.Or(*diff) if diff else z3.BoolVal(False)])
        if r == 'sat':
            vec = vec_of(m)
            C.report_violation(f'{label}: selection depends on the order of the supported versions: {vec}', vec)
    # model validation + vacuity witness: a concrete instance of this shape through interpreter, oracle and native build
    r, m = C.solve(f'{label}: shape is satisfiable (witness)', cons)
    if r != 'sat':
        raise Broken(f'{label}: invariants unsatisfiable: vacuous shape')
    vec = vec_of(m)
    res = C.native(vec)
    C.model_validation += 1
    want = spec_of(vec)
    got = ('ok:' + res.get('path', '')) if res.get('r') == 'ok' else ('err:' + str(res.get('e')))
    cv = lambda x: SymEnum(MV, z3.BitVecVal(x, 64), nvar)
    cf = {'unstable_paths': fields['unstable_paths'],
          'stable_paths': Seq([Tup([cv(vec['stable'][i]), E.const_str(SPATHS[i])]) for i in range(ns)]),
          'deprecated': some(cv(vec['deprecated'])) if dep is not None else NONE, 'removed': some(cv(vec['removed'])) if rem is not None else NONE}
    st2 = E.new_state()
    h2 = E.root_ref(st2, Adt('api::metadata::VersionHistory', None, [cf[n] for n in names]))
    oc = E.run_func(f, [h2, Seq([cv(x) for x in vec['versions']])], st=st2)
    if len(oc) != 1 or oc[0].kind != 'ret':
        raise Broken(f'{label}: model validation: interpreter gives {oc} on concrete data {vec}')
    ov = oc[0].value
    interp = ('ok:' + E.as_str(oc[0].st, ov.fields[0]).conc().decode()) if ov.variant == 'Ok' else 'err:' + ov.fields[0].variant
    if not (interp == got == want):
        if interp != got:
            raise Broken(f'{label}: model validation: interpreter {interp} vs native {got} on {vec}')
        C.report_violation(f'{label}: witness instance: native {got}, property oracle {want}: {vec}', vec)
    C.samples.append({'shape': label, 'instance': vec, 'selected': got})
    C.bounds[label] = {'paths': len(outs)}


# ------------------------------------------------------------------------------------------------ Q header parameter quoting
TCHARS = b"!#$%&'*+-.^_`|~"


def run_quote(C, nmax):
    """http_headers::quote_ascii_string_if_required (the encoder of every XMatrix / Content-Disposition parameter value)
    executed from MIR on every printable-ASCII text of <= nmax bytes: the result is either the text itself, and then it is a
    non-empty RFC 9110 token, or `"` + text with exactly `\` and `"` backslash-escaped + `"` - the unique quoted-string a
    RFC 9110 parser (and unescape_string) decodes back to the text."""
    E = C.fresh_engine(['common'], N=8)
    E.feas_mode = 'budget'; E.feas_timeout_ms = 1000; E.feas_fresh = True
    f = E.find_func('http_headers::quote_ascii_string_if_required')
    tchar = lambda b: z3.Or(z3.And(z3.UGE(b, 0x30), z3.ULE(b, 0x39)), z3.And(z3.UGE(b, 0x41), z3.ULE(b, 0x5A)), z3.And(z3.UGE(b, 0x61), z3.ULE(b, 0x7A)),
                            *[b == c for c in TCHARS])
    special = lambda b: z3.Or(b == 0x5C, b == 0x22)

    def py_ref(t):
        if t and all(ch.isascii() and (ch.isalnum() or ch.encode() in [bytes([c]) for c in TCHARS]) for ch in t):
            return t
        return '"' + t.replace('\\', '\\\\').replace('"', '\\"') + '"'

    def native_ok(t):
        res = C.native({'op': 'c16:quote', 's': t})
        C.model_validation += 1
        return res, (res.get('r') == 'ok' and res.get('q') == py_ref(t) and (res.get('borrowed') or res.get('unquoted') == t) and (not res.get('borrowed') or res.get('token')))
    for n in range(0, nmax + 1):
        elems = [z3.BitVec(f'q{n}_{j}', 8) for j in range(n)]
        cons = [z3.And(z3.UGE(b, 0x20), z3.ULE(b, 0x7E)) for b in elems]
        s = Str(z3.K(z3.BitVecSort(64), z3.BitVecVal(0, 8)), bv(0), bv(n), True, n, None, n, elems)
        del E.axioms[:]
        outs = E.run_func(f, [s], cons)
        C.absorb(E)
        all_tok = z3.And(z3.BoolVal(n > 0), *[tchar(b) for b in elems])
        bad = []
        for o in outs:
            if o.kind != 'ret':
                bad.append(o.cond()); continue
            v = o.value
            if v.variant == 'Borrowed':
                r_ = E.as_str(o.st, v.fields[0])
                ln = z3.simplify(r_.ln)
                same = z3.And(ln == n, *[r_.at(j) == elems[j] for j in range(n)])
                bad.append(z3.And(o.cond(), z3.Not(z3.And(all_tok, same))))
                continue
            r_ = E.as_str(o.st, v.fields[0])
            ln = z3.simplify(r_.ln)
            if not z3.is_bv_value(ln):
                bad.append(o.cond()); continue
            ln = ln.as_long()
            need = ln - 2 - n
            alts = []
            for esc_set in (itertools.combinations(range(n), need) if 0 <= need <= n else []):
                pos, cs = 1, [r_.at(0) == 0x22, r_.at(ln - 1) == 0x22]
                for j, b in enumerate(elems):
                    if j in esc_set:
                        cs += [special(b), r_.at(pos) == 0x5C, r_.at(pos + 1) == b]; pos += 2
                    else:
                        cs += [z3.Not(special(b)), r_.at(pos) == b]; pos += 1
                alts.append(z3.And(*cs))
            okc = z3.And(z3.Not(all_tok), z3.Or(*alts)) if alts else z3.BoolVal(False)
            bad.append(z3.And(o.cond(), z3.Not(okc)))
        r, m = C.solve_split(f'quote_ascii_string_if_required on every printable-ASCII text of {n} bytes: itself iff a non-empty token, otherwise the quoted-string with exactly \\ and " escaped', cons + list(E.axioms), bad, chunk=32)
        if r == 'sat':
            t = bytes(m.eval(b, model_completion=True).as_long() for b in elems).decode()
            res, ok_ = native_ok(t)
            vec = {'op': 'c16:quote', 's': t, 'native': res, 'expected': py_ref(t)}
            if not ok_:
                C.report_violation(f'header parameter value {t!r} is encoded as {res.get("q")!r}; a RFC 9110 parser needs {py_ref(t)!r} to read the value back', vec)
                C.samples.append({'quote_counterexample': vec})
                return
            raise Broken(f'quote: model does not reproduce natively: {vec}')
        # vacuity / model validation: one token and one non-token instance of this length through the native build
        for want_tok in (True, False):
            r2, m2 = C.solve(f'quote witness ({n} bytes, token={want_tok})', cons + [all_tok == want_tok])
            if r2 == 'sat':
                t = bytes(m2.eval(b, model_completion=True).as_long() for b in elems).decode()
                res, ok_ = native_ok(t)
                if not ok_:
                    raise Broken(f'quote witness {t!r}: native {res} disagrees with the reference {py_ref(t)!r}')
                C.samples.append({'quote_witness': t, 'native': res.get('q')})
        C.bounds[f'quote:{n}'] = {'paths': len(outs), 'bytes': n}
    for t in ['matrix.org:8448', '[2001:db8::1]:8448', 'a"b\\c', '', 'ed25519:1']:
        res, ok_ = native_ok(t)
        if not ok_:
            C.report_violation(f'header parameter value {t!r} is encoded as {res.get("q")!r}, expected {py_ref(t)!r}', {'op': 'c16:quote', 's': t, 'native': res, 'expected': py_ref(t)})


def body(C):
    C.engine(['common'], N=8)
    C.build_replayer(['common'])
    maxv = 3 if C.tier == 'quick' else 4
    jobs = []
    for nu in range(0, 3):
        for ns in range(0, 4):
            for has_dep in (False, True):
                for has_rem in (False, True):
                    for nv in range(0, maxv + 1):
                        if nu + ns == 0 or (has_dep and ns == 0) or (has_rem and not has_dep):
                            continue
                        jobs.append((nu, ns, has_dep, has_rem, nv))
    C.assumptions += [
        f'histories: <= 2 unstable and <= 3 stable paths, optional deprecated / removed versions, every assignment of the 15 known Matrix versions satisfying the invariants asserted by VersionHistory::new; supported versions: every list of <= {maxv} versions (any order, duplicates)',
        'outside the claim: the macro-generated try_into_http_request / try_from_http_request (http, bytes, serde_json, serde_html_form), URL construction by make_endpoint_url beyond the selected path, the XMatrix header (http-auth)',
        'tracing macros are modelled as disabled (no subscriber installed)',
    ]
    parallel_map(C, run_shape, jobs)
    nq = 4 if C.tier == 'quick' else 6
    C.assumptions.append(f'header parameter quoting: every text of <= {nq} printable ASCII bytes (0x20..0x7E); longer values, tabs and non-ASCII (removed by sanitize_for_ascii_quoted_string) are outside the bound; the Display impl of XMatrix in ruma-federation-api that calls the encoder per field is outside the claim')
    run_quote(C, nq)


if __name__ == '__main__':
    run_check('C16', body)
