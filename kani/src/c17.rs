//! C17: byte-level parsers of untrusted input never panic (every byte string up to the stated length).
//! (ContentDisposition::try_from did not finish under Kani at 5 bytes / 15 min - from_utf8_lossy, percent decoding - and is
//! decided by the MIR executor instead, see checks/c17.py.)
/// PKCS#8 documents handed to Ed25519KeyPair::from_der go through the ring-compatibility rewrite first:
/// every byte string of up to 8 bytes is rewritten or passed through without a panic
#[cfg(ruma_verif)]
#[kani::proof]
#[kani::unwind(10)]
fn c17_ring_compat_document_no_panic() {
    const M: usize = 8;
    let b: [u8; M] = kani::any();
    let len: usize = kani::any();
    kani::assume(len <= M);
    let out = ruma_signatures::verif_compatible_document(&b[..len]);
    kani::cover!(out.is_some(), "some input is a ring document that gets rewritten");
    std::mem::forget(out);
}

// A variant for documents of up to 264 bytes (where the one-byte DER length and its `as u8` arithmetic wrap) was probed and
// did not finish within 15 minutes (unwind 270 over Vec / subslice::find): long documents are outside the claim.
