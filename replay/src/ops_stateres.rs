//! entry points of ruma-state-res: auth_check on PDUs built from JSON
use std::collections::HashMap;

use ruma_common::{room_version_rules::RoomVersionRules, EventId, MilliSecondsSinceUnixEpoch, OwnedEventId, OwnedRoomId, OwnedUserId, RoomId, RoomVersionId, UserId};
use ruma_events::{StateEventType, TimelineEventType};
use ruma_state_res::{event_auth::auth_check, Event};
use serde_json::{json, value::RawValue, Value};

#[derive(Clone, Debug)]
pub struct Pdu {
    event_id: OwnedEventId,
    room_id: OwnedRoomId,
    sender: OwnedUserId,
    kind: TimelineEventType,
    content: Box<RawValue>,
    state_key: Option<String>,
    prev_events: Vec<OwnedEventId>,
    auth_events: Vec<OwnedEventId>,
    redacts: Option<OwnedEventId>,
    ts: u64,
}

impl Event for Pdu {
    type Id = OwnedEventId;
    fn event_id(&self) -> &Self::Id { &self.event_id }
    fn room_id(&self) -> &RoomId { &self.room_id }
    fn sender(&self) -> &UserId { &self.sender }
    fn origin_server_ts(&self) -> MilliSecondsSinceUnixEpoch { MilliSecondsSinceUnixEpoch(self.ts.try_into().unwrap()) }
    fn event_type(&self) -> &TimelineEventType { &self.kind }
    fn content(&self) -> &RawValue { &self.content }
    fn state_key(&self) -> Option<&str> { self.state_key.as_deref() }
    fn prev_events(&self) -> Box<dyn DoubleEndedIterator<Item = &Self::Id> + '_> { Box::new(self.prev_events.iter()) }
    fn auth_events(&self) -> Box<dyn DoubleEndedIterator<Item = &Self::Id> + '_> { Box::new(self.auth_events.iter()) }
    fn redacts(&self) -> Option<&Self::Id> { self.redacts.as_ref() }
}

fn ids(v: &Value) -> Vec<OwnedEventId> {
    v.as_array().cloned().unwrap_or_default().iter().filter_map(|x| x.as_str()).map(|s| <&EventId>::try_from(s).unwrap().to_owned()).collect()
}

pub fn pdu(v: &Value) -> Result<Pdu, String> {
    let s = |k: &str| v.get(k).and_then(|x| x.as_str()).map(|x| x.to_owned());
    Ok(Pdu {
        event_id: <&EventId>::try_from(s("event_id").unwrap_or("$x:x".into()).as_str()).map_err(|e| e.to_string())?.to_owned(),
        room_id: <&RoomId>::try_from(s("room_id").unwrap_or("!r:x".into()).as_str()).map_err(|e| e.to_string())?.to_owned(),
        sender: <&UserId>::try_from(s("sender").ok_or("missing sender")?.as_str()).map_err(|e| e.to_string())?.to_owned(),
        kind: TimelineEventType::from(s("type").ok_or("missing type")?.as_str()),
        content: RawValue::from_string(serde_json::to_string(v.get("content").unwrap_or(&json!({}))).unwrap()).unwrap(),
        state_key: s("state_key"),
        prev_events: ids(v.get("prev_events").unwrap_or(&json!([]))),
        auth_events: ids(v.get("auth_events").unwrap_or(&json!([]))),
        redacts: s("redacts").map(|x| <&EventId>::try_from(x.as_str()).unwrap().to_owned()),
        ts: v.get("origin_server_ts").and_then(|x| x.as_u64()).unwrap_or(1),
    })
}

pub fn rules(req: &Value) -> Result<RoomVersionRules, String> {
    let v = req.get("version").and_then(|x| x.as_str()).ok_or("missing version")?;
    RoomVersionId::try_from(v).map_err(|e| e.to_string())?.rules().ok_or_else(|| "unknown room version".to_owned())
}

pub fn c08(kind: &str, req: &Value) -> Result<Value, String> {
    let rules = rules(req)?;
    match kind {
        "auth" => {
            let incoming = pdu(&req["incoming"])?;
            let mut state: HashMap<(StateEventType, String), Pdu> = HashMap::new();
            for s in req["state"].as_array().cloned().unwrap_or_default() {
                let p = pdu(&s)?;
                let ty = StateEventType::from(p.kind.to_string());
                state.insert((ty, p.state_key.clone().unwrap_or_default()), p);
            }
            let reads = std::cell::RefCell::new(Vec::new());
            let res = auth_check(&rules.authorization, &incoming, |ty, key| {
                reads.borrow_mut().push(format!("{ty}|{key}"));
                state.get(&(ty.clone(), key.to_owned())).cloned()
            });
            let reads = reads.into_inner();
            Ok(match res {
                Ok(()) => json!({"r": "ok", "reads": reads}),
                Err(e) => json!({"r": "err", "e": e, "reads": reads}),
            })
        }
        "select" => {
            let incoming = pdu(&req["incoming"])?;
            match ruma_state_res::event_auth::auth_types_for_event(&incoming.kind, &incoming.sender, incoming.state_key.as_deref(), &incoming.content, &rules.authorization) {
                Ok(v) => {
                    let mut pairs: Vec<Vec<String>> = v.into_iter().map(|(t, k)| vec![t.to_string(), k]).collect();
                    pairs.sort();
                    Ok(json!({"r": "ok", "pairs": pairs}))
                }
                Err(e) => Ok(json!({"r": "err", "e": e})),
            }
        }
        _ => Err(format!("unknown c08 op {kind}")),
    }
}
