#!/usr/bin/env python3
"""Regenerates /verif/MANIFEST.json from the table below (single source of truth for the registered checks)."""
import json, os, subprocess

V = os.path.dirname(os.path.dirname(os.path.abspath(__file__)))
props = [json.loads(l) for l in open(os.path.join(V, 'properties.jsonl'))]

MIRSYM = 'symbolic execution of rustc MIR (regenerated from /repo) + SMT (z3), bounded; native replay of counterexamples'
KANI = 'Kani/CBMC bounded model checking of the compiled code (harness crate with path deps on /repo)'

CHECKS = {
    'C01': dict(engine='kani', technique=KANI,
                text='Kani/CBMC decides, over the compiled code, the number-admission kernel of canonical JSON for every 64-bit integer and every f64 bit pattern (admitted iff integer and |n| <= 2^53-1, value preserved both ways); the formatter/parser of serde_json is outside the claim',
                note='partial claim (DESIGN §4 C01): serde_json formatting/parsing, recursive containers and String ordering are trusted; drop glue skipped with mem::forget',
                ref='DESIGN.md §4 C01'),
    'C02': dict(engine='mirsym', technique='symbolic execution of rustc MIR (regenerated from /repo) with cryptographic / serialization primitives as tagged ideal values; structural verdicts + SMT (z3) for the symbolic sizes; native replay with the real crates',
                text='sign_json, verify_json and hash_and_sign_event executed from the MIR of ruma-signatures on objects of every enumerated shape with Ed25519 / SHA-256 / base64 / serde_json as ideal tagged primitives: decides the text signed (object without signatures and unsigned), placement under signatures[entity][ed25519:<version>] as unpadded standard base64, preservation of earlier signatures / unsigned / other fields, atomic failure, and that verify_json accepts iff every entity named in signatures has a valid supported signature over that text under the supplied keys (10 states per entity, two entities)',
                note='partial claim: the signature scheme (ed25519-dalek vs RFC 8032), base64 and serde_json canonical serialization are library code and ideal here (DESIGN §4 C02); shapes are enumerated by the harness, not symbolic; native replays use the real crates and an independent canonical-JSON writer',
                ref='DESIGN.md §4 C02'),
    'C03': dict(engine='mirsym', technique='symbolic execution of rustc MIR (regenerated from /repo) with cryptographic / serialization primitives as tagged ideal values; structural verdicts + SMT (z3) for the symbolic sizes; native replay with the real crates',
                text='(S) servers_to_check_signatures executed from MIR on every enumerated event shape (type, sender, event_id, membership, third_party_invite, join_authorised_via_users_server present / absent / wrong type; symbolic user and server names) for all 11 room versions: z3 decides demanded servers == sender (unless third-party invite) + event-id server (v1-2) + authoriser (v8+); (V) verify_event on every combination of per-signer signature states and hash states: Ok iff every demanded server has a valid supported signature over the canonical JSON of the redacted event, Verified::All iff the stored sha256 is the content hash',
                note='partial claim: redact is an arbitrary object here (what it keeps: C04); ideal primitives as C02; verify_event scenarios are concrete shapes (one or two demanded signers)',
                ref='DESIGN.md §4 C03'),
    'C04': dict(engine='mirsym', technique=MIRSYM,
                text='bounded symbolic execution of the redaction predicates, rule constants (through RoomVersionId::rules) and redact/redact_in_place on symbolic objects for every key/type string <= N bytes and all 11 room versions; z3 compares with spec tables; counterexamples replayed through the public redact API',
                note='trusted: MIR dump, library models (str, BTreeMap as association list), spec tables in spec/redaction.py; values abstract except third_party_invite',
                ref='DESIGN.md §4 C04'),
    'C05': dict(engine='mirsym', technique='symbolic execution of rustc MIR (regenerated from /repo) with cryptographic / serialization primitives as tagged ideal values; structural verdicts + SMT (z3) for the symbolic sizes; native replay with the real crates',
                text='content_hash and reference_hash executed from MIR for every shape of special fields (hashes / signatures / unsigned present or absent) and every room version with an unconstrained 64-bit serialized length: decides the hashed text (event without exactly unsigned/signatures/hashes; redact(event, version rules) without exactly signatures/unsigned), the digest returned, the alphabet (standard unpadded up to v3, URL-safe from v4) and PduSize iff the text exceeds 65,535 bytes',
                note='partial claim: SHA-256, base64, serde_json are ideal primitives; redact abstract (C04); native replays recompute with sha2 / base64 / an independent canonical-JSON writer at the size boundary',
                ref='DESIGN.md §4 C05'),
    'C06': dict(engine='mirsym', technique=MIRSYM,
                text='the three hash-order-sensitive kernels of resolve() executed from MIR under every iteration order of every HashMap / HashSet they walk (symbolic order index per iteration): lexicographical_topological_sort (every DAG over <= 3 nodes, symbolic power levels / timestamps; z3 decides the emitted order is the specified function of graph and keys), separate (1-2 state sets, 3 thorough; unconflicted / conflicted split as maps) and get_auth_chain_diff (1-3 chains; ids missing from some chain, as a set), plus get_power_level_for_sender on the symbolic world of C08: same level whether the shared creator cache is empty or was filled by an event visited earlier; and mainline_sort (see C07); hence independent of hasher seeds, threads and repetition; native replays call each 16 times with fresh RandomState seeds',
                note='partial claim (DESIGN §4 C06): resolve() as a whole (composition of the kernels, iterative auth checks, mainline ordering), permutations of the state-set / auth-chain arguments are NOT decided; BinaryHeap / HashMap / HashSet are library models',
                ref='DESIGN.md §4 C06'),
    'C07': dict(engine='mirsym', technique=MIRSYM,
                text='the ordering kernels of state resolution: (0) add_event_and_auth_chain_to_graph on every auth-event DAG over 4 events x every auth difference (1024 concrete scenarios): the graph handed to the power sort; (1) lexicographical_topological_sort executed from MIR on every DAG over <= 3 nodes (sampled 4-node DAGs thorough) with every identifier assignment, symbolic power level and timestamp per node, all hash iteration orders: every node once, dependencies first, among ready nodes greatest power level, then earliest timestamp, then smallest event id; (2) mainline_sort on a power-level history with a side branch and three events citing any of its events or none (125 combinations, symbolic timestamps, all hash orders): ordered by the mainline position of the closest power-level ancestor (older first), then timestamp, then event id',
                note='partial claim (DESIGN §4 C07): equality of resolve() with state resolution v2 on room histories (composition of the kernels, iterative auth checks against the partial state, power-event graph construction) is outside what the engines can encode; slice::sort_by_key and BinaryHeap are library models',
                ref='DESIGN.md §4 C07'),
    'C08': dict(engine='mirsym', technique=MIRSYM,
                text='auth_check and everything above the serde seam executed from the MIR of ruma-state-res on a symbolic world (room version 1..11, create / power-levels / join-rules / member state by role, incoming member / message / state / aliases / redaction / third-party-invite / power-levels event with absent / well-typed / malformed fields); z3 decides accepted<=>the authorization rules of the specification (spec/auth_rules.py) and panic-freedom per family and version; counterexamples are concretised to PDUs and replayed through ruma_state_res::event_auth::auth_check',
                note='trusted: MIR dump, library models, the serde seam (from_raw_json_value / RoomPowerLevelsEvent accessors modelled as absent/ok/malformed fields), the transcription of the rules in spec/auth_rules.py; users of the family @<a-d>:<x-y>; rule 9 decided compositionally (call-site family + unit family with one changed property at a time); signature checks of third-party invites and the restricted-join authoriser signature are not part of auth_check',
                ref='DESIGN.md §4 C08'),
    'C11': dict(engine='mirsym', technique=MIRSYM,
                text='MatrixId (the identifier part of matrix.to / matrix: URIs): parse_with_sigil never panics on any UTF-8 text <= 12 bytes; to_string_with_sigil followed by parse_with_sigil is the identity for the Room, RoomAlias and User variants over every identifier the grammar admits (<= 6 bytes quick), i.e. the percent-encoding set covers every byte that the parser treats specially at that level; identifier validators abstracted to content predicates refined against the native validators',
                note='narrow partial claim (DESIGN §8.6): the event variants, the `type` style (parse_with_type / to_string_with_type), MatrixToUri::parse / MatrixUri::parse as wholes (query splitting, url::Url), via / action arguments are NOT decided - the harnesses for them exist (VERIF_C11_ALL=1) but hit the solver cap or did not finish; the three seeded changes for C11 fall outside this scope and are not detected',
                ref='DESIGN.md §4 C11, §8.6'),
    'C12': dict(engine='mirsym', technique=MIRSYM,
                text='compositional: (D) Ruleset::get_match executed from MIR on a symbolic ruleset with rules of all five kinds (symbolic enabled flags; condition and matcher verdicts arbitrary) - z3 decides that the first enabled rule whose conditions hold is returned, in the order override, content, room, sender, underride, nothing for own events, and which value/mode each kind hands to the matcher; (P) PushCondition::applies for event_match, room_member_count, sender_notification_permission, event_property_is, event_property_contains on a symbolic flattened event and room context against the specification; (W) matches_word for literal patterns on all printable-ASCII values <= 6 bytes / patterns <= 2 bytes against the word-boundary definition; (R) the regex built for wildcard word patterns, every pattern shape <= 4 positions; (F) FlattenedJson::flatten_value on nested objects with symbolic keys (dot-joined, backslash-escaped paths)',
                note='partial claim: the glob engine (wildmatch) and the regex generated for wildcard word patterns are library code (abstracted to arbitrary verdicts), the serde_json parsing step of FlattenedJson::from_raw is below the seam, non-ASCII text is outside; BTreeMap/IndexSet are library models',
                ref='DESIGN.md §4 C12'),
    'C09': dict(engine='mirsym', technique=MIRSYM,
                text='(a) auth_types_for_event executed from MIR on the symbolic events of the C08 world (every kind, membership, absent/ok/malformed content fields, third-party-invite token absent/string/non-string) per room version: z3 decides selected pairs == the specification\'s selection, no duplicates, errors only where the selection is undefined; (b) on every explored path of auth_check every (type, state_key) handed to fetch_state is among the pairs selected for that event, which (state = uninterpreted function of the key, auth_check deterministic) is non-interference of all other state entries',
                note='trusted: as C08; read-set containment is decided on the well-formed-state world of C08; iterative_auth_check building its state from the selection is a call-graph fact, not decided; quick tier: one room version per distinct AuthorizationRules constant',
                ref='DESIGN.md §4 C09'),
    'C10': dict(engine='mirsym', technique=MIRSYM,
                text='bounded symbolic execution of every validator of ruma-identifiers-validation over every UTF-8 string up to the stated byte bounds (300 bytes for identifiers, so the 255-byte limit and u8 index truncations are inside the bound); z3 decides panic-freedom, accept=>grammar, grammar=>accept, returned separator index',
                note='trusted: MIR dump, library models (validated against the native build each run), grammar oracles in spec/idgrammar.py; compositional: server-name part proved separately for <= N_A bytes',
                ref='DESIGN.md §4 C10'),
    'C13': dict(engine='mirsym', technique=MIRSYM,
                text='one-step induction: Ruleset::insert/remove/set_enabled/set_actions executed from MIR on an arbitrary valid rule list of one kind (<= k rules, symbolic ids and flags) with symbolic arguments; z3 decides placement, uniqueness, enabled-flag preservation, atomic errors and panic-freedom; counterexamples replayed through the public API',
                note='trusted: MIR dump, IndexSet library model (element equality runs the crate code), ids of 1..3 printable bytes; actions/conditions opaque',
                ref='DESIGN.md §4 C13'),
    'C16': dict(engine='mirsym', technique=MIRSYM,
                text='VersionHistory::{select_path, versioning_decision_for, stable_endpoint_for} executed from MIR on symbolic version histories (<= 2 unstable, <= 3 stable paths, optional deprecated/removed, all 15 versions) and symbolic lists of supported versions; z3 decides the selection against the oracle of the property statement; replay through Metadata::make_endpoint_url; (Q) http_headers::quote_ascii_string_if_required, the encoder of every XMatrix / Content-Disposition parameter value, executed from MIR on every printable-ASCII text <= 4 bytes (6 thorough): itself iff a non-empty RFC 9110 token, otherwise the unique quoted-string with exactly backslash and double quote escaped',
                note='partial claim (DESIGN §4 C16): path selection and the header-parameter quoting kernel; the macro-generated HTTP conversions, URL percent-encoding, the Display / parse of XMatrix around the kernel (http-auth) are outside; tracing modelled as disabled',
                ref='DESIGN.md §4 C16'),
    'C17': dict(engine='mirsym', also_kani=True, technique='symbolic execution of rustc MIR + SMT (z3) for the string / byte scanners; Kani/CBMC for the DER rewrite; bounded; native replay',
                text='no-panic for the ruma-owned scanners of untrusted input: mxc_uri / key_id validators (every UTF-8 string <= 300 bytes), MatrixId::parse_with_sigil (<= 12 bytes), ContentDisposition::try_from(&[u8]) (every byte string <= 4 bytes quick / 5 thorough), push word matching on UTF-8 text with multi-byte characters (value <= 6, literal pattern <= 4 bytes; 7 / 4 thorough), the ring-compat PKCS#8 rewrite of Ed25519KeyPair::from_der (MIR: every byte string <= 300 bytes, so the one-byte DER length arithmetic is inside the bound; Kani on the compiled code: <= 8 bytes); ruleset edits are decided by C13',
                note='partial claim (DESIGN §4 C17): serde_json / serde-derive deserialization, html5ever, http_auth (XMatrix), url::Url are third-party and outside; no claim on stack depth, termination or cross-call effects',
                ref='DESIGN.md §4 C17'),
    'C19': dict(engine='mirsym', technique=MIRSYM,
                text='for every derive-/macro-generated string enum discovered in the MIR of ruma-common and ruma-events: symbolic execution of from/as_ref (to_cow_str) over every string <= 64 bytes; z3 decides the round trip modulo declared aliases; spellings compared with spec tables and an independent implementation of the rename rules',
                note='trusted: MIR dump, library models; hand-written conversions and serde agreement are outside; T instantiated with &str',
                ref='DESIGN.md §4 C19'),
    'C20': dict(engine='mirsym', technique=MIRSYM,
                text='RoomPowerLevels::{for_user, for_message, for_state, user_can_ban(_user), user_can_unban(_user), user_can_invite, user_can_kick(_user), user_can_redact_*, user_can_send_message/state, user_can_trigger_room_notification, user_can_change_user_power_level} executed from the MIR of ruma-events on a symbolic power-level configuration (every level in the JSON integer range, users/events entries present or absent); z3 compares each with the comparison the authorization rules (the oracle C08 ties auth_check to) make for the corresponding event from a joined member; defaults of RoomPowerLevelsEventContent::new() against the specification',
                note='trusted: MIR dump, library models (BTreeMap with presence flags), spec/auth_rules.py; the target\'s membership preconditions of ban/kick/unban are those of the action; string-typed levels are a deserialization matter',
                ref='DESIGN.md §4 C20'),
}
NA = {
    'C14': 'depends on html5ever\'s tokenizer/tree builder/serializer (third-party state machines over Rc<RefCell> DOM); not encodable with Kani or the MIR executor (DESIGN §4 C14)',
    'C15': 'same dependency on html5ever parse/serialize round trips as C14 (DESIGN §4 C15)',
    'C18': 'serde-derive / event_enum! generated (de)serialization driving serde_json\'s parser: third-party visitor plumbing, Kani ICEs/explodes, no ruma-owned kernel to encode (DESIGN §4 C18)',
}
PENDING = 'check not built yet (work in progress in this session)'

hooks_commits = []
try:
    out = subprocess.check_output(['git', '-C', '/repo', 'log', '--format=%h %s']).decode().splitlines()
    hooks_commits = [l.split()[0] for l in out if l.split(' ', 1)[1].startswith('verif hook')]
except Exception:
    pass

m = {
    'version': 1,
    'setup_cmd': 'cd /verif && ./setup.sh',
    'hooks': {'guard': '--cfg ruma_verif',
              'enable': "RUSTFLAGS='--cfg ruma_verif' (set by tools/mirdump.sh, the replayer build and the Kani runner)",
              'baseline_off_cmd': 'cd /repo && RUSTUP_TOOLCHAIN=1.88.0 cargo nextest run --workspace --no-fail-fast --offline || (cd /repo && RUSTUP_TOOLCHAIN=1.88.0 cargo test --workspace --no-fail-fast --offline)',
              'source_commits': hooks_commits, 'add_only': True},
    'engines': [
        {'name': 'mirsym', 'path': 'mirsym/', 'serves_properties': [k for k, v in CHECKS.items() if v['engine'].startswith('mirsym')],
         'kind_free_text': 'symbolic executor over rustc MIR dumps (regenerated from /repo each run) + z3; library models; native replayer (replay/)'},
        {'name': 'kani', 'path': 'kani/', 'serves_properties': [k for k, v in CHECKS.items() if v['engine'] == 'kani' or v.get('also_kani')],
         'kind_free_text': 'Kani 0.68 / CBMC harness crate with path dependencies on /repo'},
    ],
    'checks': [], 'not_applicable': [], 'notes': 'see DESIGN.md; known-findings.json lists fixed defects',
}
for p in props:
    i = p['id']
    if i in CHECKS:
        c = CHECKS[i]
        m['checks'].append({'property_id': i, 'quick_cmd': f'./check {i} --tier quick', 'thorough_cmd': f'./check {i} --tier thorough',
                            'evidence_file': f'evidence/{i}.json', 'replay_cmd_template': f'./check {i} --replay {{path}}', 'engine': c['engine'],
                            'level_claimed': {'category': 'model_checking', 'text': c['text'], 'design_ref': c['ref']},
                            'level_note': c['note'], 'technique': c['technique']})
    else:
        m['not_applicable'].append({'property_id': i, 'reason': NA.get(i, PENDING)})
json.dump(m, open(os.path.join(V, 'MANIFEST.json'), 'w'), indent=1)
print('checks:', [c['property_id'] for c in m['checks']])
