"""Item index read from rustdoc JSON (regenerated from /repo on every run): enum variant order, struct field
order, and for every impl block its (file, line, col) span -> (trait, self type).  MIR names methods of impl
blocks by span (`push::<impl at crates/ruma-common/src/push.rs:82:1: 82:13>::insert`) while call sites name them
by type (`push::Ruleset::insert`); this index connects the two."""
import json, re


def ty_str(t):
    if t is None:
        return '()'
    if 'resolved_path' in t:
        p = t['resolved_path']
        return p['path'].split('::')[-1]
    if 'borrowed_ref' in t:
        return '&' + ty_str(t['borrowed_ref']['type'])
    if 'primitive' in t:
        return t['primitive']
    if 'generic' in t:
        return t['generic']
    if 'slice' in t:
        return '[' + ty_str(t['slice']) + ']'
    if 'array' in t:
        return '[' + ty_str(t['array']['type']) + '; N]'
    if 'tuple' in t:
        return '(' + ', '.join(ty_str(x) for x in t['tuple']) + ')'
    if 'raw_pointer' in t:
        return '*' + ty_str(t['raw_pointer']['type'])
    if 'qualified_path' in t:
        return t['qualified_path']['name']
    if 'dyn_trait' in t:
        return 'dyn'
    if 'impl_trait' in t:
        return 'impl'
    if 'function_pointer' in t:
        return 'fn'
    return '?'


def ty_full(t):
    """type with generic args (last path segments only)"""
    if t and 'resolved_path' in t:
        p = t['resolved_path']
        s = p['path'].split('::')[-1]
        a = p.get('args') or {}
        ab = a.get('angle_bracketed') if a else None
        if ab and ab.get('args'):
            parts = [ty_full(x['type']) for x in ab['args'] if 'type' in x]
            if parts:
                s += '<' + ', '.join(parts) + '>'
        return s
    if t and 'borrowed_ref' in t:
        return '&' + ty_full(t['borrowed_ref']['type'])
    return ty_str(t)


class SrcIndex:
    def __init__(self):
        self.enums = {}      # 'push::action::Action' -> [variant names]   (crate-relative path)
        self.enum_discr = {} # path -> [discriminant values]
        self.structs = {}    # path -> [field names] (named) / count (tuple)
        self.impls = {}      # (file, line, col) -> [ {trait, for, for_full, trait_full, items:set} ]
        self.variant_fields = {}  # (enum path, variant) -> [field names] for struct variants
        self.crates = set()

    def load(self, path):
        d = json.load(open(path))
        idx, paths = d['index'], d['paths']
        root = idx[str(d['root'])]['name']
        self.crates.add(root)
        for k, v in idx.items():
            if v.get('crate_id') != 0:
                continue
            inner = v['inner']
            p = paths.get(k)
            full = '::'.join(p['path'][1:]) if p else None
            if 'enum' in inner and full:
                names, discr, cur = [], [], 0
                for vid in inner['enum']['variants']:
                    vi = idx[str(vid)]
                    names.append(vi['name'])
                    dv = vi['inner']['variant'].get('discriminant')
                    if dv is not None:
                        cur = int(dv['value'])
                    discr.append(cur); cur += 1
                    kind = vi['inner']['variant']['kind']
                    if isinstance(kind, dict) and 'struct' in kind:
                        self.variant_fields[(full, vi['name'])] = [idx[str(f)]['name'] for f in kind['struct']['fields']]
                self.enums[full] = names
                self.enum_discr[full] = discr
            elif 'struct' in inner and full:
                kind = inner['struct']['kind']
                if isinstance(kind, dict) and 'plain' in kind:
                    self.structs[full] = [idx[str(f)]['name'] for f in kind['plain']['fields']]
                elif isinstance(kind, dict) and 'tuple' in kind:
                    self.structs[full] = len(kind['tuple'])
                else:
                    self.structs[full] = []
            elif 'impl' in inner and v.get('span'):
                im = inner['impl']
                if im.get('blanket_impl') or im.get('is_synthetic'):
                    continue
                sp = v['span']
                key = (sp['filename'], sp['begin'][0], sp['begin'][1])
                tr = im.get('trait')
                items = set()
                for it in im['items']:
                    iv = idx.get(str(it))
                    if iv and iv.get('name'):
                        items.add(iv['name'])
                self.impls.setdefault(key, []).append({
                    'trait': tr['path'].split('::')[-1] if tr else None,
                    'trait_full': ty_full({'resolved_path': tr}) if tr else None,
                    'for': ty_str(im['for']), 'for_full': ty_full(im['for']), 'items': items})
        return self

    def enum_variants(self, ty):
        """ty: path as printed in MIR (possibly prefixed by a crate name)."""
        if ty in self.enums:
            return self.enums[ty]
        head, _, rest = ty.partition('::')
        if head in self.crates and rest in self.enums:
            return self.enums[rest]
        return None


_IMPL_AT = re.compile(r'<impl at ([^:>]+):(\d+):(\d+): \d+:\d+>')


def impl_key(name):
    """('crates/x/src/a.rs', line, col) of the *last* `<impl at ..>` segment in a MIR body name, and the item name."""
    ms = list(_IMPL_AT.finditer(name))
    if not ms:
        return None, None
    m = ms[-1]
    rest = name[m.end():]
    item = rest[2:] if rest.startswith('::') else rest
    return (m.group(1), int(m.group(2)), int(m.group(3))), item
