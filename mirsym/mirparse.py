"""Parser for rustc `-Zunpretty=mir` text output.

The dump is regenerated from /repo's working tree on every check run (tools/mirdump.sh); this module
turns it into Func objects.  Statements/terminators are kept as text and parsed lazily (memoised) by
the executor, so only the bodies a check reaches are ever parsed.
"""
import re, hashlib
from functools import lru_cache


class Func:
    __slots__ = ('name', 'kind', 'sig', 'args', 'ret', 'locals', 'blocks', 'text_hash', 'parsed', 'crate')

    def __init__(self, name, kind, sig, args, ret, locs, blocks, text_hash):
        self.name, self.kind, self.sig, self.args, self.ret = name, kind, sig, args, ret
        self.locals, self.blocks, self.text_hash = locs, blocks, text_hash
        self.parsed = {}
        self.crate = None

    @property
    def nargs(self):
        return len(self.args)


_CHAR_RE = re.compile(r"'(\\.|\\u\{[0-9a-fA-F]+\}|\\x[0-9a-fA-F]{2}|[^'\\])'")


def _skip_quote(s, i):
    """s[i] is '"' -> index after the closing quote."""
    j, n = i + 1, len(s)
    while j < n and s[j] != '"':
        if s[j] == '\\':
            j += 1
        j += 1
    return j + 1


def split_top(s, sep=','):
    """Split on `sep` at nesting depth 0, respecting quotes and ()[]{}<> brackets."""
    out, depth, i, start = [], 0, 0, 0
    n = len(s)
    while i < n:
        c = s[i]
        if c == '"':
            i = _skip_quote(s, i); continue
        if c == "'":
            m = _CHAR_RE.match(s, i)
            if m:
                i = m.end(); continue
        if c in '([{':
            depth += 1
        elif c in ')]}':
            depth -= 1
        elif c == '<':
            # generic bracket unless it is a comparison (never appears in MIR operands) or `<-`
            depth += 1
        elif c == '>':
            if i > 0 and s[i - 1] in '-=':
                pass
            else:
                depth -= 1
        elif c == sep and depth == 0:
            out.append(s[start:i].strip()); start = i + 1
        i += 1
    last = s[start:].strip()
    if last:
        out.append(last)
    return out


def match_paren(s, close_idx):
    """Index of the '(' matching s[close_idx] == ')' (quote-aware forward scan)."""
    stack, i, n = [], 0, len(s)
    while i < n:
        c = s[i]
        if c == '"':
            i = _skip_quote(s, i); continue
        if c == "'":
            m = _CHAR_RE.match(s, i)
            if m:
                i = m.end(); continue
        if c == '(':
            stack.append(i)
        elif c == ')':
            o = stack.pop() if stack else None
            if i == close_idx:
                return o
        i += 1
    return None


_HDR = re.compile(r'^(fn|const|static mut|static) (.*) \{$')
_PROM = re.compile(r'^(\S.*::promoted\[\d+\])(?: in .*)?: (.*) = \{$')
_ONE = re.compile(r'^const (\S+): (.*?) = const (.*);$')


def parse_mir(text):
    funcs = {}
    lines = text.split('\n')
    i, n = 0, len(lines)
    ctfe = False
    while i < n:
        line = lines[i]
        if line.startswith('// MIR FOR CTFE'):
            ctfe = True
        if not line or line[0] in ' }/':
            i += 1; continue
        mo = _ONE.match(line)
        if mo:
            f = Func(mo.group(1), 'const', line, [], mo.group(2), {0: mo.group(2)},
                     {0: (['_0 = const ' + mo.group(3)], 'return')}, hashlib.sha1(line.encode()).hexdigest()[:12])
            funcs.setdefault(mo.group(1), []).append(f)
            i += 1; continue
        m = _HDR.match(line)
        kind = None
        if m:
            kind, rest = m.group(1), m.group(2)
        else:
            pm = _PROM.match(line)
            if pm:
                kind, rest = 'promoted', None
        if kind is None:
            i += 1; continue
        args, ret = [], None
        if kind == 'fn':
            arrow = rest.rfind(') -> ')
            close = arrow if arrow >= 0 else rest.rfind(')')
            op = match_paren(rest, close)
            name = rest[:op]
            ret = rest[arrow + 5:] if arrow >= 0 else '()'
            for a in split_top(rest[op + 1:close]):
                mm = re.match(r'^_(\d+): (.*)$', a)
                args.append((int(mm.group(1)), mm.group(2)))
        elif kind == 'promoted':
            name, ret = pm.group(1), pm.group(2)
            kind = 'const'
        else:
            # const NAME: TYPE =   (NAME may contain `<impl at a:b:c: d:e>`)
            body = rest[:-2] if rest.endswith(' =') else rest
            d, cut = 0, None
            j = 0
            while j < len(body):
                c = body[j]
                if c == '<': d += 1
                elif c == '>' and body[j - 1] != '-': d -= 1
                elif c == ':' and d == 0 and body[j:j + 2] == ': ':
                    cut = j; break
                j += 1
            name, ret = body[:cut], body[cut + 2:]
            kind = 'const' if kind == 'const' else 'static'
        j = i + 1
        locs, blocks = {}, {}
        cur_bb, stmts = None, []
        while j < n and lines[j] != '}':
            l = lines[j].strip()
            if cur_bb is None:
                lm = re.match(r'^let (?:mut )?_(\d+): (.*);$', l)
                if lm:
                    locs[int(lm.group(1))] = lm.group(2)
                else:
                    bm = re.match(r'^bb(\d+)(?: \(cleanup\))?: \{$', l)
                    if bm:
                        cur_bb, stmts = int(bm.group(1)), []
            elif l == '}':
                blocks[cur_bb] = (stmts[:-1], stmts[-1] if stmts else 'unreachable')
                cur_bb = None
            elif l:
                s = l
                while not s.endswith(';') and j + 1 < n and lines[j + 1].strip() != '}':
                    j += 1
                    s += ' ' + lines[j].strip()
                stmts.append(s[:-1] if s.endswith(';') else s)
            j += 1
        for k, t in args:
            locs[k] = t
        if 0 not in locs and ret is not None:
            locs[0] = ret
        h = hashlib.sha1('\n'.join(lines[i:j + 1]).encode()).hexdigest()[:12]
        if ctfe and kind == 'fn':
            ctfe = False        # the const-eval duplicate of a `const fn`: the runtime body precedes it
        else:
            funcs.setdefault(name, []).append(Func(name, kind, line, args, ret, locs, blocks, h))
        i = j + 1
    return funcs


# ----------------------------------------------------------------------------- paths

def is_qself(path, i):
    """path[i] == '<' ; is it a `<T as Trait>` segment?"""
    d = 0
    for j in range(i, len(path)):
        c = path[j]
        if c == '<': d += 1
        elif c == '>' and path[j - 1] != '-':
            d -= 1
            if d == 0: return False
        elif d == 1 and path.startswith(' as ', j): return True
    return False


@lru_cache(maxsize=None)
def strip_generics(path):
    """Remove every `::<...>` turbofish and every `Type<...>` argument list, keeping `<impl ..>`, `<T as Trait>`
    (whose inner parts are stripped recursively) and `{closure@..}` segments."""
    out, i, n = [], 0, len(path)
    while i < n:
        c = path[i]
        if c == '{':
            j = path.index('}', i)
            out.append(path[i:j + 1]); i = j + 1; continue
        if c == '<':
            # find matching '>'
            d, j = 0, i
            while j < n:
                if path[j] == '<': d += 1
                elif path[j] == '>' and path[j - 1] != '-':
                    d -= 1
                    if d == 0: break
                j += 1
            inner = path[i + 1:j]
            prev_seg = ''.join(out).rstrip(':').split('::')[-1] if out else ''
            is_turbofish_impl = inner.startswith('impl ') and not inner.startswith('impl at ') and (prev_seg[:1].isupper() or j + 1 >= n)
            if inner.startswith('impl ') and not is_qself(path, i) and not is_turbofish_impl:
                out.append(path[i:j + 1])
            elif is_qself(path, i):
                k = _find_as(inner)
                out.append('<' + strip_generics(inner[:k]) + ' as ' + strip_generics(inner[k + 4:]) + '>')
            elif i == 0 or out and out[-1].endswith('::') and (len(out) < 2 and True):
                # leading `<Type>::method` (qualified self without trait) or turbofish
                if i == 0:
                    out.append('<' + strip_generics(inner) + '>')
                else:
                    # turbofish: drop together with the preceding '::'
                    out[-1] = out[-1][:-2]
            else:
                if out and out[-1].endswith('::'):
                    out[-1] = out[-1][:-2]
                # plain generic args: drop
            i = j + 1; continue
        # accumulate identifier chars / separators
        j = i
        while j < n and path[j] not in '<{':
            j += 1
        out.append(path[i:j]); i = j
    return ''.join(out)


def _find_as(inner):
    d = 0
    for j, c in enumerate(inner):
        if c == '<': d += 1
        elif c == '>' and inner[j - 1] != '-': d -= 1
        elif d == 0 and inner.startswith(' as ', j): return j
    return -1


def turbofish(path):
    """Generic args of the *last* segment (`f::<A, B>` -> ['A','B']), else []."""
    path = path.strip()
    if not path.endswith('>'):
        return []
    d = 0
    for j in range(len(path) - 1, -1, -1):
        c = path[j]
        if c == '>' and path[j - 1] != '-': d += 1
        elif c == '<':
            d -= 1
            if d == 0:
                if path[j - 2:j] == '::':
                    return split_top(path[j + 1:-1])
                return []
    return []


def eval_rust_str(lit):
    assert lit[0] == '"' and lit[-1] == '"', lit
    body, out, i = lit[1:-1], bytearray(), 0
    while i < len(body):
        c = body[i]
        if c == '\\':
            nx = body[i + 1]
            if nx == 'n': out.append(10); i += 2
            elif nx == 't': out.append(9); i += 2
            elif nx == 'r': out.append(13); i += 2
            elif nx == '0': out.append(0); i += 2
            elif nx in '\\"\'': out += nx.encode(); i += 2
            elif nx == 'x': out.append(int(body[i + 2:i + 4], 16)); i += 4
            elif nx == 'u':
                j = body.index('}', i); out += chr(int(body[i + 3:j], 16)).encode(); i = j + 1
            else: raise ValueError(lit)
        else:
            out += c.encode(); i += 1
    return bytes(out)


def eval_rust_char(lit):
    return eval_rust_str('"' + lit[1:-1] + '"').decode()


if __name__ == '__main__':
    import sys
    fs = parse_mir(open(sys.argv[1]).read())
    print(len(fs), 'bodies')
    if len(sys.argv) > 2:
        for k, fl in fs.items():
            if sys.argv[2] in k:
                for f in fl: print(f.kind, k, f.nargs, len(f.blocks))
