#!/usr/bin/env python3-vt
"""C12 - push evaluation picks the first matching enabled rule under spec semantics.

Decided compositionally on the MIR of ruma-common (+ Kani for the member-count kernel):
 D  dispatch      Ruleset::get_match on a symbolic ruleset (rules of every kind, symbolic enabled flags, conditions and
                  pattern matches abstracted to arbitrary verdicts) returns the first rule, in the order override,
                  content, room, sender, underride and list order within a kind, that is enabled and whose conditions
                  all hold; nothing for the user's own events.  Also decides which property / which matching mode
                  each rule kind hands to the matcher (content.body on word boundaries, room_id, sender as globs).
 P  conditions    PushCondition::applies for every condition kind on a symbolic flattened event and room context
                  against the specification's meaning of the condition (matcher abstracted as above).
 W  word match    str::matches_word for literal patterns (no wildcards) on symbolic ASCII strings against the
                  specification: some occurrence of the pattern delimited by non-word characters or the string ends.
 R  wildcards     the regex matches_word builds for patterns with wildcards, for every pattern shape, against the specified translation.
 F  flattening    FlattenedJson::flatten_value on nested objects with symbolic keys: dot-joined, backslash-escaped paths.
Outside the claim: the glob engine (wildmatch crate) and the regex built for wildcard word patterns (regex crate) are
library code; non-ASCII text; the serde_json parsing step of FlattenedJson::from_raw."""
import os, sys, re, itertools
sys.path.insert(0, os.path.dirname(os.path.abspath(__file__)))
from common import *
from authsym import SymUser, mk_int, int_val, INT_MAX, install as install_auth
from mirsym.models.str_models import str_eq

os.environ.setdefault('VERIF_MAIN_MODULE', 'c12')
KEYS = ['idval', 'common']
PC = 'push::condition::PushCondition'
FJ = 'push::condition::flattened_json::FlattenedJson'
FJV = 'push::condition::flattened_json::FlattenedJsonValue'
SJV = 'push::condition::flattened_json::ScalarJsonValue'
CTX = 'push::condition::PushConditionRoomCtx'
PLCTX = 'push::condition::PushConditionPowerLevelsCtx'


def struct(E, ty, **vals):
    names = E.src.structs[ty]
    missing = [n for n in names if n not in vals]
    if missing:
        raise Inconclusive(f'{ty} has fields {names}; the harness does not know {missing}')
    return Adt(ty, None, [vals[n] for n in names])


def resolve(E, suffix, table='structs'):
    t = getattr(E.src, table)
    ks = [k for k in t if k == suffix or k.endswith('::' + suffix)]
    if len(ks) != 1:
        raise Inconclusive(f'type {suffix} not found uniquely in the item index: {ks}')
    return ks[0]


class MatchAbstraction:
    """`value.matches_pattern(pattern, words)` replaced by an arbitrary verdict per (pattern text, value, mode); the calls are
    recorded so that the queries can also decide *which* value and mode each rule hands to the matcher."""
    def __init__(self, E, values):
        self.E, self.values, self.vars = E, values, {}
        E.overrides.insert(0, (re.compile(r'^<str as push::condition::StrExt>::matches_pattern$'), self.model))

    def var(self, vname, pattern, words):
        k = (vname, pattern, bool(words))
        if k not in self.vars:
            self.vars[k] = z3.Bool(f'match[{vname}~{pattern.decode()}|{"words" if words else "glob"}]')
        return self.vars[k]

    def model(self, E_, st, callee, a, m):
        val, pat = E_.as_str(st, a[0]), E_.as_str(st, a[1])
        words = z3.simplify(a[2]) if not isinstance(a[2], bool) else z3.BoolVal(a[2])
        p = pat.conc()
        if p is None:
            raise Inconclusive('matches_pattern called with a symbolic pattern in the dispatch harness')
        for vname, s in self.values.items():
            if s.base.eq(val.base) and s.base.get_id() == val.base.get_id():
                if z3.is_true(words) or z3.is_false(words):
                    return [(TRUE, self.var(vname, p, z3.is_true(words)))]
                return [(words, self.var(vname, p, True)), (z3.Not(words), self.var(vname, p, False))]
        raise Inconclusive(f'matches_pattern called on a value the harness does not know: {val}')


def sym_text(E, name, n):
    s, cons = E.sym_str(name, n, utf8=False)
    cons = cons + [z3.And(z3.UGE(s.at(j), 0x20), z3.ULE(s.at(j), 0x7E)) for j in range(n)]
    return s, cons


def mk_event_ctx(C, E, with_pl=True):
    """symbolic flattened event {sender?, content.body?, <key>?} and room context"""
    cons = []
    sender, user = SymUser('sender'), SymUser('me'); cons += sender.cons + user.cons
    body, cs = sym_text(E, 'body', 4); cons += cs
    room = E.const_str(b'!r:x')
    name, cs = sym_text(E, 'display', 3); cons += cs
    return cons, sender, user, body, room, name


# ------------------------------------------------------------------------------------------------ D dispatch
def run_dispatch(C, job):
    nper = job
    E = C.fresh_engine(KEYS, N=8)
    E.feas_mode = 'budget'; E.feas_timeout_ms = 300
    E.loop_bound = 8 * nper + 8
    class _W: pass
    install_auth(None, E, _W())
    cons, sender, user, body, room, name = mk_event_ctx(C, E)
    has_sender, has_body = z3.Bool('event_has_sender'), z3.Bool('event_has_body')
    ROOMS = [b'!r%d:x' % i for i in range(nper)] + [b'!zz:x']
    room, cs = E.sym_str('room_id', 5, utf8=False); cons += cs
    cons.append(z3.Or(*[str_eq(E, room, E.const_str(r)) for r in ROOMS]))
    S = lambda s: Obj('String', s)
    fjv_str = lambda s: Adt(FJV, 'String', [S(s)])
    ev = struct(E, FJ, map=Obj('SymMap', ((S(E.const_str(b'sender')), fjv_str(sender.str), has_sender),
                                            (S(E.const_str(b'content.body')), fjv_str(body), has_body))))
    E.overrides.insert(0, (re.compile(r'^push::condition::flattened_json::FlattenedJson::from_raw$'), lambda E_, st, callee, a, m: [(TRUE, ev)]))
    M = MatchAbstraction(E, {'sender': sender.str, 'content.body': body, 'room_id': room})
    # conditions: arbitrary verdicts, identified by the key text of an EventMatch condition
    cvars = {}

    def cond_applies(E_, st, callee, a, m):
        c = E_.deref(st, a[0])
        key = E_.as_str(st, c.fields[E_.src.variant_fields[(PC, 'EventMatch')].index('key')]).conc()
        return [(TRUE, cvars[key])]
    E.overrides.insert(0, (re.compile(r'^push::condition::PushCondition::applies$'), cond_applies))

    def condition(tag):
        cvars[tag] = z3.Bool(f'cond[{tag.decode()}]')
        fl = E.src.variant_fields[(PC, 'EventMatch')]
        vals = {'key': S(E.const_str(tag)), 'pattern': S(E.const_str(b'p'))}
        return Adt(PC, 'EventMatch', [vals[n] for n in fl])

    rules, order = {}, []     # order: [(kind, idx, id bytes, enabled var, match formula)]
    ncond = {0: 2, 1: 0, 2: 1}
    def conditional(kind, i):
        rid = f'{kind}{i}'.encode()
        en = z3.Bool(f'enabled[{rid.decode()}]')
        cs = [condition(rid + b'-c%d' % j) for j in range(ncond[i % 3])]
        r = struct(E, 'push::ConditionalPushRule', actions=Obj('Vec', ()), default=FALSE, enabled=en, rule_id=S(E.const_str(rid)), conditions=Obj('Vec', tuple(cs)))
        matchf = z3.And(en, *[cvars[rid + b'-c%d' % j] for j in range(ncond[i % 3])])
        return r, rid, matchf
    def patterned(i):
        rid = f'content{i}'.encode()
        en = z3.Bool(f'enabled[{rid.decode()}]')
        pat = b'pat%d' % i
        r = struct(E, 'push::PatternedPushRule', actions=Obj('Vec', ()), default=FALSE, enabled=en, rule_id=S(E.const_str(rid)), pattern=S(E.const_str(pat)))
        return r, rid, z3.And(en, has_body, M.var('content.body', pat, True))
    def simple(kind, i):
        # rule ids are room / user ids
        en = z3.Bool(f'enabled[{kind}{i}]')
        if kind == 'room':
            rid = b'!r%d:x' % i
            r = struct(E, 'push::SimplePushRule', actions=Obj('Vec', ()), default=FALSE, enabled=en, rule_id=Adt('identifiers::room_id::OwnedRoomId', None, [E.const_str(rid)]))
            return r, rid, z3.And(en, M.var('room_id', rid, False))
        rid = b'@%c:x' % (97 + i)
        r = struct(E, 'push::SimplePushRule', actions=Obj('Vec', ()), default=FALSE, enabled=en, rule_id=Adt('identifiers::user_id::OwnedUserId', None, [E.const_str(rid)]))
        return r, rid, z3.And(en, has_sender, M.var('sender', rid, False))
    sets = {}
    for kind, mk in (('override', lambda i: conditional('override', i)), ('content', patterned), ('room', lambda i: simple('room', i)),
                     ('sender', lambda i: simple('sender', i)), ('underride', lambda i: conditional('underride', i))):
        lst = []
        for i in range(nper):
            r, rid, mf = mk(i)
            lst.append(r); order.append((kind, i, rid, mf))
        sets[kind] = lst
    rs = struct(E, 'push::Ruleset', content=E.mk_indexset(sets['content']), override_=E.mk_indexset(sets['override']), room=E.mk_indexset(sets['room']),
                sender=E.mk_indexset(sets['sender']), underride=E.mk_indexset(sets['underride']))
    ctx = struct(E, CTX, room_id=Adt('identifiers::room_id::OwnedRoomId', None, [room]), member_count=Adt('js_int::UInt', None, [I(z3.BitVec('members', 64), 64)]),
                 user_id=Adt('identifiers::user_id::OwnedUserId', None, [user.str]), user_display_name=S(name), power_levels=NONE)
    # literal room / user ids as glob patterns mean (case-insensitive) equality: those verdicts are defined, not arbitrary
    for (vn, p, w), var in list(M.vars.items()):
        if vn in ('room_id', 'sender') and not w:
            cons.append(var == str_eq(E, M.values[vn], E.const_str(p)))
    st = E.new_state()
    f = E.find_method('Ruleset', 'get_match')
    outs = E.run_func(f, [E.root_ref(st, rs), E.root_ref(st, Opaque('raw event')), E.root_ref(st, ctx)], cons, st=st)
    C.absorb(E)
    own = z3.And(has_sender, sender.eq(user))
    # specification: first rule in order whose match formula holds, unless the event is the user's own
    bad = []
    for o in outs:
        if o.kind != 'ret':
            bad.append(o.cond()); continue
        v = o.value
        if v.variant == 'None':
            want = z3.Or(own, z3.Not(z3.Or(*[mf for _, _, _, mf in order])))
            bad.append(z3.And(o.cond(), z3.Not(want)))
        else:
            anyref = v.fields[0]
            kindv = anyref.variant.lower()
            rule = E.deref(o.st, anyref.fields[0])
            rid_v = rule.fields[E.src.structs[rule.ty].index('rule_id')]
            rid = E.as_str(o.st, rid_v).conc()
            idx = [n for n, (k, i, r, mf) in enumerate(order) if r == rid and k == kindv]
            if len(idx) != 1:
                bad.append(o.cond()); continue
            n = idx[0]
            want = z3.And(z3.Not(own), order[n][3], *[z3.Not(mf) for _, _, _, mf in order[:n]])
            bad.append(z3.And(o.cond(), z3.Not(want)))
    r, m = C.solve_split(f'dispatch ({nper} rules per kind): get_match returns the first enabled rule whose conditions hold, in kind and list order', cons + list(E.axioms), bad)
    C.bounds[f'dispatch:{nper}'] = {'paths': len(outs), 'rules_per_kind': nper, 'abstract_match_calls': len(M.vars), 'conditions': len(cvars)}
    ev_ = lambda t: m.eval(t, model_completion=True)

    def vec_of(m):
        en = {f'{k}{i}': z3.is_true(ev_(z3.Bool(f'enabled[{k}{i}]'))) for k, i, _, _ in order}
        cv = {k.decode(): z3.is_true(ev_(v)) for k, v in cvars.items()}
        mt = {f'{vn}|{p.decode()}|{int(w)}': z3.is_true(ev_(v)) for (vn, p, w), v in M.vars.items()}
        rule = lambda k, i, rid, extra: dict({'rule_id': rid.decode(), 'default': False, 'enabled': en[f'{k}{i}'], 'actions': []}, **extra)
        rsj = {'override': [], 'content': [], 'room': [], 'sender': [], 'underride': []}
        for k, i, rid, _ in order:
            if k in ('override', 'underride'):
                rsj[k].append(rule(k, i, rid, {'conditions': [{'kind': 'event_match', 'key': f'content.{rid.decode()}-c{j}', 'pattern': 'yes'} for j in range(ncond[i % 3])]}))
            elif k == 'content':
                rsj[k].append(rule(k, i, rid, {'pattern': f'pat{i}'}))
            else:
                rsj[k].append(rule(k, i, rid, {}))
        content = {k: ('yes' if v else 'no') for k, v in cv.items()}
        has_b = z3.is_true(ev_(has_body))
        if has_b:
            content['body'] = ' '.join(['xx'] + [f'pat{i}' for i in range(nper) if mt.get(f'content.body|pat{i}|1')])
        event = {'content': content, 'type': 'm.room.message'}
        hs = z3.is_true(ev_(has_sender))
        if hs:
            event['sender'] = sender.value(m)
        return {'op': 'c12:eval', 'ruleset': rsj, 'event': event, 'ctx': {'room_id': bytes(model_bytes(m, room)).decode(), 'user_id': user.value(m), 'display_name': 'me', 'member_count': 2},
                'enabled': en, 'cond': cv, 'match': mt, 'has_sender': hs, 'has_body': has_b, 'sender': sender.value(m), 'me': user.value(m)}

    def expected(vec):
        if vec['has_sender'] and vec['sender'] == vec['me']:
            return None
        for k, i, rid, _ in order:
            name = f'{k}{i}'
            if not vec['enabled'][name]:
                continue
            if k in ('override', 'underride'):
                if all(vec['cond'][f'{name}-c{j}'] for j in range(ncond[i % 3])):
                    return [k, rid.decode()]
            elif k == 'content':
                if vec['has_body'] and vec['match'].get(f'content.body|pat{i}|1', False):
                    return [k, rid.decode()]
            elif k == 'room':
                if vec['match'].get(f'room_id|{rid.decode()}|0', False):
                    return [k, rid.decode()]
            elif k == 'sender':
                if vec['has_sender'] and vec['match'].get(f'sender|{rid.decode()}|0', False):
                    return [k, rid.decode()]
        return None
    if r == 'sat':
        vec = vec_of(m)
        res = C.native(vec); vec['native'] = res; vec['spec'] = expected(vec)
        if res.get('r') == 'ok' and res.get('v') != vec['spec']:
            C.report_violation(f'get_match returns {res.get("v")}, the first matching enabled rule is {vec["spec"]}: {vec}', vec)
            C.samples.append({'dispatch_counterexample': vec})
        else:
            raise Broken(f'dispatch model does not reproduce natively: {vec}')
    else:
        # model validation: a witness for "some rule of the last kind matches" through interpreter, oracle and native build
        for k, i, rid, mf in order[::max(1, len(order) // 5)]:
            r2, m = C.solve(f'dispatch witness: {k}{i} is the match', cons + list(E.axioms) + [z3.Not(own), mf] + [z3.Not(x[3]) for x in order[:order.index((k, i, rid, mf))]])
            if r2 == 'sat':
                vec = vec_of(m)
                res = C.native(vec)
                C.model_validation += 1
                if res.get('r') != 'ok' or res.get('v') != expected(vec) or expected(vec) != [k, rid.decode()]:
                    raise Broken(f'dispatch witness disagrees natively: native {res}, oracle {expected(vec)}: {vec}')
                C.samples.append({'dispatch_witness': f'{k}{i}', 'native': res.get('v')})


# ------------------------------------------------------------------------------------------------ P conditions
def run_conditions(C, job):
    which = job
    E = C.fresh_engine(KEYS, N=8)
    E.feas_mode = 'budget'; E.feas_timeout_ms = 300
    class _W: pass
    install_auth(None, E, _W())
    cons, sender, user, body, room, name = mk_event_ctx(C, E)
    S = lambda s: Obj('String', s)
    has_sender, has_body, has_key = z3.Bool('event_has_sender'), z3.Bool('event_has_body'), z3.Bool('event_has_key')
    # the event's `sender` is a user id of the family or the text "nobody" (not a user id)
    sender_bad = z3.Bool('sender_is_not_a_user_id')
    # value under the condition's key: any flattened value
    vtag = z3.BitVec('value_kind', 8); cons.append(z3.ULE(vtag, 5))     # Null Bool Integer String Array EmptyObject
    vb, vi = z3.Bool('value_bool'), z3.BitVec('value_int', 64); cons += [vi >= -INT_MAX, vi <= INT_MAX]
    vs, cs = sym_text(E, 'value_str', 4); cons += cs
    # array of two scalars
    def scalar(pfx):
        t = z3.BitVec(pfx + '_kind', 8); cons.append(z3.ULE(t, 3))     # Null Bool Integer String
        b, i = z3.Bool(pfx + '_bool'), z3.BitVec(pfx + '_int', 64); cons.extend([i >= -INT_MAX, i <= INT_MAX])
        s, cs = sym_text(E, pfx + '_str', 3); cons.extend(cs)
        return {'t': t, 'b': b, 'i': i, 's': s}
    arr = [scalar('elem0'), scalar('elem1')]
    arr_len = z3.BitVec('array_len', 8); cons.append(z3.ULE(arr_len, 2))
    cval = scalar('cond_value')
    key = b'content.k'

    def sjv_outcomes(sc):
        return [(sc['t'] == 0, Adt(SJV, 'Null', [])), (sc['t'] == 1, Adt(SJV, 'Bool', [sc['b']])), (sc['t'] == 2, Adt(SJV, 'Integer', [mk_int(sc['i'])])),
                (sc['t'] == 3, Adt(SJV, 'String', [S(sc['s'])]))]

    def scalar_eq(a, b):
        return z3.And(a['t'] == b['t'], z3.Or(a['t'] == 0, z3.And(a['t'] == 1, a['b'] == b['b']), z3.And(a['t'] == 2, a['i'] == b['i']), z3.And(a['t'] == 3, str_eq(E, a['s'], b['s']))))

    def flat_eq_scalar(sc):
        return z3.Or(z3.And(vtag == 0, sc['t'] == 0), z3.And(vtag == 1, sc['t'] == 1, vb == sc['b']), z3.And(vtag == 2, sc['t'] == 2, vi == sc['i']),
                     z3.And(vtag == 3, sc['t'] == 3, str_eq(E, vs, sc['s'])))
    M = MatchAbstraction(E, {'sender': sender.str, 'content.body': body, 'room_id': room, 'value': vs})
    # the harness enumerates the shape of the symbolic values (kinds), the solver everything else
    results = []
    fl = lambda var: E.src.variant_fields[(PC, var)]
    pl_present = z3.Bool('ctx_has_power_levels')
    lv_sender, lv_default, lv_room = z3.BitVec('lv_sender', 64), z3.BitVec('lv_default', 64), z3.BitVec('lv_room', 64)
    for x in (lv_sender, lv_default, lv_room):
        cons += [x >= -INT_MAX, x <= INT_MAX]
    p_sender = z3.Bool('users_has_sender')
    members, count = z3.BitVec('members', 64), z3.BitVec('count', 64)
    cons += [z3.ULE(members, INT_MAX), z3.ULE(count, INT_MAX)]
    own = z3.And(has_sender, z3.Not(sender_bad), sender.eq(user))
    notauser = E.const_str(b'nobody')
    sender_str_outs = [(z3.Not(sender_bad), sender.str), (sender_bad, notauser)]

    def mk_ev(value_outs, sender_s, key=key):
        ents = [(S(E.const_str(b'sender')), Adt(FJV, 'String', [S(sender_s)]), has_sender),
                (S(E.const_str(b'content.body')), Adt(FJV, 'String', [S(body)]), has_body)]
        return [(c, struct(E, FJ, map=Obj('SymMap', tuple(ents + [(S(E.const_str(key)), v, has_key)])))) for c, v in value_outs]

    def value_outs():
        outs = [(vtag == 0, Adt(FJV, 'Null', [])), (vtag == 1, Adt(FJV, 'Bool', [vb])), (vtag == 2, Adt(FJV, 'Integer', [mk_int(vi)])),
                (vtag == 3, Adt(FJV, 'String', [S(vs)])), (vtag == 5, Adt(FJV, 'EmptyObject', []))]
        for n in range(3):
            for combo in itertools.product(*[sjv_outcomes(a) for a in arr[:n]]):
                c = z3.And(vtag == 4, arr_len == n, *[x[0] for x in combo])
                outs.append((c, Adt(FJV, 'Array', [Obj('Vec', tuple(x[1] for x in combo))])))
        return outs
    users = Obj('SymMap', ((Adt('identifiers::user_id::OwnedUserId', None, [sender.str]), mk_int(lv_sender), p_sender),))
    npl = resolve(E, 'NotificationPowerLevels')
    plctx = struct(E, PLCTX, users=users, users_default=mk_int(lv_default), notifications=struct(E, npl, room=mk_int(lv_room)))
    def ctx_outs():
        mk = lambda pl: struct(E, CTX, room_id=Adt('identifiers::room_id::OwnedRoomId', None, [room]), member_count=Adt('js_int::UInt', None, [I(members, 64)]),
                               user_id=Adt('identifiers::user_id::OwnedUserId', None, [user.str]), user_display_name=S(name), power_levels=pl)
        return [(pl_present, mk(some(plctx))), (z3.Not(pl_present), mk(NONE))]
    # ---- the conditions and their meaning
    conds = []
    ev_simple = [(vtag == 3, Adt(FJV, 'String', [S(vs)])), (vtag != 3, Adt(FJV, 'Null', []))]
    def event_match(k, pat):
        vals = {'key': S(E.const_str(k)), 'pattern': S(E.const_str(pat))}
        return Adt(PC, 'EventMatch', [vals[n] for n in fl('EventMatch')])
    if which == 'event_match':
        conds.append(('event_match on an arbitrary key', [(TRUE, event_match(key, b'pat'))], ev_simple,
                      lambda: z3.And(has_key, vtag == 3, M.var('value', b'pat', False))))
        # properties whose path merely resembles content.body are matched as whole-value globs
        for k2 in (b'content.formatted_body', b'body', b'content.body2', b'Content.Body', b'content.m\\.new_content.body'):
            conds.append((f'event_match on {k2.decode()}', [(TRUE, event_match(k2, b'pat'))], ev_simple,
                          lambda: z3.And(has_key, vtag == 3, M.var('value', b'pat', False)), k2))
        conds.append(('event_match on content.body', [(TRUE, event_match(b'content.body', b'pat'))], ev_simple,
                      lambda: z3.And(has_body, M.var('content.body', b'pat', True))))
        conds.append(('event_match on room_id', [(TRUE, event_match(b'room_id', b'pat'))], ev_simple,
                      lambda: M.var('room_id', b'pat', False)))
        conds.append(('event_match on sender', [(TRUE, event_match(b'sender', b'pat'))], ev_simple,
                      lambda: z3.And(has_sender, z3.Or(z3.And(z3.Not(sender_bad), M.var('sender', b'pat', False)), z3.And(sender_bad, M.var('nobody', b'pat', False))))))
        M.values['nobody'] = notauser
    if which == 'display_name':
        M.values['content.body'] = body
        conds.append(('contains_display_name', [(TRUE, Adt(PC, 'ContainsDisplayName', []))], ev_simple, None))
    if which == 'member_count':
        rmc = resolve(E, 'RoomMemberCountIs')
        cop = resolve(E, 'ComparisonOperator', 'enums')
        ops = E.src.enums[cop]
        opv = z3.BitVec('operator', 64); cons.append(z3.ULT(opv, len(ops)))
        is_ = struct(E, rmc, prefix=SymEnum(cop, opv, len(ops)), count=Adt('js_int::UInt', None, [I(count, 64)]))
        vals = {'is': is_}
        sem = {'Eq': members == count, 'Lt': z3.ULT(members, count), 'Gt': z3.UGT(members, count), 'Ge': z3.UGE(members, count), 'Le': z3.ULE(members, count)}
        conds.append(('room_member_count', [(TRUE, Adt(PC, 'RoomMemberCount', [vals[n] for n in fl('RoomMemberCount')]))], ev_simple,
                      lambda: z3.Or(*[z3.And(opv == i, sem[o]) for i, o in enumerate(ops)])))
    if which == 'sender_notification_permission':
        for k, known in ((b'room', True), (b'other', False)):
            vals = {'key': S(E.const_str(k))}
            level = z3.If(p_sender, lv_sender, lv_default)
            conds.append((f'sender_notification_permission key={k.decode()}', [(TRUE, Adt(PC, 'SenderNotificationPermission', [vals[n] for n in fl('SenderNotificationPermission')]))], ev_simple,
                          (lambda known=known, level=level: z3.And(pl_present, has_sender, z3.Not(sender_bad), z3.BoolVal(known), level >= lv_room))))
    if which == 'event_property_is':
        couts = []
        for c, v in sjv_outcomes(cval):
            vals = {'key': S(E.const_str(key)), 'value': v}
            couts.append((c, Adt(PC, 'EventPropertyIs', [vals[n] for n in fl('EventPropertyIs')])))
        conds.append(('event_property_is', couts, value_outs(), lambda: z3.And(has_key, flat_eq_scalar(cval))))
    if which == 'event_property_contains':
        couts = []
        for c, v in sjv_outcomes(cval):
            vals = {'key': S(E.const_str(key)), 'value': v}
            couts.append((c, Adt(PC, 'EventPropertyContains', [vals[n] for n in fl('EventPropertyContains')])))
        conds.append(('event_property_contains', couts, value_outs(),
                      lambda: z3.And(has_key, vtag == 4, z3.Or(z3.And(z3.UGE(arr_len, 1), scalar_eq(arr[0], cval)), z3.And(z3.UGE(arr_len, 2), scalar_eq(arr[1], cval))))))
    f = E.find_method('PushCondition', 'applies')
    lower = lambda b: z3.If(z3.And(z3.UGE(b, 65), z3.ULE(b, 90)), b + 32, b)
    word = lambda b: z3.Or(z3.And(z3.UGE(b, 0x30), z3.ULE(b, 0x39)), z3.And(z3.UGE(b, 0x41), z3.ULE(b, 0x5A)), z3.And(z3.UGE(b, 0x61), z3.ULE(b, 0x7A)), b == 0x5F)
    ci_at = lambda s_, off, lit: z3.And(*[lower(s_.at(off + j)) == lit[j] for j in range(len(lit))])

    def define_verdicts():
        """the pattern of every event_match condition here is the literal `pat`: its glob verdict is case-insensitive
        equality, its word verdict (value <= 4 bytes) an occurrence delimited by a non-word byte or the ends"""
        defs = []
        for (vn, p_, w_), var in M.vars.items():
            sv = M.values[vn]
            if sv.conc() is not None:
                defs.append(var == z3.BoolVal(sv.conc().lower() == p_)); continue
            if vn == 'sender':
                defs.append(z3.Not(var)); continue          # a user id never equals `pat`
            L = len(p_)
            if not w_:
                defs.append(var == z3.And(sv.ln == L, ci_at(sv, 0, p_)))
            else:
                alts = [z3.And(sv.ln == L, ci_at(sv, 0, p_)), z3.And(sv.ln == L + 1, ci_at(sv, 0, p_), z3.Not(word(sv.at(L)))),
                        z3.And(sv.ln == L + 1, ci_at(sv, 1, p_), z3.Not(word(sv.at(0))))]
                defs.append(var == z3.Or(*alts))
        return defs
    sint = lambda m, t: (lambda x: x - (1 << 64) if x >= (1 << 63) else x)(m.eval(t, model_completion=True).as_long())
    tru = lambda m, t: z3.is_true(m.eval(t, model_completion=True))

    def scalar_json(m, sc):
        t = m.eval(sc['t'], model_completion=True).as_long()
        return [None, tru(m, sc['b']), sint(m, sc['i']), model_bytes(m, sc['s']).decode()][t]

    def cond_vec(cname, m, evkey=key):
        t = m.eval(vtag, model_completion=True).as_long()
        if cname.startswith(('event_match', 'room_member', 'sender_notification', 'contains_display')):
            val = model_bytes(m, vs).decode() if t == 3 else None
        else:
            n = m.eval(arr_len, model_completion=True).as_long()
            val = [None, tru(m, vb), sint(m, vi), model_bytes(m, vs).decode(), [scalar_json(m, x) for x in arr[:n]], {}][t]
        content = {}
        if tru(m, has_body): content['body'] = model_bytes(m, body).decode()
        event = {'type': 'm.room.message', 'content': content}
        if tru(m, has_key):
            # unflatten the (escaped) path of the third entry
            segs = [x.replace('\\.', '.') for x in re.split(r'(?<!\\)\.', evkey.decode())]
            cur = event
            for sgm in segs[:-1]:
                cur = cur.setdefault(sgm, {})
            cur[segs[-1]] = val
        if tru(m, has_sender): event['sender'] = 'nobody' if tru(m, sender_bad) else sender.value(m)
        ctx = {'room_id': '!r:x', 'user_id': user.value(m), 'display_name': 'me', 'member_count': m.eval(members, model_completion=True).as_long()}
        if tru(m, pl_present):
            ctx['power_levels'] = {'users': ({sender.value(m): sint(m, lv_sender)} if tru(m, p_sender) else {}), 'users_default': sint(m, lv_default), 'room': sint(m, lv_room)}
        if cname.startswith('event_match'):
            k = {'event_match on an arbitrary key': 'content.k', 'event_match on content.body': 'content.body', 'event_match on room_id': 'room_id', 'event_match on sender': 'sender'}.get(cname, evkey.decode())
            cj = {'kind': 'event_match', 'key': k, 'pattern': 'pat'}
        elif cname == 'room_member_count':
            opn = E.src.enums[resolve(E, 'ComparisonOperator', 'enums')][m.eval(z3.BitVec('operator', 64), model_completion=True).as_long()]
            cj = {'kind': 'room_member_count', 'is': {'Eq': '==', 'Lt': '<', 'Gt': '>', 'Ge': '>=', 'Le': '<='}[opn] + str(m.eval(count, model_completion=True).as_long())}
        elif cname.startswith('sender_notification_permission'):
            cj = {'kind': 'sender_notification_permission', 'key': cname.split('=')[1]}
        else:
            cj = {'kind': cname, 'key': 'content.k', 'value': scalar_json(m, cval)}
        return {'op': 'c12:condition', 'condition': cj, 'event': event, 'ctx': ctx}
    for cnd in conds:
        cname, cond_outs, vouts, spec = cnd[:4]
        evkey = cnd[4] if len(cnd) > 4 else key
        outs = []
        for (cc, cv), (sc, ss), (xc, xv) in itertools.product(cond_outs, sender_str_outs, ctx_outs()):
            for ec, evv in mk_ev(vouts, ss, evkey):
                st = E.new_state()
                pc = cons + [cc, sc, xc, ec]
                outs += E.run_func(f, [E.root_ref(st, cv), E.root_ref(st, evv), E.root_ref(st, xv)], pc, st=st)
        C.absorb(E)
        if spec is None:      # contains_display_name: the matcher is called with the display name as pattern (symbolic): abstract by call record
            continue
        want = z3.And(z3.Not(own), spec())
        bad = []
        for o in outs:
            if o.kind != 'ret':
                bad.append(o.cond()); continue
            bad.append(z3.And(o.cond(), o.value != want))
        defs = define_verdicts()
        r, m = C.solve_split(f'condition {cname}: applies == the specification\'s meaning', cons + defs + list(E.axioms), bad)
        C.bounds[f'condition:{cname}'] = {'paths': len(outs)}
        if r == 'sat':
            vec = cond_vec(cname, m, evkey)
            res = C.native(vec); vec['native'] = res
            vec['spec'] = tru(m, want)
            if res.get('r') == 'ok' and res.get('v') != vec['spec']:
                C.report_violation(f'condition {cname}: PushCondition::applies answers {res.get("v")}, the specification {vec["spec"]}: condition {vec["condition"]} event {vec["event"]} context {vec["ctx"]}', vec)
                C.samples.append({'condition_counterexample': vec})
            else:
                raise Broken(f'condition {cname}: model does not reproduce natively: {vec}')
        else:
            for wantv in (True, False):
                r2, m = C.solve(f'condition {cname}: witness ({wantv})', cons + defs + list(E.axioms) + [want == wantv])
                if r2 == 'sat':
                    vec = cond_vec(cname, m, evkey)
                    res = C.native(vec)
                    C.model_validation += 1
                    if res.get('r') != 'ok' or res.get('v') != wantv:
                        raise Broken(f'condition {cname}: witness ({wantv}) disagrees natively: {res}: {vec}')
                    C.samples.append({'condition_witness': cname, 'expected': wantv, 'native': res.get('v')})


# ------------------------------------------------------------------------------------------------ W word match
def run_word(C, job):
    NV, NP = job
    E = C.fresh_engine(KEYS, N=NV)
    E.feas_mode = 'budget'; E.feas_timeout_ms = 2000; E.feas_fresh = True; E.concrete_find = True
    E.max_frames = 200
    val, c1 = E.sym_str_elems('value', NV, utf8=False)
    pat, c2 = E.sym_str_elems('pattern', NP, utf8=False)
    cons = c1 + c2
    cons += [z3.And(z3.UGE(val.at(j), 0x20), z3.ULE(val.at(j), 0x7E)) for j in range(NV)]
    cons += [z3.And(z3.UGE(pat.at(j), 0x20), z3.ULE(pat.at(j), 0x7E), pat.at(j) != 0x3F, pat.at(j) != 0x2A) for j in range(NP)]
    f = E.find_func('<impl push::condition::StrExt for str>::matches_word') if False else E.find_method('str', 'matches_word', trait='StrExt')
    outs = E.run_func(f, [val, pat], cons)
    C.absorb(E)
    word = lambda b: z3.Or(z3.And(z3.UGE(b, 0x30), z3.ULE(b, 0x39)), z3.And(z3.UGE(b, 0x41), z3.ULE(b, 0x5A)), z3.And(z3.UGE(b, 0x61), z3.ULE(b, 0x7A)), b == 0x5F)
    lv, lp = val.ln, pat.ln
    occ = []
    for i in range(NV):
        for L in range(1, NP + 1):
            if i + L > NV: continue
            here = z3.And(lp == L, z3.UGE(lv, i + L), *[val.at(i + j) == pat.at(j) for j in range(L)])
            start_ok = z3.BoolVal(True) if i == 0 else z3.Or(z3.Not(word(val.at(i - 1))), z3.Not(word(val.at(i))))
            e = i + L
            end_ok = z3.Or(lv == e, z3.Not(word(val.at(e - 1))), z3.Not(word(val.at(e)))) if e < NV else lv == e
            occ.append(z3.And(here, start_ok, end_ok))
    spec = z3.Or(z3.And(lv == lp, *[z3.Or(z3.ULE(lv, j), val.at(j) == pat.at(j)) for j in range(min(NV, NP))]), z3.And(lp != 0, z3.Or(*occ)))
    bad = []
    for o in outs:
        if o.kind != 'ret':
            bad.append(o.cond()); continue
        bad.append(z3.And(o.cond(), o.value != spec))
    r, m = C.solve_split(f'matches_word (literal pattern <= {NP} bytes, value <= {NV} bytes, printable ASCII): some occurrence delimited by non-word characters or the ends', cons + list(E.axioms), bad)
    C.bounds[f'word:{NV}x{NP}'] = {'paths': len(outs), 'value_bytes': NV, 'pattern_bytes': NP}

    def native_word(v, p):
        return C.native({'op': 'c12:condition', 'condition': {'kind': 'event_match', 'key': 'content.body', 'pattern': p}, 'event': {'content': {'body': v}, 'sender': '@a:x', 'type': 'm.room.message'},
                         'ctx': {'user_id': '@me:x', 'room_id': '!r:x'}})

    def ref_word(v, p):
        isw = lambda ch: ch.isascii() and (ch.isalnum() or ch == '_')
        if v == p: return True
        if not p: return False
        for i in range(len(v) - len(p) + 1):
            if v[i:i + len(p)] == p:
                e = i + len(p)
                if (i == 0 or not isw(v[i - 1]) or not isw(v[i])) and (e == len(v) or not isw(v[e - 1]) or not isw(v[e])):
                    return True
        return False
    if r == 'sat':
        v, p = model_bytes(m, val).decode(), model_bytes(m, pat).decode()
        # matches_pattern lowercases both sides first: replay with the lowercased texts (the claim is about matches_word)
        res = native_word(v.lower(), p.lower())
        vec = {'value': v.lower(), 'pattern': p.lower(), 'native': res, 'spec': ref_word(v.lower(), p.lower())}
        if res.get('r') == 'ok' and res.get('v') != vec['spec'] or res.get('r') == 'panic':
            C.report_violation(f'content.body word match of pattern {p.lower()!r} in {v.lower()!r}: push condition answers {res.get("v", res.get("r"))}, on word boundaries the answer is {vec["spec"]}', vec)
            C.samples.append({'word_counterexample': vec})
        else:
            raise Broken(f'word-match model does not reproduce natively: {vec}')
    else:
        for want in (True, False):
            r2, m = C.solve(f'matches_word witness ({want})', cons + list(E.axioms) + [spec == want, lp != 0, z3.UGT(lv, lp)])
            if r2 == 'sat':
                v, p = model_bytes(m, val).decode().lower(), model_bytes(m, pat).decode().lower()
                res = native_word(v, p)
                C.model_validation += 1
                if res.get('r') != 'ok' or res.get('v') != ref_word(v, p):
                    raise Broken(f'word-match witness disagrees natively: {v!r} {p!r} native {res} reference {ref_word(v, p)}')
                C.samples.append({'word_witness': [v, p], 'native': res.get('v')})


# ------------------------------------------------------------------------------------------------ F flattening
def run_flatten(C, job):
    """FlattenedJson::flatten_value on {k1: {k2: "v"}, k3: "w", k4: {}} with symbolic keys k1, k2 (every printable ASCII text of
    the enumerated lengths): the flattened map has exactly the entries escape(k1).escape(k2) -> "v", k3 -> "w", k4 -> {}, where
    escape doubles backslashes and prefixes dots with a backslash (the dot-path addressing of the specification)"""
    L = job
    E = C.fresh_engine(KEYS, N=8)
    E.feas_mode = 'budget'; E.feas_timeout_ms = 1000; E.feas_fresh = True
    JV = 'serde_json::Value'
    S = lambda s_: Obj('String', s_)
    f = E.find_method('FlattenedJson', 'flatten_value')
    nq = 0
    for l1 in range(1, L + 1):
        for l2 in range(1, L + 1):
            def sym(name, n):
                elems = [z3.BitVec(f'{name}{n}_{j}', 8) for j in range(n)]
                cons_ = [z3.And(z3.UGE(b, 0x20), z3.ULE(b, 0x7E)) for b in elems]
                return Str(z3.K(z3.BitVecSort(64), z3.BitVecVal(0, 8)), bv(0), bv(n), True, n, None, n, elems), cons_
            k1, c1 = sym('k1_', l1); k2, c2 = sym('k2_', l2)
            cons = c1 + c2
            inner = E.mk_map('serde_json::Map', [(S(k2), Adt(JV, 'String', [S(E.const_str(b'v'))]))])
            outer = E.mk_map('serde_json::Map', [(S(k1), Adt(JV, 'Object', [inner])), (S(E.const_str(b'zz')), Adt(JV, 'String', [S(E.const_str(b'w'))])),
                                                 (S(E.const_str(b'zy')), Adt(JV, 'Object', [E.mk_map('serde_json::Map', [])]))])
            st = E.new_state()
            fj = E.root_ref(st, struct(E, FJ, map=E.mk_map('BTreeMap', [])))
            del E.axioms[:]
            outs = E.run_func(f, [fj, Adt(JV, 'Object', [outer]), S(E.const_str(b''))], cons + [z3.Not(z3.And(k1.ln == 2, k1.at(0) == 0x7A, z3.Or(k1.at(1) == 0x7A, k1.at(1) == 0x79))) if l1 == 2 else z3.BoolVal(True)], st=st)
            C.absorb(E)

            def esc(s_, n):
                # expected escaped text as a list of z3 bytes per concrete mask is awkward: compare by decoding instead:
                return None
            bad = []
            for o in outs:
                if o.kind != 'ret':
                    bad.append(o.cond()); continue
                mp = E.deref(o.st, E.deref(o.st, fj).fields[0])
                ents = [(E.as_str(o.st, k), E.deref(o.st, v)) for k, v in mp.data[1]]
                if len(ents) != 3:
                    bad.append(o.cond()); continue
                # the entry that is neither zz nor zy is the nested one
                nested = [(k, v) for k, v in ents if k.conc() not in (b'zz', b'zy')]
                fixed = {k.conc(): v for k, v in ents if k.conc() in (b'zz', b'zy')}
                okc = (len(nested) == 1 and set(fixed) == {b'zz', b'zy'} and fixed[b'zz'].variant == 'String' and E.as_str(o.st, fixed[b'zz'].fields[0]).conc() == b'w'
                       and fixed[b'zy'].variant == 'EmptyObject' and nested[0][1].variant == 'String' and E.as_str(o.st, nested[0][1].fields[0]).conc() == b'v')
                if not okc:
                    bad.append(o.cond()); continue
                # unescape the produced path (concrete length on this path) and compare with k1 . k2
                kk = nested[0][0]
                n = z3.simplify(kk.ln)
                if not z3.is_bv_value(n):
                    bad.append(o.cond()); continue
                n = n.as_long()
                # decode: walk the bytes; a backslash escapes the next byte; an unescaped dot separates
                # (positions are concrete, bytes symbolic: build the formula "decodes to k1 '.' k2" by dynamic programming over
                # the two possible readings at each position is unnecessary: the expected *encoding* is unique, so build it)
                exp = []
                for src in (k1, None, k2):
                    if src is None:
                        exp.append([('lit', 0x2E)]); continue
                    for j in range(z3.simplify(src.ln).as_long()):
                        exp.append([('esc?', src.at(j))])
                # expected encoding depends on which source bytes need escaping: enumerate by the path's own shape: the number of
                # escapes is n - (l1 + l2 + 1); require a consistent assignment
                need = n - (l1 + l2 + 1)
                srcs = [k1.at(j) for j in range(l1)] + [None] + [k2.at(j) for j in range(l2)]
                alts = []
                idxs = [i for i, b in enumerate(srcs) if b is not None]
                import itertools as _it
                for esc_set in _it.combinations(idxs, need) if 0 <= need <= len(idxs) else []:
                    pos, cs = 0, []
                    for i, b in enumerate(srcs):
                        if b is None:
                            cs.append(kk.at(pos) == 0x2E); pos += 1
                        elif i in esc_set:
                            cs += [z3.Or(b == 0x2E, b == 0x5C), kk.at(pos) == 0x5C, kk.at(pos + 1) == b]; pos += 2
                        else:
                            cs += [b != 0x2E, b != 0x5C, kk.at(pos) == b]; pos += 1
                    alts.append(z3.And(*cs))
                bad.append(z3.And(o.cond(), z3.Not(z3.Or(*alts)) if alts else z3.BoolVal(True)))
            r, m = C.solve_split(f'flatten: path of a nested key pair ({l1}, {l2} bytes) is escape(k1).escape(k2); leaves and empty objects kept', cons + list(E.axioms), bad, chunk=32)
            nq += 1
            if r == 'sat':
                a_, b_ = model_bytes(m, k1).decode(), model_bytes(m, k2).decode()
                esc_ = lambda t: t.replace('\\', '\\\\').replace('.', '\\.')
                want_key = esc_(a_) + '.' + esc_(b_)
                vec = {'op': 'c12:condition', 'condition': {'kind': 'event_match', 'key': want_key, 'pattern': 'v'},
                       'event': {a_: {b_: 'v'}, 'zz': 'w', 'zy': {}, 'sender': '@a:x'}, 'ctx': {'user_id': '@me:x', 'room_id': '!r:x'}}
                res = C.native(vec); vec['native'] = res
                if res.get('r') == 'ok' and res.get('v') is not True:
                    C.report_violation(f'flattened event: the value under keys {a_!r} / {b_!r} is not addressable by the escaped dot path {want_key!r}', vec)
                    C.samples.append({'flatten_counterexample': vec})
                    return
                raise Broken(f'flatten: model does not reproduce natively: {vec}')
    C.bounds[f'flatten:{L}'] = {'max_key_bytes': L, 'queries': nq}
    vec = {'op': 'c12:condition', 'condition': {'kind': 'event_match', 'key': 'a\\.b.c\\\\d', 'pattern': 'v'},
           'event': {'a.b': {'c\\d': 'v'}, 'sender': '@a:x'}, 'ctx': {'user_id': '@me:x', 'room_id': '!r:x'}}
    res = C.native(vec)
    C.model_validation += 1
    if res.get('r') != 'ok' or res.get('v') is not True:
        raise Broken(f'flatten validation vector fails natively: {res}')
    C.samples.append({'flatten': f'keys up to {L} bytes', 'native_validation': 'a\\.b.c\\\\d addresses {"a.b": {"c\\d": ..}}'})


# ------------------------------------------------------------------------------------------------ R wildcard word patterns
def run_wildcard(C, job):
    """the regex matches_word builds for a pattern with wildcards, for every pattern shape (each position a letter, '?'
    or '*') up to L positions with symbolic letters: equal to the specification's translation (literal runs verbatim,
    a wildcard run with q question marks -> `.{q}`, with a star -> `.{q,}`) between the word-boundary anchors"""
    L = job
    E = C.fresh_engine(KEYS, N=8)
    E.feas_mode = 'budget'; E.feas_timeout_ms = 1000; E.feas_fresh = True; E.concrete_find = True
    captured = []

    def regex_new(E_, st, callee, a, m):
        s_ = E_.as_str(st, a[0])
        st.note(('regex', s_))
        return [(TRUE, ok(Obj('Regex', s_)))]
    E.overrides.insert(0, (re.compile(r'^regex::bytes::Regex::new$|^regex::Regex::new$'), regex_new))
    verdict = z3.Bool('regex_is_match')
    E.overrides.insert(0, (re.compile(r'^regex::bytes::Regex::is_match$|^regex::Regex::is_match$'), lambda E_, st, callee, a, m: [(TRUE, verdict)]))

    def escape(E_, st, callee, a, m):
        s_ = E_.as_str(st, a[0])
        # identity on ASCII letters (the only literal bytes of this harness)
        return [(TRUE, Obj('String', s_))]
    E.overrides.insert(0, (re.compile(r'^regex::escape$'), escape))
    f = E.find_method('str', 'matches_word', trait='StrExt')
    value = E.const_str(b'zz zz')
    shapes = [sh for n in range(1, L + 1) for sh in itertools.product('L?*', repeat=n) if ('?' in sh or '*' in sh)]
    nq = 0
    for sh in shapes:
        elems, cons = [], []
        for j, c in enumerate(sh):
            if c == 'L':
                b = z3.BitVec(f'p{j}', 8); cons.append(z3.And(z3.UGE(b, 97), z3.ULE(b, 122))); elems.append(b)
            else:
                elems.append(z3.BitVecVal(ord(c), 8))
        n = len(sh)
        base = z3.K(z3.BitVecSort(64), z3.BitVecVal(0, 8))
        for j, b in enumerate(elems):
            base = z3.Store(base, z3.BitVecVal(j, 64), b)
        pat = Str(base, z3.BitVecVal(0, 64), z3.BitVecVal(n, 64), True, n, None, n, elems)
        outs = E.run_func(f, [value, pat], cons)
        # expected regex text
        exp, j = [], 0
        while j < n:
            if sh[j] == 'L':
                exp.append(elems[j]); j += 1
            else:
                k = j
                while k < n and sh[k] != 'L': k += 1
                run = sh[j:k]
                txt = '.{%d%s}' % (run.count('?'), ',' if '*' in run else '')
                exp += [z3.BitVecVal(x, 8) for x in txt.encode()]
                j = k
        exp = [z3.BitVecVal(x, 8) for x in rb'(?-u:^|\W|\b)'] + exp + [z3.BitVecVal(x, 8) for x in rb'(?-u:\b|\W|$)']
        bad = []
        for o in outs:
            rx = [nn[1] for nn in o.st.notes if nn[0] == 'regex']
            if o.kind != 'ret' or len(rx) != 1:
                bad.append(o.cond()); continue
            r_ = rx[0]
            same = z3.And(r_.ln == len(exp), *[r_.at(i) == exp[i] for i in range(len(exp))], o.value == verdict)
            bad.append(z3.And(o.cond(), z3.Not(same)))
        C.absorb(E)
        r, m = C.solve(f'wildcard word pattern of shape {"".join(sh)}: generated regex == specification', cons + list(E.axioms) + [z3.Or(*bad) if bad else z3.BoolVal(False)])
        nq += 1
        if r == 'sat':
            ptxt = bytes(m.eval(b, model_completion=True).as_long() for b in elems).decode()
            # a value the specification's translation matches: letters as they are, one byte per '?', nothing for '*'
            val = ptxt.replace('*', '').replace('?', 'x')
            vec = {'op': 'c12:condition', 'condition': {'kind': 'event_match', 'key': 'content.body', 'pattern': ptxt},
                   'event': {'content': {'body': val}, 'sender': '@a:x', 'type': 'm.room.message'}, 'ctx': {'user_id': '@me:x', 'room_id': '!r:x'}}
            res = C.native(vec); vec['native'] = res
            role = 'matches_word: runs of two or more wildcards'   # (fixed in /repo by 0f6eaca; the entry in known-findings.json is a  record and suppresses nothing)
            desc = f'content.body pattern {ptxt!r} does not match {val!r} (\'?\' one character, \'*\' any run): the regex built for the pattern is not the pattern\'s translation'
            if res.get('r') == 'ok' and res.get('v') is False:
                if C.is_known(role) and re.search(r'[?*]{2}', ptxt):
                    C.report_known(role, desc)
                else:
                    C.report_violation(desc, vec)
                    C.samples.append({'wildcard_counterexample': vec})
            else:
                got = [bytes(model_bytes(m, nn[1])) for o in outs for nn in o.st.notes if nn[0] == 'regex']
                want_ = bytes(m.eval(x, model_completion=True).as_long() for x in exp)
                raise Broken(f'wildcard shape {"".join(sh)}: regex {got} differs from the specification\'s {want_} but the sample value still matches natively: {vec}')
    C.bounds[f'wildcard:{L}'] = {'shapes': len(shapes), 'max_positions': L}


def body(C):
    C.engine(KEYS, N=8)
    C.build_replayer(['common'])
    jobs = [(run_dispatch, 2)]      # three rules per kind (15 rules, every enabled / verdict combination) did not finish in 50 minutes
    for w in ('event_match', 'member_count', 'sender_notification_permission', 'event_property_is', 'event_property_contains'):
        jobs.append((run_conditions, w))
    jobs.append((run_word, (7, 3) if C.tier == 'thorough' else (6, 2)))
    jobs.append((run_wildcard, 5 if C.tier == 'thorough' else 4))
    jobs.append((run_flatten, 3 if C.tier == 'thorough' else 2))
    if os.environ.get('VERIF_PARTS'):
        parts = os.environ['VERIF_PARTS'].split(',')
        jobs = [j for j in jobs if (j[0].__name__.replace('run_', '') in parts or str(j[1]) in parts)]
    C.assumptions += [
        'glob matching (wildmatch) and wildcard word matching (regex built by matches_word) are library engines: matches_pattern is replaced by an arbitrary verdict per (value, pattern, mode) and the harness decides that the right value, pattern and mode reach it',
        'FlattenedJson::from_raw (serde_json) is below the seam: the flattened event is a symbolic map with entries sender, content.body and one more key, each present or absent',
        'user ids of the family @<a-d>:<x-y>, event sender alternatively the text "nobody"; texts printable ASCII up to 4 bytes',
        'BTreeMap / IndexSet are library models (association list with presence flags / ordered list)',
    ]
    parallel_map(C, jobs, None)


if __name__ == '__main__':
    run_check('C12', body)
