#!/usr/bin/env python3-vt
"""C02 - JSON signing is interoperable Ed25519 and verification is sound.

sign_json, verify_json and hash_and_sign_event are executed from the MIR of ruma-signatures on objects of every enumerated
shape with the primitives as tagged ideal values (sigsym.py); decided per shape:
 S  sign_json   the text signed is the serialization of the object without `signatures` and `unsigned`; the signature is stored as
                unpadded standard base64 under signatures[entity]["ed25519:<version>"]; earlier signatures (same and other
                entities) and `unsigned` are intact; every other field is untouched; a call that reports an error leaves the
                object exactly as it was.
 V  verify_json Ok iff *every* entity named in `signatures` has a supported signature that is valid over the serialization of the
                object without `signatures` and `unsigned` under the supplied keys (states per entity: valid, wrong, set not an
                object, no public keys, key missing, not a string, not base64, only unknown algorithms); errors for a missing or
                non-object `signatures`.  Independence of `unsigned` and key order follows from the signed text.
 H  hash_and_sign_event  hashes.sha256 = unpadded standard base64 of the content hash, stored before signing; the signature is
                made by sign_json over redact(event); signatures are copied back.
The signature scheme itself (ed25519-dalek against RFC 8032), base64 and serde_json are outside the claim; the native replays
run the real crates."""
import os, sys, re, itertools
sys.path.insert(0, os.path.dirname(os.path.abspath(__file__)))
from common import *
from sigsym import *
from c05 import event_entries

os.environ.setdefault('VERIF_MAIN_MODULE', 'c02')
KEYS = ['idval', 'common', 'signatures']
ENT = b'x'


def install_keypair(E, G):
    """<K as KeyPair>::sign -> Signature(message snapshot); Signature::{id, base64}"""
    calls = []

    def sign(E_, st, callee, a, m):
        t = G.tag_of(st, a[1])
        if t is None or t[0] != 'json':
            raise Inconclusive('KeyPair::sign on something that is not a serialized object')
        calls.append(t[1])
        st.note(('sign', t[1]))
        return [(TRUE, Obj('Signature', t[1]))]
    E.overrides.insert(0, (re.compile(r'^<K as keys::KeyPair>::sign$'), sign))
    E.overrides.insert(0, (re.compile(r'^signatures::Signature::id$'), lambda E_, st, c, a, m: [(TRUE, Obj('String', E_.const_str(b'ed25519:1')))]))

    def sig_b64(E_, st, callee, a, m):
        sg = E_.deref(st, a[0])
        return [(TRUE, Obj('String', G.fresh_str(('b64', 'standard', 'no_pad', Obj('SigBytes', ('new', sg.data))), 'sig')))]
    E.overrides.insert(0, (re.compile(r'^signatures::Signature::base64$'), sig_b64))
    return calls


SIGN_SHAPES = ['absent', 'empty', 'own_old', 'other', 'own_and_other', 'own_not_object', 'not_object']


def sign_object(E, G, shape, unsigned):
    old = lambda who: cjv_str(E, Obj('String', G.fresh_str(('b64', 'standard', 'no_pad', Obj('SigBytes', ('old', who))), 'old')))
    ents = [(b'content', cjv_obj(mk_map(E, [(b'body', cjv_str(E, b'hi'))]))), (b'type', cjv_str(E, b'm.x')), (b'zzz', cjv_int(7))]
    if unsigned:
        ents.append((b'unsigned', cjv_obj(mk_map(E, [(b'age', cjv_int(3))]))))
    own = (ENT, cjv_obj(mk_map(E, [(b'ed25519:0', old(b'x0'))])))
    oth = (b'y', cjv_obj(mk_map(E, [(b'ed25519:1', old(b'y1'))])))
    sigs = {'absent': None, 'empty': [], 'own_old': [own], 'other': [oth], 'own_and_other': [own, oth], 'own_not_object': [(ENT, cjv_int(1)), oth], 'not_object': 'int'}[shape]
    if sigs == 'int': ents.append((b'signatures', cjv_int(1)))
    elif sigs is not None: ents.append((b'signatures', cjv_obj(mk_map(E, sigs))))
    return ents


def run_sign(C, job):
    E = C.fresh_engine(KEYS, N=8)
    E.feas_mode = 'budget'; E.feas_timeout_ms = 500
    G = Sig(C, E, symbolic_len=False)
    install_entry_api(E)
    calls = install_keypair(E, G)
    f = E.find_func('functions::sign_json')
    for shape in SIGN_SHAPES:
        for unsigned in (True, False):
            label = f'sign_json[signatures {shape}; unsigned {"present" if unsigned else "absent"}]'
            ents = sign_object(E, G, shape, unsigned)
            st = E.new_state()
            oref = E.root_ref(st, mk_map(E, ents))
            before = snapshot(E, st, oref)
            del calls[:]
            outs = E.run_func(f, [E.const_str(ENT), E.root_ref(st, Obj('KeyPair', 'kp')), oref], [], st=st)
            C.absorb(E)
            if len(outs) != 1 or outs[0].kind != 'ret':
                raise Inconclusive(f'{label}: {[(o.kind, str(o.value)[:60]) for o in outs]}')
            o = outs[0]
            after = snapshot(E, o.st, oref)
            want_err = shape in ('own_not_object', 'not_object')
            msg_want = tuple(sorted((k, v) for k, v in before if k not in (b'signatures', b'unsigned')))
            problems = []
            if o.value.variant == 'Err':
                if not want_err: problems.append('unexpected error')
                if after != before:
                    lost = sorted(k.decode() for k in dict(before).keys() - dict(after).keys())
                    problems.append(f'a failed call changed the object (fields lost: {lost})')
            else:
                if want_err: problems.append('malformed signatures accepted')
                signed = [n[1] for n in o.st.notes if n[0] == 'sign']
                if signed != [msg_want]: problems.append('the text signed is not the object without signatures and unsigned')
                a, b = dict(after), dict(before)
                for k in b:
                    if k != b'signatures' and a.get(k) != b[k]: problems.append(f'field {k.decode()} changed')
                if set(a) - set(b) - {b'signatures'}: problems.append('fields added')
                sg = a.get(b'signatures')
                if not sg or sg[0] != 'obj': problems.append('signatures is not an object')
                else:
                    sm = dict(sg[1]); bm = dict(b[b'signatures'][1]) if b.get(b'signatures', ('x',))[0] == 'obj' else {}
                    for ent_, val in bm.items():
                        if ent_ != ENT and sm.get(ent_) != val: problems.append('signature of another entity changed')
                    own = dict(sm.get(ENT, ('obj', ()))[1])
                    for kid, val in dict(bm.get(ENT, ('obj', ()))[1]).items():
                        if own.get(kid) != val: problems.append('earlier signature of the same entity lost')
                    new = own.get(b'ed25519:1')
                    t = None
                    if new and new[0] == 'str' and isinstance(new[1], tuple):
                        t = G.tags.get(new[1][1])
                    if not (t and t[0] == 'b64' and t[1:3] == ('standard', 'no_pad') and t[3].kind == 'SigBytes' and t[3].data == ('new', msg_want)):
                        problems.append('signatures[entity]["ed25519:1"] is not the unpadded standard base64 of the new signature')
            C.queries.append({'name': label + ': signed text, placement, preservation, atomic failure', 'result': 'sat' if problems else 'unsat', 's': 0})
            if problems:
                vec = {'op': 'c02:sign', 'signatures': shape, 'unsigned': unsigned}
                res = C.native(vec); vec['native'] = res
                role = 'sign_json: failed call drops signatures / unsigned' if all('failed call' in p for p in problems) else None
                what = f'{label}: ' + '; '.join(problems) + f'; native: {res}'
                if res.get('r') == 'ok' and res.get('problems'):
                    if role and C.is_known(role):
                        C.report_known(role, what[:300])
                    else:
                        C.report_violation(what, vec)
                        C.samples.append({'counterexample': vec})
                else:
                    raise Broken(f'{label}: {problems} does not reproduce natively: {res}')
    res = C.native({'op': 'c02:sign', 'signatures': 'own_and_other', 'unsigned': True})
    C.model_validation += 1
    if res.get('r') != 'ok' or res.get('problems'):
        raise Broken(f'sign_json validation scenario fails natively: {res}')
    C.samples.append({'sign_json': f'{len(SIGN_SHAPES) * 2} shapes decided', 'native': 'signature verifies with ed25519-dalek over an independently built canonical JSON'})


ENT_STATES = ['valid', 'wrong', 'set_not_object', 'no_pubkeys', 'key_missing', 'not_string', 'not_base64', 'only_unknown_alg', 'valid_plus_unknown', 'absent']


def run_verify_json(C, job):
    combos = job
    E = C.fresh_engine(KEYS, N=8)
    E.feas_mode = 'budget'; E.feas_timeout_ms = 500
    G = Sig(C, E, symbolic_len=False)
    install_entry_api(E)
    f = E.find_func('functions::verify_json')
    for states, sigshape in combos:
        label = f'verify_json[{",".join(states)};signatures {sigshape}]'
        body_ents = [(b'content', cjv_obj(mk_map(E, [(b'body', cjv_str(E, b'hi'))]))), (b'type', cjv_str(E, b'm.x')),
                     (b'unsigned', cjv_obj(mk_map(E, [(b'age', cjv_int(3))])))]
        want_msg = snapshot(E, E.new_state(), mk_map(E, [(k, v) for k, v in body_ents if k != b'unsigned']))

        def sig_value(server, kind):
            return cjv_str(E, Obj('String', G.fresh_str(('b64', 'standard', 'no_pad', Obj('SigBytes', (server, kind))), 'sig')))
        sigmap, keymap = [], []
        for srv, stt in zip([b'x', b'y'], states):
            pk = Adt('ruma_common::serde::base64::Base64', None, [Obj('PubKey', srv), Opaque('phantom')])
            keyset = [(b'ed25519:1', pk)]
            sset = {'valid': [(b'ed25519:1', sig_value(srv, 'good'))], 'wrong': [(b'ed25519:1', sig_value(srv, 'bad'))], 'set_not_object': 'int',
                    'no_pubkeys': [(b'ed25519:1', sig_value(srv, 'good'))], 'key_missing': [(b'ed25519:1', sig_value(srv, 'good'))],
                    'not_string': [(b'ed25519:1', cjv_int(1))], 'not_base64': [(b'ed25519:1', cjv_str(E, Obj('String', G.not_base64())))],
                    'only_unknown_alg': [(b'foo:1', sig_value(srv, 'good')), (b'nocolon', sig_value(srv, 'good'))],
                    'valid_plus_unknown': [(b'ed25519:1', sig_value(srv, 'good')), (b'foo:1', sig_value(srv, 'bad')), (b'nocolon', cjv_int(1))], 'absent': None}[stt]
            if stt == 'no_pubkeys': keyset = None
            if stt == 'key_missing': keyset = [(b'ed25519:2', pk)]
            if sset == 'int': sigmap.append((srv, cjv_int(1)))
            elif sset is not None: sigmap.append((srv, cjv_obj(mk_map(E, sset))))
            if keyset is not None: keymap.append((srv, mk_map(E, keyset)))
        ents = list(body_ents)
        if sigshape == 'object': ents.append((b'signatures', cjv_obj(mk_map(E, sigmap))))
        elif sigshape == 'not_object': ents.append((b'signatures', cjv_int(1)))

        def verify(E_, st, callee, a, m):
            pk, sg = E_.deref(st, a[1]), E_.deref(st, a[2])
            t = G.tag_of(st, a[3])
            good = (isinstance(pk, Obj) and pk.kind == 'PubKey' and isinstance(sg, Obj) and sg.kind == 'SigBytes' and sg.data == (pk.data, 'good')
                    and t is not None and t[0] == 'json' and t[1] == want_msg)
            if t is None or t[0] != 'json' or t[1] != want_msg:
                st.note(('wrong-message', t[1] if t else None))
            return [(TRUE, ok(UNIT) if good else err(Opaque('VerificationError::Signature')))]
        E.overrides = [x for x in E.overrides if 'Verifier>::verify_json' not in x[0].pattern]
        E.overrides.insert(0, (re.compile(r'^<(?:V|verification::Ed25519Verifier) as verification::Verifier>::verify_json$'), verify))
        st = E.new_state()
        outs = E.run_func(f, [E.root_ref(st, mk_map(E, keymap)), E.root_ref(st, mk_map(E, ents))], [], st=st)
        C.absorb(E)
        if len(outs) != 1 or outs[0].kind != 'ret':
            raise Inconclusive(f'{label}: {[(o.kind, str(o.value)[:60]) for o in outs]}')
        o = outs[0]
        named = [s for s in states if s != 'absent']
        want = 'Ok' if (sigshape == 'object' and all(s in ('valid', 'valid_plus_unknown') for s in named)) else 'Err'
        got = o.value.variant
        wrong_msg = [n for n in o.st.notes if n[0] == 'wrong-message']
        bad = got != want or bool(wrong_msg)
        C.queries.append({'name': label + f': verdict {want}; checked over the object without signatures/unsigned', 'result': 'sat' if bad else 'unsat', 's': 0})
        if bad:
            vec = {'op': 'c02:verify_json', 'states': list(states), 'signatures': sigshape}
            res = C.native(vec); vec['native'] = res; vec['spec'] = want
            if res.get('r') == 'ok' and res.get('v') != want:
                C.report_violation(f'{label}: verify_json -> {res.get("v")}, expected {want}', vec)
                C.samples.append({'counterexample': vec})
            else:
                raise Broken(f'{label}: interpreter says {got} (wrong message {bool(wrong_msg)}), expected {want}, native {res}')
    for states, want in ((('valid', 'valid'), 'Ok'), (('valid', 'wrong'), 'Err'), (('valid', 'no_pubkeys'), 'Err')):
        res = C.native({'op': 'c02:verify_json', 'states': list(states), 'signatures': 'object'})
        C.model_validation += 1
        if res.get('r') != 'ok' or res.get('v') != want:
            raise Broken(f'verify_json native validation scenario {states}: {res}, expected {want}')
    C.samples.append({'verify_json': f'{len(combos)} scenarios decided'})


def run_hash_and_sign(C, job):
    E = C.fresh_engine(KEYS, N=8)
    E.feas_mode = 'budget'; E.feas_timeout_ms = 500
    G = Sig(C, E, symbolic_len=False)
    install_entry_api(E)
    calls = install_keypair(E, G)
    f = E.find_func('functions::hash_and_sign_event')
    rules = Opaque('RedactionRules')
    for hshape in ('absent', 'object', 'not_object'):
        label = f'hash_and_sign_event[hashes {hshape}]'
        ents = event_entries(E, (b'unsigned',))
        if hshape == 'object': ents.append((b'hashes', cjv_obj(mk_map(E, [(b'md5', cjv_str(E, b'old'))]))))
        elif hshape == 'not_object': ents.append((b'hashes', cjv_int(1)))
        content_snap = snapshot(E, E.new_state(), mk_map(E, [(k, v) for k, v in ents if k not in (b'hashes', b'signatures', b'unsigned')]))
        red_obj = mk_map(E, event_entries(E, (b'signatures', b'hashes', b'unsigned'), 'red-'))
        red_calls = []

        def redact(E_, st, callee, a, m):
            red_calls.append((snapshot(E_, st, E_.deref(st, a[0])), E_.deref(st, a[1]), E_.deref(st, a[2]).variant))
            return [(TRUE, ok(red_obj))]
        E.overrides = [x for x in E.overrides if 'canonical_json::redact' not in x[0].pattern]
        E.overrides.insert(0, (re.compile(r'^ruma_common::canonical_json::redact$'), redact))
        st = E.new_state()
        oref = E.root_ref(st, mk_map(E, ents))
        rr = E.root_ref(st, rules)
        outs = E.run_func(f, [E.const_str(ENT), E.root_ref(st, Obj('KeyPair', 'kp')), oref, rr], [], st=st)
        C.absorb(E)
        if len(outs) != 1 or outs[0].kind != 'ret':
            raise Inconclusive(f'{label}: {[(o.kind, str(o.value)[:60]) for o in outs]}')
        o = outs[0]
        problems = []
        if hshape == 'not_object':
            if o.value.variant != 'Err': problems.append('non-object hashes accepted')
        else:
            if o.value.variant != 'Ok':
                problems.append('unexpected error')
            else:
                after = dict(snapshot(E, o.st, oref))
                hs = after.get(b'hashes')
                sha = dict(hs[1]).get(b'sha256') if hs and hs[0] == 'obj' else None
                t = G.tags.get(sha[1][1]) if sha and sha[0] == 'str' and isinstance(sha[1], tuple) else None
                if not (t and t[0] == 'b64' and t[1:3] == ('standard', 'no_pad') and t[3].kind == 'Digest' and t[3].data == content_snap):
                    problems.append('hashes.sha256 is not the unpadded standard base64 of the content hash')
                if hshape == 'object' and dict(hs[1]).get(b'md5') != ('str', b'old'): problems.append('other hashes lost')
                # redact saw the event *with* the new hash
                if len(red_calls) != 1 or dict(red_calls[0][0]).get(b'hashes') != hs or red_calls[0][2] != 'None' or red_calls[0][1] is not rules:
                    problems.append('redact was not applied to the hashed event with the given rules')
                signed = [n[1] for n in o.st.notes if n[0] == 'sign']
                red_msg = tuple(sorted((E.as_str(o.st, k).conc(), value_key(E, o.st, v)) for k, v in red_obj.data[1] if E.as_str(o.st, k).conc() not in (b'signatures', b'unsigned')))
                if signed != [red_msg]: problems.append('the text signed is not the redacted event without signatures and unsigned')
                sg = after.get(b'signatures')
                new = dict(dict(sg[1]).get(ENT, ('obj', ()))[1]).get(b'ed25519:1') if sg and sg[0] == 'obj' else None
                t2 = G.tags.get(new[1][1]) if new and new[0] == 'str' and isinstance(new[1], tuple) else None
                if not (t2 and t2[0] == 'b64' and t2[3].kind == 'SigBytes' and t2[3].data == ('new', red_msg)):
                    problems.append('the new signature was not copied back into the event')
                for k, v in dict(snapshot(E, st, oref)).items():
                    if k not in (b'hashes', b'signatures') and after.get(k) != v: problems.append(f'field {k.decode()} changed')
        C.queries.append({'name': label + ': hash stored before signing, signature over the redacted event, signatures copied back', 'result': 'sat' if problems else 'unsat', 's': 0})
        if problems:
            vec = {'op': 'c02:hash_and_sign', 'hashes': hshape}
            res = C.native(vec); vec['native'] = res
            if res.get('r') == 'ok' and res.get('problems'):
                C.report_violation(f'{label}: ' + '; '.join(problems) + f'; native: {res}', vec)
                C.samples.append({'counterexample': vec})
            else:
                raise Broken(f'{label}: {problems} does not reproduce natively: {res}')
    res = C.native({'op': 'c02:hash_and_sign', 'hashes': 'absent'})
    C.model_validation += 1
    if res.get('r') != 'ok' or res.get('problems'):
        raise Broken(f'hash_and_sign_event validation scenario fails natively: {res}')
    C.samples.append({'hash_and_sign_event': '3 shapes decided', 'native': 'verify_event reports All on the result; signature verifies independently'})


def body(C):
    C.engine(KEYS, N=8)
    C.build_replayer(['signatures'])
    combos = [((a, b), 'object') for a in ENT_STATES for b in ENT_STATES if (a in ('valid', 'absent') or b in ('valid', 'absent') or C.tier == 'thorough')]
    combos += [(('valid', 'valid'), 'absent'), (('valid', 'valid'), 'not_object')]
    half = len(combos) // 2
    jobs = [(run_sign, None), (run_verify_json, combos[:half]), (run_verify_json, combos[half:]), (run_hash_and_sign, None)]
    parts = os.environ.get('VERIF_PARTS')
    if parts:
        jobs = [j for j in jobs if any(p in j[0].__name__ for p in parts.split(','))]
    C.assumptions += [
        'ideal primitives (sigsym.py): injective serialization, ideal signatures, collision-free digest / base64; ed25519-dalek (RFC 8032), base64 and serde_json are outside the claim; native replays and validation vectors use the real crates and an independent canonical-JSON writer',
        'object shapes enumerated: signatures absent / empty / with the signer\'s earlier key / with another entity / both / signer\'s entry not an object / not an object, unsigned present or absent, ordinary fields; entity and key version fixed (`x`, `ed25519:1`)',
        'verify_json: two entities, each in one of the states ' + ', '.join(ENT_STATES),
    ]
    parallel_map(C, jobs, None)


if __name__ == '__main__':
    run_check('C02', body)
