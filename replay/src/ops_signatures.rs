//! native replays for the ruma-signatures properties: the reference values are recomputed here with an independent
//! canonical-JSON writer, the sha2 and base64 crates and a hard-coded redaction of the test event.
use base64::Engine as _;
use ruma_common::canonical_json::{CanonicalJsonObject, CanonicalJsonValue};
use ruma_common::RoomVersionId;
use serde_json::{json, Value};
use sha2::{Digest, Sha256};

fn cj(v: &Value, out: &mut String) {
    match v {
        Value::Object(m) => {
            let mut keys: Vec<&String> = m.keys().collect();
            keys.sort();
            out.push('{');
            for (i, k) in keys.iter().enumerate() {
                if i > 0 { out.push(','); }
                out.push('"'); out.push_str(k); out.push_str("\":");
                cj(&m[*k], out);
            }
            out.push('}');
        }
        Value::String(s) => { out.push('"'); out.push_str(s); out.push('"'); }
        Value::Number(n) => out.push_str(&n.to_string()),
        Value::Bool(b) => out.push_str(if *b { "true" } else { "false" }),
        Value::Null => out.push_str("null"),
        Value::Array(a) => {
            out.push('[');
            for (i, x) in a.iter().enumerate() { if i > 0 { out.push(','); } cj(x, out); }
            out.push(']');
        }
    }
}

fn canonical(v: &Value) -> String { let mut s = String::new(); cj(v, &mut s); s }

fn to_object(v: &Value) -> Result<CanonicalJsonObject, String> {
    match CanonicalJsonValue::try_from(v.clone()).map_err(|e| e.to_string())? {
        CanonicalJsonValue::Object(o) => Ok(o),
        _ => Err("not an object".into()),
    }
}

fn version(n: u64) -> RoomVersionId {
    match n { 1 => RoomVersionId::V1, 2 => RoomVersionId::V2, 3 => RoomVersionId::V3, 4 => RoomVersionId::V4, 5 => RoomVersionId::V5,
              6 => RoomVersionId::V6, 7 => RoomVersionId::V7, 8 => RoomVersionId::V8, 9 => RoomVersionId::V9, 10 => RoomVersionId::V10, _ => RoomVersionId::V11 }
}

/// test event with the named special fields; `pad_path` is padded so that `measure(event)` has exactly `len` bytes
fn event(present: &[String]) -> Value {
    let mut ev = json!({"content": {"body": "hi"}, "type": "m.room.message", "zzz": 7});
    for k in present {
        ev[k.as_str()] = json!({ format!("x{}", &k[..1]): k });
    }
    ev
}

pub fn c05(op: &str, req: &Value) -> Result<Value, String> {
    let len = req["len"].as_u64().unwrap_or(100) as usize;
    match op {
        "content_hash" => {
            let present: Vec<String> = req["present"].as_array().map(|a| a.iter().filter_map(|x| x.as_str().map(str::to_owned)).collect()).unwrap_or_default();
            let mut ev = event(&present);
            let strip = |e: &Value| { let mut e = e.clone(); for k in ["hashes", "signatures", "unsigned"] { e.as_object_mut().unwrap().remove(k); } e };
            let base = canonical(&strip(&ev)).len();
            if len > base { ev["content"]["body"] = Value::String(format!("hi{}", "a".repeat(len - base))); }
            let text = canonical(&strip(&ev));
            let expect = if text.len() > 65535 { None } else { Some(Sha256::digest(text.as_bytes()).to_vec()) };
            let got = ruma_signatures::content_hash(&to_object(&ev)?);
            let (r, matches, v) = match (&got, &expect) {
                (Ok(h), Some(d)) => ("ok", h.as_bytes() == &d[..], h.encode()),
                (Ok(h), None) => ("ok", false, h.encode()),
                (Err(e), None) => ("err", matches!(e, ruma_signatures::Error::PduSize), e.to_string()),
                (Err(e), Some(_)) => ("err", false, e.to_string()),
            };
            Ok(json!({"r": r, "v": v, "canonical_len": text.len(), "matches_independent": matches}))
        }
        "reference_hash" => {
            let v = req["version"].as_u64().unwrap_or(11);
            let rules = version(v).rules().ok_or("no rules")?;
            let present = vec!["hashes".to_owned(), "signatures".to_owned(), "unsigned".to_owned()];
            let mut ev = event(&present);
            // redaction of an m.room.message: content emptied, zzz and unsigned dropped; then signatures removed
            let redacted = |e: &Value| json!({"content": {}, "hashes": e["hashes"].clone(), "type": "m.room.message"});
            let base = canonical(&redacted(&ev)).len();
            if len > base { ev["hashes"]["xh"] = Value::String(format!("hashes{}", "a".repeat(len - base))); }
            if req["alphabet_sensitive"].as_bool().unwrap_or(false) {
                // pick a padding for which the two base64 alphabets give different texts (the digest contains 62 or 63)
                for extra in 0..256usize {
                    ev["hashes"]["xh"] = Value::String(format!("hashes{}", "b".repeat(extra)));
                    let d = Sha256::digest(canonical(&redacted(&ev)).as_bytes());
                    if base64::engine::general_purpose::STANDARD_NO_PAD.encode(d) != base64::engine::general_purpose::URL_SAFE_NO_PAD.encode(d) { break; }
                }
            }
            let text = canonical(&redacted(&ev));
            let expect = if text.len() > 65535 { None } else {
                let d = Sha256::digest(text.as_bytes());
                Some(if v <= 3 { base64::engine::general_purpose::STANDARD_NO_PAD.encode(d) } else { base64::engine::general_purpose::URL_SAFE_NO_PAD.encode(d) })
            };
            let got = ruma_signatures::reference_hash(&to_object(&ev)?, &rules);
            let (r, matches, val) = match (&got, &expect) {
                (Ok(h), Some(d)) => ("ok", h == d, h.clone()),
                (Ok(h), None) => ("ok", false, h.clone()),
                (Err(e), None) => ("err", matches!(e, ruma_signatures::Error::PduSize), e.to_string()),
                (Err(e), Some(_)) => ("err", false, e.to_string()),
            };
            Ok(json!({"r": r, "v": val, "canonical_len": text.len(), "matches_independent": matches}))
        }
        _ => Err(format!("unknown c05 op {op}")),
    }
}


fn keypair(version: &str) -> Result<ruma_signatures::Ed25519KeyPair, String> {
    let doc = ruma_signatures::Ed25519KeyPair::generate().map_err(|e| e.to_string())?;
    ruma_signatures::Ed25519KeyPair::from_der(&doc, version.to_owned()).map_err(|e| e.to_string())
}

pub fn c03(op: &str, req: &Value) -> Result<Value, String> {
    use ruma_signatures::{KeyPair, PublicKeyMap, PublicKeySet, Verified};
    let v = req["version"].as_u64().unwrap_or(11);
    let rules = version(v).rules().ok_or("no rules")?;
    match op {
        "signers" => {
            let mut content = serde_json::Map::new();
            if !req["membership"].is_null() { content.insert("membership".into(), req["membership"].clone()); }
            if !req["third_party_invite"].is_null() { content.insert("third_party_invite".into(), req["third_party_invite"].clone()); }
            if !req["authoriser"].is_null() { content.insert("join_authorised_via_users_server".into(), req["authoriser"].clone()); }
            let mut ev = serde_json::Map::new();
            ev.insert("type".into(), req["type"].clone());
            ev.insert("content".into(), Value::Object(content));
            if !req["sender"].is_null() { ev.insert("sender".into(), req["sender"].clone()); }
            if !req["event_id"].is_null() { ev.insert("event_id".into(), req["event_id"].clone()); }
            let obj = to_object(&Value::Object(ev))?;
            Ok(match ruma_signatures::verif_servers_to_check_signatures(&obj, &rules.signatures) {
                Ok(set) => json!({"r": "ok", "servers": set.iter().map(|s| s.as_str().to_owned()).collect::<Vec<_>>()}),
                Err(e) => json!({"r": "err", "e": e.to_string()}),
            })
        }
        "verify" => {
            let states: Vec<String> = req["states"].as_array().map(|a| a.iter().filter_map(|x| x.as_str().map(str::to_owned)).collect()).unwrap_or_default();
            let hstate = req["hash"].as_str().unwrap_or("match");
            let servers = ["x", "y"];
            // displayname and zzz are stripped by redaction: signatures must be made and checked over the redacted form
            let mut content = json!({"membership": "join", "displayname": "A"});
            if states.len() == 2 { content["join_authorised_via_users_server"] = json!("@b:y"); }
            let ev = json!({"type": "m.room.member", "content": content, "sender": "@a:x", "event_id": "$e:x", "room_id": "!r:x", "state_key": "@a:x",
                            "origin_server_ts": 1, "unsigned": {"age": 3}, "zzz": 7});
            let mut obj = to_object(&ev)?;
            // hashes as the scenario wants them, *before* signing (the signature covers them)
            let good = ruma_signatures::content_hash(&obj).map_err(|e| e.to_string())?.encode();
            let hashes = match hstate {
                "match" => Some(json!({"sha256": good})),
                "mismatch" => Some(json!({"sha256": base64::engine::general_purpose::STANDARD_NO_PAD.encode([7u8; 32])})),
                "not_base64" => Some(json!({"sha256": "!!! not base64 !!!"})),
                "hashes_absent" => None,
                "hashes_not_object" => Some(json!(1)),
                "sha256_absent" => Some(json!({"md5": "x"})),
                _ => Some(json!({"sha256": 1})),
            };
            if let Some(h) = hashes { obj.insert("hashes".into(), CanonicalJsonValue::try_from(h).map_err(|e| e.to_string())?); }
            let mut redacted = ruma_common::canonical_json::redact(obj.clone(), &rules.redaction, None).map_err(|e| e.to_string())?;
            let kps = [keypair("1")?, keypair("1")?];
            let other = keypair("1")?;
            for (i, _) in states.iter().enumerate() {
                ruma_signatures::sign_json(servers[i], &kps[i], &mut redacted).map_err(|e| e.to_string())?;
            }
            let mut sigs: serde_json::Map<String, Value> = match serde_json::to_value(redacted.get("signatures")).map_err(|e| e.to_string())? {
                Value::Object(m) => m, _ => serde_json::Map::new() };
            // a wrong signature: made by another key over the same text
            let mut red2 = ruma_common::canonical_json::redact(obj.clone(), &rules.redaction, None).map_err(|e| e.to_string())?;
            ruma_signatures::sign_json("w", &other, &mut red2).map_err(|e| e.to_string())?;
            let wrong = serde_json::to_value(red2.get("signatures")).map_err(|e| e.to_string())?["w"]["ed25519:1"].clone();
            let mut pkm = PublicKeyMap::new();
            for (i, st) in states.iter().enumerate() {
                let srv = servers[i];
                let goodsig = sigs.get(srv).map(|s| s["ed25519:1"].clone()).unwrap_or(Value::Null);
                let mut keyset = PublicKeySet::new();
                keyset.insert("ed25519:1".into(), ruma_common::serde::Base64::new(kps[i].public_key().to_vec()));
                match st.as_str() {
                    "valid" => {}
                    "wrong" => { sigs.insert(srv.into(), json!({"ed25519:1": wrong})); }
                    "missing_set" => { sigs.remove(srv); }
                    "set_not_object" => { sigs.insert(srv.into(), json!(1)); }
                    "no_pubkeys" => { keyset.clear(); }
                    "key_missing" => { let k = keyset.remove("ed25519:1").unwrap(); keyset.insert("ed25519:2".into(), k); }
                    "not_string" => { sigs.insert(srv.into(), json!({"ed25519:1": 1})); }
                    "not_base64" => { sigs.insert(srv.into(), json!({"ed25519:1": "!!! not base64 !!!"})); }
                    "only_unknown_alg" => { sigs.insert(srv.into(), json!({"foo:1": goodsig, "nocolon": goodsig})); }
                    _ => { sigs.insert(srv.into(), json!({"ed25519:1": goodsig, "foo:1": wrong, "nocolon": 1})); }
                }
                if !(st == "no_pubkeys") { pkm.insert(srv.into(), keyset); }
            }
            sigs.insert("zzz.other".into(), json!({"ed25519:1": wrong}));
            obj.insert("signatures".into(), CanonicalJsonValue::try_from(Value::Object(sigs)).map_err(|e| e.to_string())?);
            Ok(match ruma_signatures::verify_event(&pkm, &obj, &rules) {
                Ok(Verified::All) => json!({"r": "ok", "v": "All"}),
                Ok(Verified::Signatures) => json!({"r": "ok", "v": "Signatures"}),
                Ok(_) => json!({"r": "ok", "v": "other"}),
                Err(e) => json!({"r": "ok", "v": "Err", "e": e.to_string()}),
            })
        }
        _ => Err(format!("unknown c03 op {op}")),
    }
}


fn strip(v: &Value, keys: &[&str]) -> Value { let mut e = v.clone(); for k in keys { e.as_object_mut().unwrap().remove(*k); } e }

fn sig_ok(kp: &ruma_signatures::Ed25519KeyPair, sig_b64: &Value, text: &str) -> bool {
    use ruma_signatures::KeyPair;
    let Some(s) = sig_b64.as_str() else { return false };
    if s.ends_with('=') { return false; }
    let Ok(bytes) = base64::engine::general_purpose::STANDARD_NO_PAD.decode(s) else { return false };
    ruma_signatures::verify_canonical_json_bytes(&ruma_common::SigningKeyAlgorithm::Ed25519, &kp.public_key()[..], &bytes, text.as_bytes()).is_ok()
}

pub fn c02(op: &str, req: &Value) -> Result<Value, String> {
    use ruma_signatures::{KeyPair, PublicKeyMap, PublicKeySet};
    match op {
        "sign" => {
            let shape = req["signatures"].as_str().unwrap_or("absent");
            let mut ev = json!({"content": {"body": "hi"}, "type": "m.x", "zzz": 7});
            if req["unsigned"].as_bool().unwrap_or(false) { ev["unsigned"] = json!({"age": 3}); }
            let own = json!({"ed25519:0": "b2xkIHNpZ25hdHVyZSB4MA"});
            let oth = json!({"ed25519:1": "b2xkIHNpZ25hdHVyZSB5MQ"});
            match shape {
                "absent" => {}
                "empty" => { ev["signatures"] = json!({}); }
                "own_old" => { ev["signatures"] = json!({"x": own}); }
                "other" => { ev["signatures"] = json!({"y": oth}); }
                "own_and_other" => { ev["signatures"] = json!({"x": own, "y": oth}); }
                "own_not_object" => { ev["signatures"] = json!({"x": 1, "y": oth}); }
                _ => { ev["signatures"] = json!(1); }
            }
            let kp = keypair("1")?;
            let mut obj = to_object(&ev)?;
            let r = ruma_signatures::sign_json("x", &kp, &mut obj);
            let after: Value = serde_json::to_value(&obj).map_err(|e| e.to_string())?;
            let mut problems: Vec<String> = vec![];
            match &r {
                Err(_) => {
                    if !matches!(shape, "own_not_object" | "not_object") { problems.push("unexpected error".into()); }
                    if after != ev { problems.push(format!("a failed call changed the object: {} -> {}", ev, after)); }
                }
                Ok(()) => {
                    if matches!(shape, "own_not_object" | "not_object") { problems.push("malformed signatures accepted".into()); }
                    let text = canonical(&strip(&ev, &["signatures", "unsigned"]));
                    if !sig_ok(&kp, &after["signatures"]["x"]["ed25519:1"], &text) { problems.push("signatures.x[ed25519:1] is not a valid unpadded-base64 Ed25519 signature of the canonical JSON without signatures/unsigned".into()); }
                    if strip(&after, &["signatures"]) != strip(&ev, &["signatures"]) { problems.push("fields other than signatures changed".into()); }
                    if let Some(m) = ev.get("signatures").and_then(|s| s.as_object()) {
                        for (ent, set) in m {
                            if let Some(set) = set.as_object() { for (k, v) in set { if after["signatures"][ent][k] != *v { problems.push(format!("earlier signature {ent}/{k} lost")); } } }
                        }
                    }
                }
            }
            Ok(json!({"r": "ok", "verdict": if r.is_ok() { "Ok" } else { "Err" }, "problems": problems}))
        }
        "verify_json" => {
            let states: Vec<String> = req["states"].as_array().map(|a| a.iter().filter_map(|x| x.as_str().map(str::to_owned)).collect()).unwrap_or_default();
            let ev = json!({"content": {"body": "hi"}, "type": "m.x", "unsigned": {"age": 3}});
            let kps = [keypair("1")?, keypair("1")?];
            let other = keypair("1")?;
            let servers = ["x", "y"];
            let mut signed = to_object(&ev)?;
            for i in 0..2 { ruma_signatures::sign_json(servers[i], &kps[i], &mut signed).map_err(|e| e.to_string())?; }
            let sv: Value = serde_json::to_value(&signed).map_err(|e| e.to_string())?;
            let mut w = to_object(&ev)?;
            ruma_signatures::sign_json("w", &other, &mut w).map_err(|e| e.to_string())?;
            let wrong = serde_json::to_value(&w).map_err(|e| e.to_string())?["signatures"]["w"]["ed25519:1"].clone();
            let mut sigs = serde_json::Map::new();
            let mut pkm = PublicKeyMap::new();
            for (i, st) in states.iter().enumerate() {
                let srv = servers[i];
                let good = sv["signatures"][srv]["ed25519:1"].clone();
                let mut keyset = PublicKeySet::new();
                keyset.insert("ed25519:1".into(), ruma_common::serde::Base64::new(kps[i].public_key().to_vec()));
                match st.as_str() {
                    "valid" => { sigs.insert(srv.into(), json!({"ed25519:1": good})); }
                    "wrong" => { sigs.insert(srv.into(), json!({"ed25519:1": wrong})); }
                    "set_not_object" => { sigs.insert(srv.into(), json!(1)); }
                    "no_pubkeys" => { sigs.insert(srv.into(), json!({"ed25519:1": good})); }
                    "key_missing" => { sigs.insert(srv.into(), json!({"ed25519:1": good})); let k = keyset.remove("ed25519:1").unwrap(); keyset.insert("ed25519:2".into(), k); }
                    "not_string" => { sigs.insert(srv.into(), json!({"ed25519:1": 1})); }
                    "not_base64" => { sigs.insert(srv.into(), json!({"ed25519:1": "!!! not base64 !!!"})); }
                    "only_unknown_alg" => { sigs.insert(srv.into(), json!({"foo:1": good, "nocolon": good})); }
                    "valid_plus_unknown" => { sigs.insert(srv.into(), json!({"ed25519:1": good, "foo:1": wrong, "nocolon": 1})); }
                    _ => {}
                }
                if st != "no_pubkeys" { pkm.insert(srv.into(), keyset); }
            }
            let mut e2 = ev.clone();
            match req["signatures"].as_str().unwrap_or("object") {
                "object" => { e2["signatures"] = Value::Object(sigs); }
                "not_object" => { e2["signatures"] = json!(1); }
                _ => {}
            }
            let r = ruma_signatures::verify_json(&pkm, &to_object(&e2)?);
            Ok(json!({"r": "ok", "v": if r.is_ok() { "Ok" } else { "Err" }, "e": r.err().map(|e| e.to_string())}))
        }
        "hash_and_sign" => {
            let rules = RoomVersionId::V11.rules().ok_or("no rules")?;
            let mut ev = json!({"content": {"body": "hi", "extra": 1}, "type": "m.room.message", "sender": "@a:x", "room_id": "!r:x", "origin_server_ts": 1,
                                "zzz": 7, "unsigned": {"age": 3}});
            match req["hashes"].as_str().unwrap_or("absent") {
                "object" => { ev["hashes"] = json!({"md5": "old"}); }
                "not_object" => { ev["hashes"] = json!(1); }
                _ => {}
            }
            let kp = keypair("1")?;
            let mut obj = to_object(&ev)?;
            let r = ruma_signatures::hash_and_sign_event("x", &kp, &mut obj, &rules.redaction);
            let after: Value = serde_json::to_value(&obj).map_err(|e| e.to_string())?;
            let mut problems: Vec<String> = vec![];
            if req["hashes"] == "not_object" {
                if r.is_ok() { problems.push("non-object hashes accepted".into()); }
            } else if r.is_err() {
                problems.push(format!("unexpected error {:?}", r.as_ref().err().map(|e| e.to_string())));
            } else {
                let text = canonical(&strip(&ev, &["hashes", "signatures", "unsigned"]));
                let want = base64::engine::general_purpose::STANDARD_NO_PAD.encode(Sha256::digest(text.as_bytes()));
                if after["hashes"]["sha256"] != json!(want) { problems.push("hashes.sha256 is not the unpadded base64 SHA-256 of the canonical JSON without hashes/signatures/unsigned".into()); }
                // redacted m.room.message (v11): content emptied, zzz / unsigned dropped
                let red = json!({"content": {}, "hashes": after["hashes"].clone(), "type": "m.room.message", "sender": "@a:x", "room_id": "!r:x", "origin_server_ts": 1});
                if !sig_ok(&kp, &after["signatures"]["x"]["ed25519:1"], &canonical(&red)) { problems.push("the signature is not over the canonical JSON of the redacted event".into()); }
                let mut pkm = PublicKeyMap::new();
                let mut ks = PublicKeySet::new();
                ks.insert("ed25519:1".into(), ruma_common::serde::Base64::new(kp.public_key().to_vec()));
                pkm.insert("x".into(), ks);
                match ruma_signatures::verify_event(&pkm, &obj, &rules) {
                    Ok(ruma_signatures::Verified::All) => {}
                    other => problems.push(format!("verify_event on the result: {:?}", other.map(|_| "Signatures").map_err(|e| e.to_string()))),
                }
            }
            Ok(json!({"r": "ok", "problems": problems}))
        }
        _ => Err(format!("unknown c02 op {op}")),
    }
}
