//! Native replayer: executes named entry points of the real ruma crates (path deps on /repo) on concrete
//! inputs under catch_unwind and prints one JSON outcome per request line.  Used (a) to confirm every solver
//! counterexample before it is reported, (b) to validate the library models (interpreter vs native).
use std::io::{BufRead, Write};
use std::panic::{catch_unwind, AssertUnwindSafe};

use serde_json::{json, Value};

mod ops;
#[cfg(feature = "signatures")]
mod ops_signatures;
#[cfg(feature = "common")]
mod ops_common;
#[cfg(feature = "stateres")]
mod ops_stateres;
#[cfg(feature = "events")]
mod ops_events;

pub fn hex(s: &str) -> Vec<u8> {
    (0..s.len() / 2).map(|i| u8::from_str_radix(&s[2 * i..2 * i + 2], 16).unwrap()).collect()
}

pub fn arg_str(v: &Value, k: &str) -> Result<String, String> {
    if let Some(h) = v.get(&format!("{k}_hex")).and_then(|x| x.as_str()) {
        return String::from_utf8(hex(h)).map_err(|_| "input is not UTF-8".to_owned());
    }
    v.get(k).and_then(|x| x.as_str()).map(|s| s.to_owned()).ok_or_else(|| format!("missing arg {k}"))
}

pub fn arg_bytes(v: &Value, k: &str) -> Result<Vec<u8>, String> {
    if let Some(h) = v.get(&format!("{k}_hex")).and_then(|x| x.as_str()) {
        return Ok(hex(h));
    }
    v.get(k).and_then(|x| x.as_str()).map(|s| s.as_bytes().to_vec()).ok_or_else(|| format!("missing arg {k}"))
}

fn main() {
    std::panic::set_hook(Box::new(|_| {}));
    let stdin = std::io::stdin();
    let stdout = std::io::stdout();
    for line in stdin.lock().lines() {
        let line = match line { Ok(l) => l, Err(_) => break };
        if line.trim().is_empty() { continue; }
        let req: Value = match serde_json::from_str(&line) {
            Ok(v) => v,
            Err(e) => { println!("{}", json!({"r": "badreq", "e": e.to_string()})); continue; }
        };
        let op = req.get("op").and_then(|x| x.as_str()).unwrap_or("").to_owned();
        let res = catch_unwind(AssertUnwindSafe(|| ops::dispatch(&op, &req)));
        let out = match res {
            Ok(Ok(v)) => v,
            Ok(Err(e)) => json!({"r": "badreq", "e": e}),
            Err(p) => {
                let msg = p.downcast_ref::<String>().cloned()
                    .or_else(|| p.downcast_ref::<&str>().map(|s| s.to_string()))
                    .unwrap_or_else(|| "panic".to_owned());
                json!({"r": "panic", "msg": msg})
            }
        };
        let mut o = stdout.lock();
        writeln!(o, "{}", out).unwrap();
        o.flush().unwrap();
    }
}
