"""Library models = the trusted base.  Each model mirrors the documented behaviour of a std / third-party
function at the MIR call site.  A model is `fn(E, st, callee, args, match) -> [(cond, value[, effect])] | None`;
`None` means "not applicable, try the next model".  Every model that fires is recorded in Engine.used_models and
listed in the evidence."""
import re


def register_all(E):
    from . import tracing_models, uri_models, jsint_models, core_models, str_models, coll_models, fmt_models
    for mod in (tracing_models, uri_models, jsint_models, core_models, str_models, coll_models, fmt_models):
        mod.register(E)


def model_decorator(table):
    def model(pattern):
        def deco(fn):
            table.append((re.compile(pattern), fn))
            return fn
        return deco
    return model
