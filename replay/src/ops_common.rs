//! entry points of ruma-common
use ruma_common::{
    canonical_json::{redact, redact_content_in_place, redact_in_place, CanonicalJsonObject, CanonicalJsonValue},
    RoomVersionId,
};
use serde_json::{json, Value};

fn version(req: &Value) -> Result<RoomVersionId, String> {
    let v = req.get("version").and_then(|x| x.as_str()).ok_or("missing version")?;
    RoomVersionId::try_from(v).map_err(|e| e.to_string())
}

fn obj(req: &Value, k: &str) -> Result<CanonicalJsonObject, String> {
    let v = req.get(k).ok_or_else(|| format!("missing {k}"))?.clone();
    match CanonicalJsonValue::try_from(v).map_err(|e| e.to_string())? {
        CanonicalJsonValue::Object(o) => Ok(o),
        _ => Err(format!("{k} is not an object")),
    }
}

pub fn c04(kind: &str, req: &Value) -> Result<Value, String> {
    let ver = version(req)?;
    let rules = ver.rules().ok_or("unknown room version")?;
    match kind {
        // redact through the three entry points; report each result
        "redact" => {
            let ev = obj(req, "event")?;
            let copying = redact(ev.clone(), &rules.redaction, None);
            let mut inplace = ev.clone();
            let r2 = redact_in_place(&mut inplace, &rules.redaction, None);
            let out = match (&copying, &r2) {
                (Ok(a), Ok(())) => json!({"r": "ok", "v": serde_json::to_value(a).unwrap(), "inplace": serde_json::to_value(&inplace).unwrap()}),
                (Err(e), Err(_)) => json!({"r": "err", "e": e.to_string()}),
                _ => json!({"r": "disagree", "copying_ok": copying.is_ok(), "inplace_ok": r2.is_ok()}),
            };
            Ok(out)
        }
        "content" => {
            let mut content = obj(req, "content")?;
            let ty = req.get("type").and_then(|x| x.as_str()).ok_or("missing type")?;
            match redact_content_in_place(&mut content, &rules.redaction, ty) {
                Ok(()) => Ok(json!({"r": "ok", "v": serde_json::to_value(&content).unwrap()})),
                Err(e) => Ok(json!({"r": "err", "e": e.to_string()})),
            }
        }
        "rules" => {
            let r = &rules.redaction;
            Ok(json!({"r": "ok", "v": {
                "keep_room_aliases_aliases": r.keep_room_aliases_aliases,
                "keep_room_join_rules_allow": r.keep_room_join_rules_allow,
                "keep_room_member_join_authorised_via_users_server": r.keep_room_member_join_authorised_via_users_server,
                "keep_origin_membership_prev_state": r.keep_origin_membership_prev_state,
                "keep_room_create_content": r.keep_room_create_content,
                "keep_room_redaction_redacts": r.keep_room_redaction_redacts,
                "keep_room_power_levels_invite": r.keep_room_power_levels_invite,
                "keep_room_member_third_party_invite_signed": r.keep_room_member_third_party_invite_signed,
            }}))
        }
        _ => Err(format!("unknown c04 op {kind}")),
    }
}


/// parse an identifier through the public API and call its component accessors
pub fn c10acc(req: &Value) -> Result<Value, String> {
    use ruma_common::{EventId, RoomAliasId, ServerName, UserId};
    let s = crate::arg_str(req, "s")?;
    let ty = req.get("type").and_then(|x| x.as_str()).unwrap_or("");
    Ok(match ty {
        "ServerName" => match <&ServerName>::try_from(s.as_str()) {
            Err(e) => json!({"r": "err", "e": format!("{e:?}")}),
            Ok(n) => {
                let host = n.host();
                let port = n.port();
                let ip = n.is_ip_literal();
                let rest = &s[host.len().min(s.len())..];
                let recomposed = match port { Some(_) => format!("{host}{rest}"), None => host.to_owned() };
                let port_text_ok = match port { Some(p) => rest.strip_prefix(':').and_then(|t| t.parse::<u16>().ok()) == Some(p), None => rest.is_empty() };
                json!({"r": "ok", "host": host, "port": port, "is_ip_literal": ip, "stored": n.as_str(),
                       "recomposed": if port_text_ok { recomposed } else { format!("{host}<port mismatch:{port:?}>") }})
            }
        },
        "UserId" => match <&UserId>::try_from(s.as_str()) {
            Err(e) => json!({"r": "err", "e": format!("{e:?}")}),
            Ok(u) => json!({"r": "ok", "localpart": u.localpart(), "server_name": u.server_name().as_str(), "stored": u.as_str(),
                            "recomposed": format!("@{}:{}", u.localpart(), u.server_name())}),
        },
        "RoomAliasId" => match <&RoomAliasId>::try_from(s.as_str()) {
            Err(e) => json!({"r": "err", "e": format!("{e:?}")}),
            Ok(u) => json!({"r": "ok", "alias": u.alias(), "server_name": u.server_name().as_str(), "stored": u.as_str(),
                            "recomposed": format!("#{}:{}", u.alias(), u.server_name())}),
        },
        "EventId" => match <&EventId>::try_from(s.as_str()) {
            Err(e) => json!({"r": "err", "e": format!("{e:?}")}),
            Ok(u) => json!({"r": "ok", "localpart": u.localpart(), "server_name": u.server_name().map(|x| x.as_str().to_owned()), "stored": u.as_str(),
                            "recomposed": match u.server_name() { Some(sn) => format!("${}:{}", u.localpart(), sn), None => format!("${}", u.localpart()) }}),
        },
        _ => return Err(format!("unknown identifier type {ty}")),
    })
}


/// push ruleset edits through the public API
pub fn c13(kind_op: &str, req: &Value) -> Result<Value, String> {
    use ruma_common::push::{
        Action, ConditionalPushRuleInit, NewConditionalPushRule, NewPatternedPushRule, NewPushRule, NewSimplePushRule,
        PatternedPushRuleInit, RuleKind, Ruleset, SimplePushRuleInit,
    };
    use ruma_common::{OwnedRoomId, OwnedUserId};
    let kind = req.get("kind").and_then(|x| x.as_str()).unwrap_or("");
    let pre = req.get("pre").and_then(|x| x.as_array()).cloned().unwrap_or_default();
    let mut rs = Ruleset::new();
    for r in &pre {
        let id = r["id"].as_str().unwrap_or("").to_owned();
        let enabled = r["enabled"].as_bool().unwrap_or(true);
        let default = r["default"].as_bool().unwrap_or(false);
        match kind {
            "override" => { rs.override_.insert(ConditionalPushRuleInit { actions: vec![Action::Notify], default, enabled, rule_id: id, conditions: vec![] }.into()); }
            "underride" => { rs.underride.insert(ConditionalPushRuleInit { actions: vec![Action::Notify], default, enabled, rule_id: id, conditions: vec![] }.into()); }
            "content" => { rs.content.insert(PatternedPushRuleInit { actions: vec![Action::Notify], default, enabled, rule_id: id, pattern: "old".into() }.into()); }
            // room / sender rule ids are typed identifiers: the (alphanumeric) model ids are embedded into valid ids
            "room" => { rs.room.insert(SimplePushRuleInit { actions: vec![Action::Notify], default, enabled, rule_id: OwnedRoomId::try_from(format!("!{id}:x")).map_err(|e| e.to_string())? }.into()); }
            "sender" => { rs.sender.insert(SimplePushRuleInit { actions: vec![Action::Notify], default, enabled, rule_id: OwnedUserId::try_from(format!("@{id}:x")).map_err(|e| e.to_string())? }.into()); }
            _ => return Ok(json!({"r": "unsupported-kind"})),
        }
    }
    let snapshot = |rs: &Ruleset| serde_json::to_value(rs).unwrap();
    let before_json = snapshot(&rs);
    let ids = |rs: &Ruleset| -> Vec<String> {
        match kind {
            "override" => rs.override_.iter().map(|r| r.rule_id.clone()).collect(),
            "underride" => rs.underride.iter().map(|r| r.rule_id.clone()).collect(),
            "room" => rs.room.iter().map(|r| unembed(r.rule_id.as_str())).collect(),
            "sender" => rs.sender.iter().map(|r| unembed(r.rule_id.as_str())).collect(),
            _ => rs.content.iter().map(|r| r.rule_id.clone()).collect(),
        }
    };
    let enabled = |rs: &Ruleset| -> serde_json::Map<String, Value> {
        let mut m = serde_json::Map::new();
        match kind {
            "override" => for r in rs.override_.iter() { m.insert(r.rule_id.clone(), json!(r.enabled)); },
            "underride" => for r in rs.underride.iter() { m.insert(r.rule_id.clone(), json!(r.enabled)); },
            "room" => for r in rs.room.iter() { m.insert(unembed(r.rule_id.as_str()), json!(r.enabled)); },
            "sender" => for r in rs.sender.iter() { m.insert(unembed(r.rule_id.as_str()), json!(r.enabled)); },
            _ => for r in rs.content.iter() { m.insert(r.rule_id.clone(), json!(r.enabled)); },
        }
        m
    };
    let rk = match kind { "override" => RuleKind::Override, "underride" => RuleKind::Underride, "room" => RuleKind::Room, "sender" => RuleKind::Sender, _ => RuleKind::Content };
    // anchors / targets of room and sender rules are compared with the full id string
    let embed = |a: &str| -> String {
        if a.starts_with('.') { a.to_owned() } else { match kind { "room" => format!("!{a}:x"), "sender" => format!("@{a}:x"), _ => a.to_owned() } }
    };
    match kind_op {
        "insert" => {
            let new_id = req["new_id"].as_str().unwrap_or("").to_owned();
            let after_s = req.get("after").and_then(|x| x.as_str()).map(|a| embed(a));
            let before_s = req.get("before").and_then(|x| x.as_str()).map(|a| embed(a));
            let (after, before) = (after_s.as_deref(), before_s.as_deref());
            let rule = match kind {
                "room" => NewPushRule::Room(NewSimplePushRule::new(OwnedRoomId::try_from(format!("!{new_id}:x")).map_err(|e| e.to_string())?, vec![])),
                "sender" => NewPushRule::Sender(NewSimplePushRule::new(OwnedUserId::try_from(format!("@{new_id}:x")).map_err(|e| e.to_string())?, vec![])),
                "override" => NewPushRule::Override(NewConditionalPushRule::new(new_id, vec![], vec![])),
                "underride" => NewPushRule::Underride(NewConditionalPushRule::new(new_id, vec![], vec![])),
                _ => NewPushRule::Content(NewPatternedPushRule::new(new_id, "new".into(), vec![])),
            };
            match rs.insert(rule, after, before) {
                Ok(()) => Ok(json!({"r": "ok", "ids": ids(&rs), "enabled": enabled(&rs)})),
                Err(e) => Ok(json!({"r": "err", "e": format!("{e:?}"), "unchanged": snapshot(&rs) == before_json, "ids": ids(&rs)})),
            }
        }
        "remove" => match rs.remove(rk, embed(req["target"].as_str().unwrap_or(""))) {
            Ok(()) => Ok(json!({"r": "ok", "ids": ids(&rs)})),
            Err(e) => Ok(json!({"r": "err", "e": format!("{e:?}"), "unchanged": snapshot(&rs) == before_json})),
        },
        "set_enabled" => match rs.set_enabled(rk, embed(req["target"].as_str().unwrap_or("")), req["flag"].as_bool().unwrap_or(false)) {
            Ok(()) => Ok(json!({"r": "ok", "ids": ids(&rs), "enabled": enabled(&rs)})),
            Err(e) => Ok(json!({"r": "err", "e": format!("{e:?}"), "unchanged": snapshot(&rs) == before_json})),
        },
        "set_actions" => match rs.set_actions(rk, embed(req["target"].as_str().unwrap_or("")), vec![Action::Notify, Action::Notify]) {
            Ok(()) => {
                let after_json = snapshot(&rs);
                let mut changed = vec![];
                let field = match kind { "override" => "override", "underride" => "underride", "room" => "room", "sender" => "sender", _ => "content" };
                if let (Some(a), Some(b)) = (before_json[field].as_array(), after_json[field].as_array()) {
                    for (x, y) in a.iter().zip(b.iter()) {
                        if x["actions"] != y["actions"] { changed.push(unembed(y["rule_id"].as_str().unwrap_or(""))); }
                    }
                }
                Ok(json!({"r": "ok", "ids": ids(&rs), "changed_actions": changed}))
            }
            Err(e) => Ok(json!({"r": "err", "e": format!("{e:?}"), "unchanged": snapshot(&rs) == before_json})),
        },
        _ => Err(format!("unknown c13 op {kind_op}")),
    }
}


fn unembed(id: &str) -> String {
    if (id.starts_with('!') || id.starts_with('@')) && id.ends_with(":x") { id[1..id.len() - 2].to_owned() } else { id.to_owned() }
}


/// endpoint path selection through Metadata::make_endpoint_url on a history built with VersionHistory::new
pub fn c16(req: &Value) -> Result<Value, String> {
    use ruma_common::api::{AuthScheme, MatrixVersion, Metadata, VersionHistory};
    const ALL: [MatrixVersion; 15] = [
        MatrixVersion::V1_0, MatrixVersion::V1_1, MatrixVersion::V1_2, MatrixVersion::V1_3, MatrixVersion::V1_4,
        MatrixVersion::V1_5, MatrixVersion::V1_6, MatrixVersion::V1_7, MatrixVersion::V1_8, MatrixVersion::V1_9,
        MatrixVersion::V1_10, MatrixVersion::V1_11, MatrixVersion::V1_12, MatrixVersion::V1_13, MatrixVersion::V1_14,
    ];
    static UNSTABLE: [&str; 2] = ["/u/a", "/u/b"];
    static SPATHS: [&str; 3] = ["/s/a", "/s/b", "/s/c"];
    let ver = |v: &Value| -> Result<MatrixVersion, String> { ALL.get(v.as_u64().ok_or("bad version")? as usize).copied().ok_or_else(|| "unknown version index".to_owned()) };
    let nu = req["unstable"].as_u64().unwrap_or(0) as usize;
    let stable: Vec<(MatrixVersion, &'static str)> = req["stable"].as_array().cloned().unwrap_or_default().iter().enumerate()
        .map(|(i, v)| Ok((ver(v)?, SPATHS[i]))).collect::<Result<_, String>>()?;
    let stable: &'static [(MatrixVersion, &'static str)] = Box::leak(stable.into_boxed_slice());
    let dep = if req["deprecated"].is_null() { None } else { Some(ver(&req["deprecated"])?) };
    let rem = if req["removed"].is_null() { None } else { Some(ver(&req["removed"])?) };
    let versions: Vec<MatrixVersion> = req["versions"].as_array().cloned().unwrap_or_default().iter().map(|v| ver(v)).collect::<Result<_, _>>()?;
    let history = VersionHistory::new(&UNSTABLE[..nu], stable, dep, rem);
    let decision = format!("{:?}", history.versioning_decision_for(&versions));
    let stable_ep = history.stable_endpoint_for(&versions);
    let md = Metadata { method: http::Method::GET, rate_limited: false, authentication: AuthScheme::None, history };
    match md.make_endpoint_url(&versions, "http://h", &[], "") {
        Ok(url) => Ok(json!({"r": "ok", "path": url.strip_prefix("http://h").unwrap_or(&url), "decision": decision, "stable_endpoint": stable_ep})),
        Err(e) => {
            let d = format!("{e:?}");
            let name = d.split('(').next().unwrap_or("").to_owned();
            Ok(json!({"r": "err", "e": name, "decision": decision, "stable_endpoint": stable_ep}))
        }
    }
}


/// Matrix URI text conversions (crate-private functions reached through the cfg(ruma_verif) hooks)
pub fn c11(kind: &str, req: &Value) -> Result<Value, String> {
    use ruma_common::{matrix_uri::MatrixId, EventId, MatrixToUri, OwnedEventId, OwnedRoomAliasId, OwnedRoomId, OwnedRoomOrAliasId, OwnedUserId, RoomAliasId, RoomId, RoomOrAliasId, UserId};
    let show = |r: Result<MatrixId, ruma_common::IdParseError>| match r {
        Ok(v) => json!({"r": "ok", "v": format!("{v:?}")}),
        Err(e) => json!({"r": "err", "e": format!("{e:?}")}),
    };
    match kind {
        "parse_sigil" => Ok(show(MatrixId::verif_parse_with_sigil(&crate::arg_str(req, "s")?))),
        "parse_type" => Ok(show(MatrixId::verif_parse_with_type(&crate::arg_str(req, "s")?))),
        "parse_matrixto" => {
            let s = format!("https://matrix.to/#/{}", crate::arg_str(req, "s")?);
            Ok(match MatrixToUri::parse(&s) {
                Ok(v) => json!({"r": "ok", "v": format!("{v:?}")}),
                Err(e) => json!({"r": "err", "e": format!("{e:?}")}),
            })
        }
        "roundtrip" => {
            let ids: Vec<String> = req["ids_hex"].as_array().cloned().unwrap_or_default().iter()
                .map(|h| String::from_utf8(crate::hex(h.as_str().unwrap_or(""))).map_err(|_| "id not utf-8".to_owned())).collect::<Result<_, _>>()?;
            let variant = req["variant"].as_str().unwrap_or("");
            let style = req["style"].as_str().unwrap_or("");
            let e = |x: ruma_common::IdParseError| format!("{x:?}");
            let v: MatrixId = match variant {
                "Room" => <&RoomId>::try_from(ids[0].as_str()).map_err(e)?.into(),
                "RoomAlias" => <&RoomAliasId>::try_from(ids[0].as_str()).map_err(e)?.into(),
                "User" => <&UserId>::try_from(ids[0].as_str()).map_err(e)?.into(),
                _ => {
                    let room = <&RoomOrAliasId>::try_from(ids[0].as_str()).map_err(e)?;
                    let ev = <&EventId>::try_from(ids[1].as_str()).map_err(e)?;
                    (room, ev).into()
                }
            };
            let _unused: Option<(OwnedEventId, OwnedRoomAliasId, OwnedRoomId, OwnedRoomOrAliasId, OwnedUserId)> = None;
            let text = if style == "sigil" { v.verif_to_string_with_sigil() } else { v.verif_to_string_with_type() };
            let back = if style == "sigil" { MatrixId::verif_parse_with_sigil(&text) } else { MatrixId::verif_parse_with_type(&text) };
            Ok(match back {
                Ok(b) => json!({"r": "ok", "same": b == v, "text": text, "back": format!("{b:?}")}),
                Err(x) => json!({"r": "err", "e": format!("{x:?}"), "text": text}),
            })
        }
        _ => Err(format!("unknown c11 op {kind}")),
    }
}


/// C12: evaluate a ruleset / a single condition through the public push API
pub fn c12(op: &str, req: &Value) -> Result<Value, String> {
    use js_int::{Int, UInt};
    use ruma_common::power_levels::NotificationPowerLevels;
    use ruma_common::push::{AnyPushRuleRef, FlattenedJson, PushCondition, PushConditionPowerLevelsCtx, PushConditionRoomCtx, Ruleset};
    use ruma_common::serde::Raw;
    use ruma_common::{OwnedRoomId, OwnedUserId};
    let c = &req["ctx"];
    let power_levels = match c.get("power_levels") {
        Some(p) if !p.is_null() => {
            let mut users = std::collections::BTreeMap::new();
            if let Some(m) = p["users"].as_object() {
                for (k, v) in m {
                    users.insert(OwnedUserId::try_from(k.as_str()).map_err(|e| e.to_string())?, Int::try_from(v.as_i64().unwrap_or(0)).map_err(|e| e.to_string())?);
                }
            }
            let mut n = NotificationPowerLevels::new();
            n.room = Int::try_from(p["room"].as_i64().unwrap_or(50)).map_err(|e| e.to_string())?;
            Some(PushConditionPowerLevelsCtx { users, users_default: Int::try_from(p["users_default"].as_i64().unwrap_or(0)).map_err(|e| e.to_string())?, notifications: n })
        }
        _ => None,
    };
    let ctx = PushConditionRoomCtx {
        room_id: OwnedRoomId::try_from(c["room_id"].as_str().unwrap_or("!r:x")).map_err(|e| e.to_string())?,
        member_count: UInt::try_from(c["member_count"].as_u64().unwrap_or(2)).map_err(|e| e.to_string())?,
        user_id: OwnedUserId::try_from(c["user_id"].as_str().unwrap_or("@me:x")).map_err(|e| e.to_string())?,
        user_display_name: c["display_name"].as_str().unwrap_or("me").to_owned(),
        power_levels,
    };
    let raw: Raw<Value> = serde_json::from_value(req["event"].clone()).map_err(|e| e.to_string())?;
    match op {
        "eval" => {
            let rs: Ruleset = serde_json::from_value(req["ruleset"].clone()).map_err(|e| format!("ruleset: {e}"))?;
            let m = rs.get_match(&raw, &ctx);
            let v = match m {
                None => Value::Null,
                Some(AnyPushRuleRef::Override(r)) => json!(["override", r.rule_id]),
                Some(AnyPushRuleRef::Underride(r)) => json!(["underride", r.rule_id]),
                Some(AnyPushRuleRef::Content(r)) => json!(["content", r.rule_id]),
                Some(AnyPushRuleRef::Room(r)) => json!(["room", r.rule_id.as_str()]),
                Some(AnyPushRuleRef::Sender(r)) => json!(["sender", r.rule_id.as_str()]),
                Some(_) => json!(["other", ""]),
            };
            Ok(json!({"r": "ok", "v": v}))
        }
        "condition" => {
            let cond: PushCondition = serde_json::from_value(req["condition"].clone()).map_err(|e| format!("condition: {e}"))?;
            let ev = FlattenedJson::from_raw(&raw);
            Ok(json!({"r": "ok", "v": cond.applies(&ev, &ctx)}))
        }
        _ => Err(format!("unknown c12 op {op}")),
    }
}
