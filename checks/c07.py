#!/usr/bin/env python3-vt
"""C07 (ordering kernels) and C06 (their independence of hash iteration order): lexicographical_topological_sort, mainline_sort
(and, for C06, separate, get_auth_chain_diff, the creator cache of get_power_level_for_sender - see the run_* docstrings).

The exposed topological sort is executed from the MIR of ruma-state-res on every DAG over up to K nodes (every edge set
consistent with some topological labelling, every assignment of the identifiers to the nodes), with symbolic power level
and timestamp per node, and - the HashMap / HashSet iteration orders being unspecified - with *every* iteration order of
every hash container it walks (one symbolic order index per iteration).  z3 decides, per path, that the emitted sequence
  * contains every node exactly once, dependencies first,
  * and at every step emits, among the nodes whose dependencies are all emitted, the one with the greatest power level,
    then the earliest timestamp, then the smallest event id.
Because the answer is a function of the graph and the keys only, it does not depend on the iteration orders (C06, for this
kernel).  BinaryHeap is a library model (pop = maximum by the element's Ord, which is the crate's TieBreaker::cmp).
Outside the claim: resolve() as a whole (the composition of the kernels, iterative auth checks, reverse_topological_power_sort's
graph construction)."""
import os, sys, re, itertools
sys.path.insert(0, os.path.dirname(os.path.abspath(__file__)))
from common import *
from authsym import mk_int, INT_MAX

KEYS = ['idval', 'common', 'stateres']
PID = os.environ.get('VERIF_PID', 'C07')
os.environ.setdefault('VERIF_MAIN_MODULE', 'c07')


def dags(n):
    """edge sets over nodes 0..n-1 with edges i -> j (i depends on j) only for j < i: every DAG up to relabelling"""
    pairs = [(i, j) for i in range(n) for j in range(i)]
    for r in range(len(pairs) + 1):
        for es in itertools.combinations(pairs, r):
            yield es


def run_sort(C, job):
    n, shapes = job
    E = C.fresh_engine(KEYS, N=8)
    E.feas_mode = 'budget'; E.feas_timeout_ms = 500
    E.hash_any_order = True
    E.loop_bound = 64
    ident = lambda E_, st, c, a, m: [(TRUE, a[0])]
    E.overrides.insert(0, (re.compile(r'^<Id as std::borrow::Borrow>::borrow$'), ident))
    E.overrides.insert(0, (re.compile(r'^<Id as std::clone::Clone>::clone$'), lambda E_, st, c, a, m: [(TRUE, E_.deref(st, a[0]))]))

    def id_cmp(E_, st, c, a, m):
        x, y = E_.as_str(st, a[0]).conc(), E_.as_str(st, a[1]).conc()
        return [(TRUE, Adt('std::cmp::Ordering', 'Less' if x < y else ('Greater' if x > y else 'Equal'), []))]
    E.overrides.insert(0, (re.compile(r'^<&?Id as std::cmp::Ord>::cmp$'), id_cmp))
    def fn_call(E_, st, callee, a, m):
        tgt = E_.deref(st, a[0])
        if isinstance(tgt, Obj) and tgt.kind == 'PyFn':
            args = a[1].fields if isinstance(a[1], Tup) else [a[1]]
            return tgt.data(E_, st, list(args))
        return None
    E.overrides.insert(0, (re.compile(r'^<.+ as (?:std|core)::ops::(?:Fn|FnMut|FnOnce)>::call(?:_mut|_once)?$'), fn_call))
    f = E.find_func('lexicographical_topological_sort')
    names = [b'$a', b'$b', b'$c', b'$d'][:n]
    pl = [z3.BitVec(f'pl{i}', 64) for i in range(n)]
    ts = [z3.BitVec(f'ts{i}', 64) for i in range(n)]
    cons = []
    for i in range(n):
        cons += [pl[i] >= -INT_MAX, pl[i] <= INT_MAX, z3.ULE(ts[i], INT_MAX)]
    npaths = nq = 0
    for edges, perm in shapes:
        ids = [E.const_str(names[perm[i]]) for i in range(n)]      # node i carries identifier names[perm[i]]
        label = f'n={n} edges={list(edges)} ids={[names[perm[i]].decode() for i in range(n)]}'

        def key_fn(E_, st, args, ids=ids):
            s = E_.as_str(st, args[0]).conc()
            i = [k for k in range(n) if ids[k].conc() == s][0]
            st.note(('key', i))
            return [(TRUE, ok(Tup([mk_int(pl[i]), Adt('ruma_common::time::MilliSecondsSinceUnixEpoch', None, [Adt('js_int::UInt', None, [I(ts[i], 64)])])])))]
        graph = E.mk_map('HashMap', [(ids[i], Obj('HSet', tuple(ids[j] for (a, j) in edges if a == i))) for i in range(n)])
        st = E.new_state()
        del E.axioms[:]
        outs = E.run_func(f, [E.root_ref(st, graph), Obj('PyFn', key_fn)], cons, st=st)
        C.absorb(E)
        npaths += len(outs)
        deps = {i: {j for (a, j) in edges if a == i} for i in range(n)}

        def less(x, y):     # x is emitted before y among ready nodes
            nx, ny = names[perm[x]], names[perm[y]]
            return z3.Or(pl[x] > pl[y], z3.And(pl[x] == pl[y], z3.Or(z3.ULT(ts[x], ts[y]), z3.And(ts[x] == ts[y], z3.BoolVal(nx < ny)))))
        bad = []
        for o in outs:
            if o.kind != 'ret' or o.value.variant != 'Ok':
                bad.append(o.cond()); continue
            seq = [E.as_str(o.st, x).conc() for x in E.deref(o.st, o.value.fields[0]).data]
            idx = [[k for k in range(n) if names[perm[k]] == s_][0] for s_ in seq]
            if sorted(idx) != list(range(n)):
                bad.append(o.cond()); continue
            okc, done, structural = [], set(), True
            for k, x in enumerate(idx):
                if not deps[x] <= done:
                    structural = False; break
                ready = [y for y in range(n) if y not in done and y != x and deps[y] <= done]
                okc += [less(x, y) for y in ready]
                done.add(x)
            bad.append(o.cond() if not structural else z3.And(o.cond(), z3.Not(z3.And(*okc)) if okc else z3.BoolVal(False)))
        r, m = C.solve_split(f'topological sort, {label}: every node once, dependencies first, ready node with greatest power level / earliest ts / smallest id; all hash iteration orders',
                             cons + list(E.axioms), bad, chunk=32)
        nq += 1
        if r == 'sat':
            ev = lambda t: m.eval(t, model_completion=True).as_long()
            sg = lambda x: x - (1 << 64) if x >= (1 << 63) else x
            vec = {'op': 'c07:toposort', 'nodes': [{'id': names[perm[i]].decode() + ':x', 'pl': sg(ev(pl[i])), 'ts': ev(ts[i]), 'deps': [names[perm[j]].decode() + ':x' for j in deps[i]]} for i in range(n)]}
            res = C.native(vec); vec['native'] = res
            want = expected_order(vec['nodes'])
            vec['spec'] = want
            if res.get('r') == 'ok' and res.get('order') != want:
                C.report_violation(f'lexicographical_topological_sort emits {res.get("order")}, the specified order is {want}: {vec["nodes"]}', vec)
                C.samples.append({'counterexample': vec})
                return
            raise Broken(f'{label}: model does not reproduce natively: {vec}')
    C.bounds[f'toposort:n={n}:{shapes[0][0]}..'] = {'shapes': len(shapes), 'paths': npaths}
    # model validation: one concrete instance through the native build (run repeatedly there: fresh hasher seeds)
    edges, perm = shapes[-1]
    nodes = [{'id': names[perm[i]].decode() + ':x', 'pl': (i * 7) % 3, 'ts': (i * 5) % 2, 'deps': [names[perm[j]].decode() + ':x' for (a, j) in edges if a == i]} for i in range(n)]
    res = C.native({'op': 'c07:toposort', 'nodes': nodes, 'repeat': 16})
    C.model_validation += 1
    if res.get('r') != 'ok' or res.get('order') != expected_order(nodes) or not res.get('stable', True):
        raise Broken(f'toposort validation instance disagrees natively: {res} vs {expected_order(nodes)}')
    C.samples.append({'toposort': f'n={n}', 'shapes': len(shapes), 'example_order': res.get('order')})


def run_auth_diff(C, job):
    """get_auth_chain_diff: the ids that are not in every auth chain, as a set, for every iteration order of the HashSets and of
    the counting HashMap (C06)"""
    nsets = job
    E = C.fresh_engine(KEYS, N=8)
    E.feas_mode = 'never'
    E.hash_any_order = True
    E.overrides.insert(0, (re.compile(r'^<Id as std::clone::Clone>::clone$'), lambda E_, st, c, a, m: [(TRUE, E_.deref(st, a[0]))]))
    f = E.find_func('get_auth_chain_diff')
    ids = [E.const_str(b'$a'), E.const_str(b'$b'), E.const_str(b'$c')]
    universe = [0, 1, 2] if nsets <= 2 else [0, 1]
    subsets = [c for r in range(len(universe) + 1) for c in itertools.combinations(universe, r)]
    npaths = 0
    for combo in itertools.product(subsets, repeat=nsets):
        label = f'auth-chain difference of {[sorted(ids[i].conc().decode() for i in s_) for s_ in combo]}'
        del E.axioms[:]
        st = E.new_state()
        arg = Obj('Vec', tuple(Obj('HSet', tuple(ids[i] for i in s_)) for s_ in combo))
        outs = E.run_func(f, [arg], [], st=st)
        C.absorb(E)
        want = sorted(ids[i].conc() for i in universe if 0 < sum(i in s_ for s_ in combo) < nsets)
        bad = None
        for o in outs:
            if o.kind != 'ret':
                bad = f'panics: {o.value}'; break
            it = E.deref(o.st, o.value)
            if not (isinstance(it, Obj) and it.kind == 'FilterMapIter'):
                raise Inconclusive(f'{label}: unexpected result {it!r}')
            got = []
            for item in it.data[0]:
                rs = E.call_value(o.st, it.data[1], [item])
                if len(rs) != 1 or rs[0][1].kind != 'ret':
                    raise Inconclusive(f'{label}: closure forks on concrete data')
                v = rs[0][1].value
                if v.variant == 'Some':
                    got.append(E.as_str(rs[0][1].st, v.fields[0]).conc())
            npaths += 1
            if sorted(got) != want:
                bad = f'yields {sorted(x.decode() for x in got)}, the ids missing from at least one chain are {[x.decode() for x in want]}'; break
        C.queries.append({'name': label + f': ids not in every chain, all {len(outs)} hash iteration orders', 'result': 'sat' if bad else 'unsat', 's': 0})
        if bad:
            vec = {'op': 'c06:auth_diff', 'sets': [[ids[i].conc().decode() + ':x' for i in s_] for s_ in combo]}
            res = C.native(vec); vec['native'] = res
            wantn = sorted(x.decode() + ':x' for x in want)
            if res.get('r') == 'ok' and (sorted(res.get('diff', [])) != wantn or not res.get('stable', True)):
                C.report_violation(f'{label}: {bad}; native: {res}', vec)
                C.samples.append({'counterexample': vec})
                return
            raise Broken(f'{label}: {bad} - does not reproduce natively: {res}')
    C.bounds[f'auth_diff:{nsets}'] = {'sets': nsets, 'universe': len(universe), 'paths': npaths}
    res = C.native({'op': 'c06:auth_diff', 'sets': [['$a:x', '$b:x'], ['$b:x', '$c:x'], ['$b:x']], 'repeat': 16})
    C.model_validation += 1
    if res.get('r') != 'ok' or sorted(res.get('diff', [])) != ['$a:x', '$c:x'] or not res.get('stable', True):
        raise Broken(f'auth-chain difference validation instance fails natively: {res}')
    C.samples.append({'auth_chain_diff': f'{nsets} sets', 'paths': npaths})


def run_separate(C, job):
    """separate(): unconflicted = keys every state set maps to the same event; conflicted = all events of the other keys;
    as maps / sets, for every iteration order of every HashMap involved (C06, and the first clause of C07)"""
    nsets, chunk, nchunks = job
    E = C.fresh_engine(KEYS, N=8)
    E.feas_mode = 'never'
    E.hash_any_order = True
    E.overrides.insert(0, (re.compile(r'^<Id as std::clone::Clone>::clone$'), lambda E_, st, c, a, m: [(TRUE, E_.deref(st, a[0]))]))
    f = E.find_func('separate')
    SET = 'ruma_events::enums::StateEventType'
    keys = [(b'RoomTopic', b''), (b'RoomMember', b'@a:x')]
    ids = [b'$a', b'$b']
    opts = [None, 0, 1]
    combos = list(itertools.product(itertools.product(opts, repeat=len(keys)), repeat=nsets))
    combos = combos[chunk::nchunks]
    npaths = 0
    mk_key = lambda k: Tup([Adt(SET, k[0].decode(), []), Obj('String', E.const_str(k[1]))])
    for combo in combos:
        label = 'separate(' + '; '.join('{' + ', '.join(f'{keys[j][0].decode()}: {ids[v].decode()}' for j, v in enumerate(ss) if v is not None) + '}' for ss in combo) + ')'
        del E.axioms[:]
        st = E.new_state()
        maps = [E.mk_map('HashMap', [(mk_key(keys[j]), E.const_str(ids[v])) for j, v in enumerate(ss) if v is not None]) for ss in combo]
        it = Obj('SeqIter', (tuple(E.root_ref(st, mp) for mp in maps), 0))
        outs = E.run_func(f, [it], [], st=st)
        C.absorb(E)
        want_un, want_co = {}, {}
        for j, k in enumerate(keys):
            vals = [ss[j] for ss in combo]
            present = [v for v in vals if v is not None]
            if present and len(present) == nsets and len(set(present)) == 1:
                want_un[k] = ids[present[0]]
            elif present:
                want_co[k] = sorted(set(ids[v] for v in present))
        bad = None
        for o in outs:
            npaths += 1
            if o.kind != 'ret':
                bad = f'panics: {o.value}'; break
            un, co = [E.deref(o.st, x) for x in o.value.fields]
            def key_of(kv):
                kv = E.deref(o.st, kv)
                return (E.deref(o.st, kv.fields[0]).variant.encode(), E.as_str(o.st, kv.fields[1]).conc())
            got_un = {key_of(k): E.as_str(o.st, v).conc() for k, v in un.data[1]}
            got_co = {key_of(k): sorted(E.as_str(o.st, x).conc() for x in E.deref(o.st, v).data) for k, v in co.data[1]}
            if got_un != want_un or got_co != want_co:
                bad = f'unconflicted {got_un} conflicted {got_co}; expected {want_un} / {want_co}'; break
        C.queries.append({'name': label + f': unconflicted / conflicted split, all {len(outs)} hash iteration orders', 'result': 'sat' if bad else 'unsat', 's': 0})
        if bad:
            vec = {'op': 'c06:separate', 'sets': [{f'{keys[j][0].decode()}|{keys[j][1].decode()}': ids[v].decode() + ':x' for j, v in enumerate(ss) if v is not None} for ss in combo]}
            res = C.native(vec); vec['native'] = res
            exp_un = {f'{k[0].decode()}|{k[1].decode()}': v.decode() + ':x' for k, v in want_un.items()}
            exp_co = {f'{k[0].decode()}|{k[1].decode()}': [x.decode() + ':x' for x in v] for k, v in want_co.items()}
            if res.get('r') == 'ok' and (res.get('unconflicted') != exp_un or res.get('conflicted') != exp_co or not res.get('stable', True)):
                C.report_violation(f'{label}: {bad}; native: {res}', vec)
                C.samples.append({'counterexample': vec})
                return
            raise Broken(f'{label}: {bad} - does not reproduce natively: {res} (expected {exp_un} / {exp_co})')
    C.bounds[f'separate:{nsets}:{chunk}'] = {'state_sets': nsets, 'scenarios': len(combos), 'paths': npaths}
    if chunk == 0:
        res = C.native({'op': 'c06:separate', 'sets': [{'RoomTopic|': '$a:x', 'RoomMember|@a:x': '$b:x'}, {'RoomTopic|': '$a:x', 'RoomMember|@a:x': '$a:x'}], 'repeat': 16})
        C.model_validation += 1
        if res.get('r') != 'ok' or res.get('unconflicted') != {'RoomTopic|': '$a:x'} or res.get('conflicted') != {'RoomMember|@a:x': ['$a:x', '$b:x']} or not res.get('stable', True):
            raise Broken(f'separate validation instance fails natively: {res}')
    C.samples.append({'separate': f'{nsets} state sets, chunk {chunk}', 'scenarios': len(combos), 'paths': npaths})


def run_creator_cache(C, job):
    """get_power_level_for_sender: reverse_topological_power_sort calls it for every graph node *in HashMap iteration order* with a
    shared creator cache (OnceLock).  Decided here: the power level computed for an event B is the same whether the cache is still
    empty (B visited first) or was filled while visiting another event A of the same room (A visited first) - for every
    symbolic world of checks/c08.py (sender, creator, power levels, which auth events B cites)."""
    version = job
    import c08
    from authsym import install, rules_for_version, int_val
    from spec import auth_rules as SPEC
    E = C.fresh_engine(KEYS, N=8)
    E.src.load(C.extra[('events', 'dumped')][2])
    E.feas_mode = 'budget'; E.feas_timeout_ms = 300
    E.alloc_const = lambda v: c08.alloc_const(E, v)
    rules, _ = rules_for_version(C, E, version)
    w = c08.World(E, 'state')
    install(C, E, w)
    ev, fetch_obj, reads = c08.build(C, E, w, rules)
    label = f'v{version}:sender power level independent of the creator cache'
    evid = lambda b: Adt('ruma_common::identifiers::event_id::OwnedEventId', None, [E.const_str(b)])
    # A: another event of the room that cites the create event
    ev_a = Obj('Event', dict(ev.data, event_id=evid(b'$a:x'), auth_events_outcomes=lambda: [(TRUE, Obj('SeqIter', ((E.alloc_const(w.create_id_obj),), 0)))]))

    def fetch_event(E_, st, args):
        s_ = E_.as_str(st, args[0]).conc()
        if s_ == b'$c:x': return [(w.create_present, some(w.create_event_obj)), (z3.Not(w.create_present), NONE)]
        if s_ == b'$o:x': return [(w.pl_present, some(w.pl_event_obj)), (z3.Not(w.pl_present), NONE)]
        if s_ == b'$e:x': return [(TRUE, some(ev))]
        if s_ == b'$a:x': return [(TRUE, some(ev_a))]
        raise Inconclusive(f'fetch_event({s_})')
    fe = Obj('PyFn', fetch_event)
    # &OwnedUserId -> &UserId: the string itself (the cached value is held by value in the OnceLock model)
    E.overrides.insert(0, (re.compile(r'^<(?:ruma_common::|identifiers::user_id::)?OwnedUserId as std::ops::Deref>::deref$'), lambda E_, st_, c, a, m: [(TRUE, E_.as_str(st_, a[0]))]))
    f = E.find_func('get_power_level_for_sender')
    _, applicable = SPEC.accepts(w, version)
    cons = list(w.cons) + [applicable]
    st = E.new_state()
    rref = E.root_ref(st, rules)

    def run(st0, event_id, lock_ref, extra):
        return E.run_func(f, [E.const_str(event_id), rref, lock_ref, fe], extra, st=st0)
    # B first (empty cache)
    lock1 = E.root_ref(st, Obj('OnceLock', None))
    first = run(st, b'$e:x', lock1, cons)
    # A first, then B with the cache A left behind
    lock2 = E.root_ref(st, Obj('OnceLock', None))
    after_a = run(st, b'$a:x', lock2, cons)
    second = []
    for oa in after_a:
        if oa.kind != 'ret':
            continue
        second += [(oa, ob) for ob in E.run_func(f, [E.const_str(b'$e:x'), rref, lock2, fe], [], st=oa.st)]
    C.absorb(E)
    val = lambda o: ('err', None) if o.value.variant == 'Err' else ('ok', int_val(o.value.fields[0]))
    bad = []
    for o1 in first:
        if o1.kind != 'ret':
            bad.append(o1.cond()); continue
        k1, v1 = val(o1)
        for oa, ob in second:
            if ob.kind != 'ret':
                bad.append(ob.cond()); continue
            k2, v2 = val(ob)
            both = z3.And(o1.cond(), ob.cond())
            if k1 != k2: bad.append(both)
            elif k1 == 'ok': bad.append(z3.And(both, v1 != v2))
    r, m = C.solve_split(label + f' ({len(first)} x {len(second)} path pairs)', cons + list(E.axioms), bad, chunk=32)
    C.bounds[label] = {'paths_empty_cache': len(first), 'paths_after_other_event': len(second)}
    if r == 'sat':
        vec = SPEC.concretise(w, m, version)
        vec['op'] = 'c06:creator_cache'
        res = C.native(vec); vec['native'] = res
        role = 'creator cache: power level of an event without create event in its auth events'
        what = f'{label}: power level of the sender of {vec["summary"]["incoming"]} is {res.get("empty_cache")} with an empty creator cache and {res.get("filled_cache")} after another event of the room was visited'
        if res.get('r') == 'ok' and res.get('empty_cache') != res.get('filled_cache'):
            if C.is_known(role):
                C.report_known(role, what[:400])
            else:
                C.report_violation(what, vec)
                C.samples.append({'counterexample': vec['summary'], 'native': res})
        else:
            raise Broken(f'{label}: model does not reproduce natively: {res}: {vec["summary"]}')
    else:
        C.samples.append({'creator_cache': label, 'pairs': len(first) * len(second)})


def run_mainline(C, job):
    """mainline_sort: events ordered by the mainline position of their closest power-level ancestor (older first), then timestamp,
    then event id.  Concrete small histories (a power-level mainline P0 <- P1 <- P2 and events citing one of them, a side power
    event, or nothing), symbolic timestamps, every hash iteration order.  slice::sort_by_key is a library model (stable sort by the
    key's Ord: tuple order, Option None < Some, integers) applied to the keys the crate computes."""
    shape_idx = job
    from authsym import install
    import c08
    E = C.fresh_engine(KEYS, N=8)
    E.src.load(C.extra[('events', 'dumped')][2])
    E.feas_mode = 'budget'; E.feas_timeout_ms = 300
    E.hash_any_order = True
    E.loop_bound = 64
    E.alloc_const = lambda v: c08.alloc_const(E, v)
    class _W: pass
    install(C, E, _W())
    TET = 'ruma_events::enums::TimelineEventType'
    evid = lambda b: Adt('ruma_common::identifiers::event_id::OwnedEventId', None, [E.const_str(b)])
    ts = {}
    def mk(idb, etype, auth, skey=b''):
        t = z3.BitVec('ts_' + idb.decode().strip('$'), 64); ts[idb] = t
        return Obj('Event', {'event_id': evid(idb), 'room_id': E.const_str(b'!r:x'), 'sender': E.const_str(b'@a:x'), 'event_type': Adt(TET, etype, []),
                             'content': Opaque('content'), 'origin_server_ts': Adt('ruma_common::time::MilliSecondsSinceUnixEpoch', None, [Adt('js_int::UInt', None, [I(t, 64)])]),
                             'state_key_outcomes': (lambda: [(TRUE, some(E.const_str(skey)))]),
                             'prev_events_outcomes': (lambda: [(TRUE, Obj('SeqIter', ((), 0)))]),
                             'auth_events_outcomes': (lambda auth=auth: [(TRUE, Obj('SeqIter', (tuple(E.alloc_const(evid(x)) for x in auth), 0)))]), 'redacts': NONE})
    # mainline: P2 (resolved) -> P1 -> P0 ; Q: a power-levels event off the mainline whose parent is P0
    store = {b'$p0': mk(b'$p0', 'RoomPowerLevels', []), b'$p1': mk(b'$p1', 'RoomPowerLevels', [b'$p0']), b'$p2': mk(b'$p2', 'RoomPowerLevels', [b'$p1']),
             b'$q': mk(b'$q', 'RoomPowerLevels', [b'$p0'])}
    parents = [None, b'$p0', b'$p1', b'$p2', b'$q']
    combos = list(itertools.product(parents, repeat=3))
    combos = combos[shape_idx::12]
    ids3 = [b'$x', b'$y', b'$z']
    depth_of = {None: 0, b'$p0': 0, b'$p1': 1, b'$p2': 2, b'$q': 0}

    def fetch_event(E_, st, args):
        s_ = E_.as_str(st, args[0]).conc()
        return [(TRUE, some(store[s_]) if s_ in store else NONE)]

    def fn_call(E_, st, callee, a, m):
        tgt = E_.deref(st, a[0])
        if isinstance(tgt, Obj) and tgt.kind == 'PyFn':
            args = a[1].fields if isinstance(a[1], Tup) else [a[1]]
            return tgt.data(E_, st, list(args))
        return None
    E.overrides.insert(0, (re.compile(r'^<.+ as (?:std|core)::ops::(?:Fn|FnMut|FnOnce)>::call(?:_mut|_once)?$'), fn_call))
    idm = lambda E_, st, c, a, m: [(TRUE, a[0])]
    E.overrides.insert(0, (re.compile(r'^<<E as events::traits::Event>::Id as std::borrow::Borrow>::borrow$'), lambda E_, st, c, a, m: [(TRUE, E_.as_str(st, a[0]))]))
    E.overrides.insert(0, (re.compile(r'^<<E as events::traits::Event>::Id as std::(?:clone::Clone>::clone|borrow::ToOwned>::to_owned)$'), lambda E_, st, c, a, m: [(TRUE, E_.deref(st, a[0]))]))

    def sort_by_key(E_, st, callee, a, m):
        # stable sort by the Ord of the key type: here (usize, Option<MilliSecondsSinceUnixEpoch>, &Id)
        v = E_.deref(st, a[0])
        items = list(v.data if isinstance(v, Obj) else v.items)
        keys = []
        for x in items:
            rs = E_.call_value(st, a[1], [E_.root_ref(st, x)])
            if len(rs) != 1 or rs[0][1].kind != 'ret':
                raise Inconclusive('sort_by_key: key closure forks or panics')
            keys.append((rs[0][1].st, E_.deref(rs[0][1].st, rs[0][1].value)))

        def cmp2(s1, x, s2, y):
            """(less, equal) of two key components under the std / derived order of their type"""
            x, y = E_.deref(s1, x), E_.deref(s2, y)
            if isinstance(x, I):
                return ((x.v < y.v) if x.s else z3.ULT(x.v, y.v)), x.v == y.v
            if isinstance(x, Str) or (isinstance(x, Obj) and x.kind == 'String'):
                bx, by = E_.as_str(s1, x).conc(), E_.as_str(s2, y).conc()
                if bx is None or by is None:
                    raise Inconclusive('sort_by_key: symbolic string key')
                return z3.BoolVal(bx < by), z3.BoolVal(bx == by)
            if isinstance(x, Adt) and x.ty.endswith('Option'):
                if x.variant == 'None' or y.variant == 'None':
                    return z3.BoolVal(x.variant == 'None' and y.variant == 'Some'), z3.BoolVal(x.variant == y.variant)
                return cmp2(s1, x.fields[0], s2, y.fields[0])
            if isinstance(x, (Tup, Adt)) and (isinstance(x, Tup) or x.variant is None):
                lt, eq = z3.BoolVal(False), z3.BoolVal(True)
                for fx, fy in zip(x.fields, y.fields):
                    l2, e2 = cmp2(s1, fx, s2, fy)
                    lt = z3.Or(lt, z3.And(eq, l2)); eq = z3.And(eq, e2)
                return lt, eq
            raise Inconclusive(f'sort_by_key: key component {x!r}')

        def less(i, j):
            lt, eq = cmp2(keys[i][0], keys[i][1], keys[j][0], keys[j][1])
            # stable sort: equal keys keep their input order
            return z3.simplify(z3.Or(lt, z3.And(eq, z3.BoolVal(i < j))))
        outs = []
        for perm in itertools.permutations(range(len(items))):
            c = z3.simplify(z3.And(*[less(perm[k], perm[k + 1]) for k in range(len(perm) - 1)])) if len(perm) > 1 else TRUE
            if z3.is_false(c): continue
            def eff(st2, perm=perm):
                new = Seq([items[k] for k in perm], v.kind) if isinstance(v, Seq) else Obj('Vec', tuple(items[k] for k in perm))
                E_.store(st2, a[0], new)
            outs.append((c, UNIT, eff))
        return outs
    E.overrides.insert(0, (re.compile(r'^(?:std|core)::slice::<impl \[.*\]>::sort_by_key$'), sort_by_key))
    # `&mut Vec<T>` -> `&mut [T]`: keep the reference so that the sort model can write the sorted sequence back
    E.overrides.insert(0, (re.compile(r'^<std::vec::Vec as std::ops::DerefMut>::deref_mut$'), lambda E_, st, c, a, m: [(TRUE, a[0])]))
    f = E.find_func('mainline_sort')
    npaths = 0
    for combo in combos:
        label = 'mainline_sort(' + ', '.join(f'{i.decode()}<-{(p or b"none").decode()}' for i, p in zip(ids3, combo)) + ')'
        for i, p in zip(ids3, combo):
            store[i] = mk(i, 'RoomTopic', [p] if p else [])
        cons = [z3.ULE(ts[i], INT_MAX) for i in ids3]
        del E.axioms[:]
        st = E.new_state()
        to_sort = Obj('Vec', tuple(evid(i) for i in ids3))
        outs = E.run_func(f, [to_sort, some(evid(b'$p2')), Obj('PyFn', fetch_event)], cons, st=st)
        C.absorb(E)
        npaths += len(outs)
        bad = []
        for o in outs:
            if o.kind != 'ret' or o.value.variant != 'Ok':
                bad.append(o.cond()); continue
            seq = [E.as_str(o.st, x).conc() for x in E.deref(o.st, o.value.fields[0]).data]
            if sorted(seq) != sorted(ids3):
                bad.append(o.cond()); continue
            okc = []
            for k in range(len(seq) - 1):
                x, y = seq[k], seq[k + 1]
                dx, dy = depth_of[combo[ids3.index(x)]], depth_of[combo[ids3.index(y)]]
                okc.append(z3.BoolVal(dx < dy) if dx != dy else z3.Or(z3.ULT(ts[x], ts[y]), z3.And(ts[x] == ts[y], z3.BoolVal(x < y))))
            bad.append(z3.And(o.cond(), z3.Not(z3.And(*okc))))
        r, m = C.solve_split(label + ': closest mainline ancestor (older first), then timestamp, then event id; all hash iteration orders', cons + list(E.axioms), bad, chunk=32)
        if r == 'sat':
            vec = {'op': 'c07:mainline', 'events': [{'id': i.decode() + ':x', 'parent': (p.decode() + ':x') if p else None, 'ts': m.eval(ts[i], model_completion=True).as_long()} for i, p in zip(ids3, combo)]}
            res = C.native(vec); vec['native'] = res
            exp = [e['id'] for e in sorted(vec['events'], key=lambda e: (depth_of[e['parent'][:-2].encode()] if e['parent'] else 0, e['ts'], e['id']))]
            vec['spec'] = exp
            if res.get('r') == 'ok' and (res.get('order') != exp or not res.get('stable', True)):
                C.report_violation(f'{label}: mainline_sort -> {res.get("order")}, mainline ordering is {exp}', vec)
                C.samples.append({'counterexample': vec})
                return
            raise Broken(f'{label}: model does not reproduce natively: {vec}')
    C.bounds[f'mainline:{shape_idx}'] = {'scenarios': len(combos), 'paths': npaths}
    if shape_idx == 0:
        vec = {'op': 'c07:mainline', 'repeat': 16, 'events': [{'id': '$x:x', 'parent': '$p2:x', 'ts': 1}, {'id': '$y:x', 'parent': '$q:x', 'ts': 9}, {'id': '$z:x', 'parent': '$p1:x', 'ts': 5}]}
        res = C.native(vec)
        C.model_validation += 1
        if res.get('r') != 'ok' or res.get('order') != ['$y:x', '$z:x', '$x:x'] or not res.get('stable', True):
            raise Broken(f'mainline validation instance fails natively: {res}')
    C.samples.append({'mainline_sort': f'chunk {shape_idx}', 'scenarios': len(combos), 'paths': npaths})


def run_power_graph(C, job):
    """add_event_and_auth_chain_to_graph: starting from one event, the graph holds that event and every ancestor reachable through
    auth events that belong to the auth difference, each with edges to exactly its auth events in the auth difference; every
    auth-event DAG over 4 events and every auth difference (concrete scenarios: the function has no symbolic input)"""
    chunk, nchunks = job
    from authsym import install
    import c08
    E = C.fresh_engine(KEYS, N=8)
    E.src.load(C.extra[('events', 'dumped')][2])
    E.feas_mode = 'never'
    E.loop_bound = 64
    E.alloc_const = lambda v: c08.alloc_const(E, v)
    class _W: pass
    install(C, E, _W())
    evid = lambda b: Adt('ruma_common::identifiers::event_id::OwnedEventId', None, [E.const_str(b)])
    names = [b'$e0', b'$e1', b'$e2', b'$e3']
    store = {}

    def fetch_event(E_, st, args):
        s_ = E_.as_str(st, args[0]).conc()
        return [(TRUE, some(store[s_]) if s_ in store else NONE)]

    def fn_call(E_, st, callee, a, m):
        tgt = E_.deref(st, a[0])
        if isinstance(tgt, Obj) and tgt.kind == 'PyFn':
            args = a[1].fields if isinstance(a[1], Tup) else [a[1]]
            return tgt.data(E_, st, list(args))
        return None
    E.overrides.insert(0, (re.compile(r'^<.+ as (?:std|core)::ops::(?:Fn|FnMut|FnOnce)>::call(?:_mut|_once)?$'), fn_call))
    E.overrides.insert(0, (re.compile(r'^<<E as events::traits::Event>::Id as std::borrow::Borrow>::borrow$'), lambda E_, st, c, a, m: [(TRUE, E_.as_str(st, a[0]))]))
    E.overrides.insert(0, (re.compile(r'^<<E as events::traits::Event>::Id as std::(?:clone::Clone>::clone|borrow::ToOwned>::to_owned)$'), lambda E_, st, c, a, m: [(TRUE, E_.deref(st, a[0]))]))
    f = E.find_func('add_event_and_auth_chain_to_graph')
    TET = 'ruma_events::enums::TimelineEventType'
    scen = [(es, diff) for es in dags(4) for r in range(5) for diff in itertools.combinations(range(4), r)]
    scen = scen[chunk::nchunks]
    for es, diff in scen:
        auth = {i: [j for (a_, j) in es if a_ == i] for i in range(4)}
        for i in range(4):
            store[names[i]] = Obj('Event', {'event_id': evid(names[i]), 'room_id': E.const_str(b'!r:x'), 'sender': E.const_str(b'@a:x'), 'event_type': Adt(TET, 'RoomTopic', []),
                                            'content': Opaque('content'), 'origin_server_ts': Opaque('ts'), 'state_key_outcomes': (lambda: [(TRUE, some(E.const_str(b'')))]),
                                            'prev_events_outcomes': (lambda: [(TRUE, Obj('SeqIter', ((), 0)))]),
                                            'auth_events_outcomes': (lambda a_=auth[i]: [(TRUE, Obj('SeqIter', (tuple(E.alloc_const(evid(names[j])) for j in a_), 0)))]), 'redacts': NONE})
        st = E.new_state()
        gref = E.root_ref(st, E.mk_map('HashMap', []))
        dref = E.root_ref(st, Obj('HSet', tuple(evid(names[j]) for j in diff)))
        outs = E.run_func(f, [gref, evid(names[3]), dref, Obj('PyFn', fetch_event)], [], st=st)
        C.absorb(E)
        # specification
        want, todo = {}, [3]
        while todo:
            x = todo.pop()
            if x in want: continue
            want[x] = sorted(j for j in auth[x] if j in diff)
            todo += want[x]
        label = f'power graph: auth events {dict((names[i].decode(), [names[j].decode() for j in auth[i]]) for i in range(4))}, auth difference {[names[j].decode() for j in diff]}'
        bad = None
        if len(outs) != 1 or outs[0].kind != 'ret':
            bad = f'{len(outs)} outcomes / panic'
        else:
            g = E.deref(outs[0].st, gref)
            got = {}
            for k, v in g.data[1]:
                kk = names.index(E.as_str(outs[0].st, k).conc())
                got[kk] = sorted(names.index(E.as_str(outs[0].st, x).conc()) for x in E.deref(outs[0].st, v).data)
            if got != want:
                bad = f'graph {got}, expected {want}'
        C.queries.append({'name': label, 'result': 'sat' if bad else 'unsat', 's': 0})
        if bad:
            vec = {'op': 'c07:power_graph', 'start': '$e3:x', 'events': [{'id': names[i].decode() + ':x', 'auth': [names[j].decode() + ':x' for j in auth[i]]} for i in range(4)],
                   'auth_diff': [names[j].decode() + ':x' for j in diff]}
            res = C.native(vec); vec['native'] = res
            exp = {names[k].decode() + ':x': [names[j].decode() + ':x' for j in v] for k, v in want.items()}
            if res.get('r') == 'ok' and res.get('graph') != exp:
                C.report_violation(f'{label}: {bad}; native graph {res.get("graph")}', vec)
                C.samples.append({'counterexample': vec})
                return
            raise Broken(f'{label}: {bad} - does not reproduce natively: {res} vs {exp}')
    C.bounds[f'power_graph:{chunk}'] = {'scenarios': len(scen)}
    if chunk == 0:
        vec = {'op': 'c07:power_graph', 'start': '$e3:x', 'events': [{'id': '$e0:x', 'auth': []}, {'id': '$e1:x', 'auth': ['$e0:x']}, {'id': '$e2:x', 'auth': ['$e0:x']}, {'id': '$e3:x', 'auth': ['$e1:x', '$e2:x']}],
               'auth_diff': ['$e0:x', '$e1:x']}
        res = C.native(vec)
        C.model_validation += 1
        if res.get('r') != 'ok' or res.get('graph') != {'$e3:x': ['$e1:x'], '$e1:x': ['$e0:x'], '$e0:x': []}:
            raise Broken(f'power-graph validation instance fails natively: {res}')
    C.samples.append({'power_graph': f'chunk {chunk}', 'scenarios': len(scen)})


def expected_order(nodes):
    done, out = set(), []
    byid = {x['id']: x for x in nodes}
    while len(out) < len(nodes):
        ready = [x for x in nodes if x['id'] not in done and set(x['deps']) <= done]
        x = min(ready, key=lambda x: (-x['pl'], x['ts'], x['id']))
        out.append(x['id']); done.add(x['id'])
    return out


def body(C):
    C.engine(KEYS, N=8)
    C.build_replayer(['stateres'])
    K = 4 if C.tier == 'thorough' else 3
    jobs = []
    for n in range(1, K + 1):
        perms = list(itertools.permutations(range(n)))
        if n == 4:
            # 64 DAG shapes x 24 identifier assignments x (up to 24 orders of the graph walk) did not finish in 45 min:
            # the thorough tier keeps every DAG shape with the two extreme identifier assignments
            perms = [tuple(range(n)), tuple(reversed(range(n)))]
        dl = list(dags(n))
        if n == 4:
            import random
            dl = random.Random(C.seed).sample(dl, 32)      # all 64 shapes x all hash orders did not finish in an hour
        shapes = [(es, perm) for es in dl for perm in perms]
        per = max(1, len(shapes) // 12)
        for i in range(0, len(shapes), per):
            jobs.append((run_sort, (n, shapes[i:i + per])))
    C.extra[('events', 'dumped')] = C.dump('events', want_mir=False)
    jobs += [(run_mainline, i) for i in range(12)]
    jobs += [(run_power_graph, (i, 8)) for i in range(8)]
    C.assumptions.append('power-event graph (add_event_and_auth_chain_to_graph): every auth-event DAG over 4 events x every auth difference (1024 concrete scenarios), started from the newest event')
    C.assumptions.append('mainline ordering (mainline_sort): power-level history p0 <- p1 <- p2 (resolved) with a side branch q <- p0; three events each citing one of them or no power event (125 combinations), symbolic timestamps, every hash iteration order; slice::sort_by_key is a library model (stable sort by the std order of the key tuple) applied to the keys the crate computes')
    if PID == 'C06' or os.environ.get('VERIF_PID') == 'C06':
        jobs += [(run_auth_diff, 1), (run_auth_diff, 2), (run_auth_diff, 3)]
        jobs += [(run_separate, (1, 0, 1)), (run_separate, (2, 0, 2)), (run_separate, (2, 1, 2))]
        if C.tier == 'thorough':
            jobs += [(run_separate, (3, i, 12)) for i in range(12)]
        jobs += [(run_creator_cache, v) for v in ((1, 11) if C.tier == 'quick' else (1, 6, 10, 11))]
        C.assumptions.append('creator cache (get_power_level_for_sender): the symbolic world of C08 (state-event kind); the event cites either the create event or the power-levels event; the other visited event cites the create event')
        C.assumptions.append('conflict separation (separate): 1-2 state sets (3 thorough) over two state keys and two event ids, every combination (key absent / either id), every iteration order of the state maps, the occurrence map and its inner maps; results compared as maps / sets')
        C.assumptions.append('auth-chain difference (get_auth_chain_diff): 1-3 chains over a universe of 3 (2 for three chains) event ids, every subset combination, every iteration order of the sets and of the counting map; result compared as a set')
    parts = os.environ.get('VERIF_PARTS')
    if parts:
        jobs = [j for j in jobs if any(p in j[0].__name__ for p in parts.split(','))]
    C.assumptions += [
        f'every DAG over at most {K} nodes (edges only towards lower-numbered nodes, every assignment of the identifiers $a..$d to the nodes; for 4 nodes: 32 of the 64 DAG shapes (chosen by VERIF_SEED) with the identity and the reversed assignment), power level and timestamp per node symbolic (JSON integer range)',
        'HashMap / HashSet iteration: every order of every container walked is explored (symbolic order index); BinaryHeap is a library model (pop = maximum by the crate\'s Ord impl); tracing disabled',
        'outside the claim: resolve() as a whole - conflict separation, auth-chain difference, reverse_topological_power_sort\'s graph construction and sender power levels, iterative_auth_check, mainline_sort; room histories; threads',
    ]
    parallel_map(C, jobs, None)


if __name__ == '__main__':
    run_check(PID, body)
