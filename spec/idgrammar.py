"""Oracles for identifier grammars, written from the Matrix specification (Appendices: "Identifier Grammar",
"Server Name", "User Identifiers", "Room IDs / Aliases", "Event IDs"; Client-Server API: "Matrix Content (mxc://) URIs",
key identifiers `algorithm:key_name`).  Quantifier-free z3 predicates over the byte-array string representation;
deliberately independent of the engine's models (own first-index definition by if-then-else chains)."""
import z3

bv = lambda x, w=64: z3.BitVecVal(x, w)
T, F = z3.BoolVal(True), z3.BoolVal(False)


class W:
    """window of a string: base array, offset term, length term, python cap"""
    def __init__(self, base, off, ln, cap):
        self.base, self.off, self.ln, self.cap = base, off, ln, cap

    def at(self, i):
        if isinstance(i, int): i = bv(i)
        return z3.Select(self.base, self.off + i)

    def sub(self, a, ln):
        return W(self.base, self.off + a, ln, self.cap)


def of_str(s, cap):
    return W(s.base, s.off, s.ln, cap)


def inw(j, w): return z3.ULT(bv(j), w.ln)


def positions(w):
    """[(guard, byte)] over the bytes of window w.  A window at a symbolic offset is enumerated by *absolute* buffer
    position (the buffer starts at 0 and has w.cap bytes), so that every array read has a constant index."""
    off = z3.simplify(w.off)
    if z3.is_bv_value(off):
        return [(inw(j, w), w.at(j)) for j in range(w.cap)]
    end = w.off + w.ln
    return [(z3.And(z3.ULE(w.off, bv(k)), z3.ULT(bv(k), end)), z3.Select(w.base, bv(k))) for k in range(w.cap)]
def digit(b): return z3.And(z3.UGE(b, 48), z3.ULE(b, 57))
def alpha(b): return z3.Or(z3.And(z3.UGE(b, 65), z3.ULE(b, 90)), z3.And(z3.UGE(b, 97), z3.ULE(b, 122)))
def dns_char(b): return z3.Or(digit(b), alpha(b), b == 45, b == 46)


AXIOMS = []      # definitions of the oracle's own index variables; asserted in every query that uses the oracle
_ctr = [0]


def first_index(w, pred):
    """(exists, idx): idx = least j < len with pred(byte j), idx = len when there is none.  idx is a fresh variable
    with a total functional definition (appended to AXIOMS) -- far cheaper for the solver than an if-then-else chain."""
    _ctr[0] += 1
    idx = z3.BitVec(f'spec_idx!{_ctr[0]}', 64)
    ax = [z3.ULE(idx, w.ln), z3.Implies(z3.ULT(idx, w.ln), pred(w.at(idx)))]
    off = z3.simplify(w.off)
    if z3.is_bv_value(off):
        for j in range(w.cap):
            ax.append(z3.Implies(z3.And(z3.ULT(bv(j), idx), inw(j, w)), z3.Not(pred(w.at(j)))))
    else:
        for k in range(w.cap):
            ax.append(z3.Implies(z3.And(z3.ULE(w.off, bv(k)), z3.ULT(bv(k), w.off + idx)), z3.Not(pred(z3.Select(w.base, bv(k))))))
    AXIOMS.append(z3.And(*ax))
    return z3.ULT(idx, w.ln), idx


def all_bytes(w, pred):
    return z3.And(*[z3.Implies(gd, pred(b)) for gd, b in positions(w)]) if w.cap else T


def no_byte(w, val):
    return all_bytes(w, lambda b: b != val)


def port_digits(w):
    """1*5DIGIT"""
    return z3.And(z3.UGE(w.ln, 1), z3.ULE(w.ln, 5), *[z3.Implies(inw(j, w), digit(w.at(j))) for j in range(5)])


def port_value_fits_u16(w):
    """numeric value of a 1*5DIGIT port <= 65535: fewer than 5 digits always fit; 5 digits compare
    lexicographically with "65535" (no arithmetic)."""
    lim = b'65535'
    le = T
    for j in range(4, -1, -1):
        le = z3.Or(z3.ULT(w.at(j), lim[j]), z3.And(w.at(j) == lim[j], le))
    return z3.Or(z3.ULT(w.ln, 5), le)


def server_name(w, ipv6_ok, strict_port=False):
    """server_name = hostname [ ":" port ];  hostname = IPv4address / "[" IPv6address "]" / dns-name;
    dns-name = 1*255(DIGIT / ALPHA / "-" / ".") ; port = 1*5DIGIT.
    ipv6_ok(window) is the definition of "IPv6address" (std's parser is taken as the reference, see DESIGN).
    strict_port additionally requires the port to be a possible TCP port (<= 65535)."""
    br = z3.And(z3.UGE(w.ln, 1), w.at(0) == 91)
    # bracketed form
    exb, e = first_index(w, lambda b: b == 93)
    lit = w.sub(bv(1), e - 1)
    rest_b = w.sub(e + 1, w.ln - e - 1)
    brack = z3.And(exb, ipv6_ok(lit), tail_ok(rest_b, strict_port))
    # dns-name / IPv4 form
    exc, h = first_index(w, lambda b: b == 58)
    host = W(w.base, w.off, h, w.cap)
    rest_h = w.sub(h, w.ln - h)
    plain = z3.And(z3.UGE(h, 1), z3.ULE(h, 255), all_bytes(host, dns_char), tail_ok(rest_h, strict_port))
    return z3.If(br, brack, plain)


def tail_ok(rest, strict_port):
    """rest is empty or ":" port"""
    p = rest.sub(bv(1), rest.ln - 1)
    ok = z3.And(z3.UGE(rest.ln, 2), rest.at(0) == 58, port_digits(p))
    if strict_port:
        ok = z3.And(ok, port_value_fits_u16(p))
    return z3.Or(rest.ln == 0, ok)


def sigil_id(w, sigil, srv, localpart=None):
    """sigil localpart ":" server_name, at most 255 bytes; the localpart contains neither ':' nor NUL.
    srv(window) is the server-name predicate (the full grammar above, or -- compositionally -- the predicate
    "server_name::validate accepts", which a separate obligation relates to the grammar)."""
    exc, c = first_index(w, lambda b: b == 58)
    lp = w.sub(bv(1), c - 1)
    sw = w.sub(c + 1, w.ln - c - 1)
    conds = [z3.ULE(w.ln, 255), z3.UGE(w.ln, 1), w.at(0) == sigil, exc, z3.UGE(c, 1), no_byte(lp, 0), srv(sw)]
    if localpart is not None:
        conds.append(localpart(lp))
    return z3.And(*conds)


def user_localpart_strict(lp):
    """user_id_char = DIGIT / %x61-7A / "-" / "." / "=" / "_" / "/" / "+" ; non-empty"""
    def ch(b):
        return z3.Or(digit(b), z3.And(z3.UGE(b, 97), z3.ULE(b, 122)), b == 45, b == 46, b == 61, b == 95, b == 47, b == 43)
    return z3.And(z3.UGE(lp.ln, 1), all_bytes(lp, ch))


def user_localpart_historical(lp):
    """extended_user_id_char = %x21-39 / %x3B-7E ; non-empty"""
    return z3.And(z3.UGE(lp.ln, 1), all_bytes(lp, lambda b: z3.And(z3.UGE(b, 0x21), z3.ULE(b, 0x7E), b != 58)))


def opaque_id_chars(b):
    """opaque_id = 1*opaque_id_char; DIGIT / ALPHA / "-" / "." / "~" / "_" """
    return z3.Or(digit(b), alpha(b), b == 45, b == 46, b == 126, b == 95)


def opaque_localpart(lp):
    return z3.And(z3.UGE(lp.ln, 1), all_bytes(lp, opaque_id_chars))


def room_id_lax(w):
    """what every room ID must satisfy: '!' sigil, at most 255 bytes, no NUL"""
    return z3.And(z3.UGE(w.ln, 1), w.at(0) == 33, z3.ULE(w.ln, 255), no_byte(w, 0))


def event_id_lax(w, srv):
    """'$' sigil, at most 255 bytes; when it has the v1/v2 `$opaque:server` shape the part after the first ':' is a server name"""
    exc, c = first_index(w, lambda b: b == 58)
    sw = w.sub(c + 1, w.ln - c - 1)
    return z3.And(z3.UGE(w.ln, 1), w.at(0) == 36, z3.ULE(w.ln, 255), z3.Implies(exc, srv(sw)))


def b64_char(b, urlsafe):
    return z3.Or(digit(b), alpha(b), (b == 45) if urlsafe else (b == 43), (b == 95) if urlsafe else (b == 47))


def hash_id(w, sigil):
    """v3: sigil + 43 standard-base64 chars ; v4+: sigil + 43 url-safe-base64 chars"""
    body = w.sub(bv(1), w.ln - 1)
    v3 = all_bytes(body, lambda b: b64_char(b, False))
    v4 = all_bytes(body, lambda b: b64_char(b, True))
    return z3.And(w.ln == 44, w.at(0) == sigil, z3.Or(v3, v4))


def event_id_strict(w, srv):
    """spec shapes: v1-2 `$opaque_id:server` ; v3/v4 `$` + 43 base64 chars"""
    return z3.Or(sigil_id(w, 36, srv, opaque_localpart), hash_id(w, 36))


def mxc_uri(w, srv, strict=False):
    """mxc://<server-name>/<media-id> ; media-id = *(ALPHA / DIGIT / "-" / "_").  Returns (predicate, index of the '/')"""
    pre = b'mxc://'
    haspre = z3.And(z3.UGE(w.ln, 6), *[w.at(i) == pre[i] for i in range(6)])
    rest = w.sub(bv(6), w.ln - 6)
    exs, sl = first_index(rest, lambda b: b == 47)
    sw = W(rest.base, rest.off, sl, rest.cap)
    media = rest.sub(sl + 1, rest.ln - sl - 1)
    okm = all_bytes(media, lambda b: z3.Or(digit(b), alpha(b), b == 45, b == 95))
    if strict:
        okm = z3.And(okm, z3.UGE(media.ln, 1))
    return z3.And(haspre, exs, srv(sw), okm), sl + 6


def key_id(w, key_name_ok):
    """algorithm ":" key_name with a non-empty algorithm; key_name_ok(window) is the per-key-type grammar"""
    exc, c = first_index(w, lambda b: b == 58)
    name = w.sub(c + 1, w.ln - c - 1)
    return z3.And(exc, z3.UGE(c, 1), key_name_ok(name)), c
