#!/usr/bin/env python3-vt
"""re-run a saved counterexample vector against the native build of /repo's current tree"""
import json, os, sys
sys.path.insert(0, os.path.dirname(os.path.abspath(__file__)))
from common import *

pid, path = sys.argv[1], sys.argv[2]
d = json.load(open(path))
C = Check(pid)
feats = d.get('features') or ['common', 'signatures', 'stateres', 'events']
C.build_replayer(feats)
v = d['vector']
req = {k: v[k] for k in v if k not in ('native', 's_repr')}
res = C.native(req)
print(json.dumps({'request': req, 'recorded': v.get('native'), 'now': res}, indent=1))
sys.exit(0 if res == v.get('native') else 3)
