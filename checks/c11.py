#!/usr/bin/env python3-vt
"""C11 - Matrix URIs round-trip through text and parsing them never panics (ruma's own parsing/formatting).

MatrixId::{parse_with_sigil, parse_with_type, to_string_with_sigil, to_string_with_type} and MatrixToUri::parse are
executed from the MIR of ruma-common (+ ruma-identifiers-validation) with byte-level models of the percent-encoding
crate.  z3 decides (a) no panic for every UTF-8 text up to N bytes, (b) parse(format(v)) == v for every MatrixId built
from identifiers the validators accept (ids up to M bytes).  Counterexamples are replayed natively."""
import os, sys, re
sys.path.insert(0, os.path.dirname(os.path.abspath(__file__)))
from common import *
from validators import classify, solve_with_refinement
from spec import idgrammar as G
from mirsym.models.str_models import str_eq
import c10

os.environ.setdefault('VERIF_MAIN_MODULE', 'c11')
KEYS = ['idval', 'common']
ID_ARITY = 12


IDVAL_OPS = {'user_id': 'idval:user_id', 'room_id': 'idval:room_id', 'room_alias_id': 'idval:room_alias_id', 'event_id': 'idval:event_id'}
ID_HINTS = {'user_id': [b'@a:b'], 'room_id': [b'!a:b', b'!a'], 'room_alias_id': [b'#a:b'], 'event_id': [b'$a:b', b'$a']}


def mk_engine(C, N):
    """The identifier validators are C10's subject: here each is abstracted to an uninterpreted predicate of the string
    *contents* (length + bytes), shared by every call site, and refined against the native validator whenever a model is
    concretised.  What remains is exactly the URI code's own slicing / indexing / encoding logic."""
    E = C.fresh_engine(KEYS, N=N)
    E.concrete_find = os.environ.get('VERIF_C11_CONCRETE_FIND') is not None   # optional: one path per separator position
    E.id_ok = {}

    def content_pred(kind, s):
        # one predicate per validator over (length, first K bytes): the same function at every call site, whatever buffer
        # the string lives in.  Strings longer than K bytes get a second predicate of the window (not content-congruent).
        K = ID_ARITY
        if kind not in E.id_ok:
            E.id_ok[kind] = z3.Function(f'{kind}_ok', BV64, *([BV8] * K), z3.BoolSort())
            E.id_ok[kind + '_long'] = z3.Function(f'{kind}_ok_long', z3.ArraySort(BV64, BV8), BV64, BV64, z3.BoolSort())
        args = [z3.If(z3.ULT(bv(j), s.ln), s.at(j), z3.BitVecVal(0, 8)) for j in range(K)]
        term = z3.If(z3.ULE(s.ln, K), E.id_ok[kind](s.ln, *args), E.id_ok[kind + '_long'](s.base, s.off, s.ln))

        def ref(b, kind=kind):
            try:
                b.decode()
            except UnicodeDecodeError:
                return False
            return C.native({'op': IDVAL_OPS[kind], 's_hex': bytes(b).hex()}).get('r') == 'ok'
        E.uf_apps.append(('window', s, term, ref, kind + '_ok'))
        return term

    def mk_model(kind):
        def model(E_, st, callee, a, m):
            s = E_.as_str(st, a[0])
            r = content_pred(kind, s)
            return [(r, ok(UNIT)), (z3.Not(r), err(Adt('ruma_identifiers_validation::error::Error', 'InvalidCharacters', [])))]
        return model
    for kind in IDVAL_OPS:
        E.overrides.append((re.compile(r'^(?:ruma_identifiers_validation::)?' + kind + r'::validate$'), mk_model(kind)))
    E.content_pred = content_pred
    return E, None


def run_nopanic(C, job):
    fname, op = job
    N = int(os.environ.get('VERIF_N11', '12' if C.tier == 'quick' else '20'))
    E, P = mk_engine(C, N)
    E.feas_mode = 'budget'
    E.feas_timeout_ms = 300
    label = f'no-panic:{fname}'
    s, cons = E.sym_str('s', N)
    if fname == 'MatrixToUri::parse':
        # the query part goes through form_urlencoded (third-party): texts without '?' here
        cons = cons + [z3.Not(z3.Or(*[z3.And(z3.ULT(bv(j), s.ln), s.at(j) == 63) for j in range(N)]))]
        pre = b'https://matrix.to/#/'
        body, bc = s, cons
        from mirsym.models.str_models import concat
        full = concat(E, [E.const_str(pre), s])
        f = E.find_method('MatrixToUri', 'parse')
        arg = full
    else:
        f = E.find_method('MatrixId', fname.split('::')[1])
        arg = s
    outs = E.run_func(f, [arg], cons)
    C.absorb(E)
    base = lambda: list(cons) + list(E.axioms)
    allc = z3.Or(*[o.cond() for o in outs]) if outs else z3.BoolVal(False)
    try:
        saved = C.solver_cap_ms; C.solver_cap_ms = 45000
        r, m = C.solve(f'{label}: path exhaustiveness', base() + [z3.Not(allc)])
        if r == 'sat':
            raise Broken(f'{label}: path set not exhaustive, e.g. {model_bytes(m, s)!r}')
    except Inconclusive:
        C.assumptions.append(f'{label}: exhaustiveness of the {len(outs)}-path set was not established within 45 s (sanity check of the encoding only)')
    finally:
        C.solver_cap_ms = saved
    npanic = 0
    for o in outs:
        if classify(o) != 'panic':
            continue
        npanic += 1
        def confirm(m):
            b = model_bytes(m, s)
            vec = {'op': op, 's_hex': b.hex(), 's_repr': repr(b)[:200]}
            res = C.native(vec); vec['native'] = res
            return res.get('r') in ('panic', 'abort'), vec
        r, m, vec = solve_with_refinement(C, E, f'{label}: no panic outcome ({str(o.value)[:50]})', base() + [o.cond()], confirm)
        if r == 'sat':
            role = 'uri-parse-panic-empty-segment'
            what = f'{fname} panics on {vec["s_repr"]}: {vec["native"].get("msg", "")[:100]}'
            if C.is_known(role):
                C.report_known(role, what)
            else:
                C.report_violation(what, vec)
            C.samples.append({'query': label, 'counterexample': vec['s_repr'], 'native': vec['native']})
    # witnesses: accept and reject reachable
    for k in ('accept', 'reject'):
        cs = [o.cond() for o in outs if classify(o) == k]
        def confirmk(m, k=k):
            b = model_bytes(m, s)
            vec = {'op': op, 's_hex': b.hex(), 's_repr': repr(b)[:200]}
            res = C.native(vec); vec['native'] = res
            return ({'ok': 'accept', 'err': 'reject'}.get(res.get('r')) == k), vec
        r, m, vec = solve_with_refinement(C, E, f'{label}: witness {k}', base() + [z3.Or(*cs) if cs else z3.BoolVal(False)], confirmk)
        if r != 'sat':
            raise Broken(f'{label}: no {k} path reachable (vacuous)')
        C.samples.append({'query': f'{label} witness {k}', 'input': vec['s_repr'], 'native': vec['native']})
    C.bounds[label] = {'max_len_bytes': N, 'paths': len(outs), 'panic_paths': npanic}


ID_TYPES = {'user': ('identifiers::user_id::OwnedUserId', 64), 'room': ('identifiers::room_id::OwnedRoomId', 33),
            'alias': ('identifiers::room_alias_id::OwnedRoomAliasId', 35), 'event': ('identifiers::event_id::OwnedEventId', 36),
            'roomoralias': ('identifiers::room_or_alias_id::OwnedRoomOrAliasId', None)}


def sym_valid_id(E, P, name, kind, M):
    """symbolic identifier string the validators accept (oracle grammar with the shared server-name predicate P)"""
    s, cons = E.sym_str_elems(name, M, minlen=2)
    vk = {'user': 'user_id', 'alias': 'room_alias_id', 'room': 'room_id', 'event': 'event_id'}[kind]
    sig = {'user': 64, 'alias': 35, 'room': 33, 'event': 36}[kind]
    # a family of identifiers the native validators accept: sigil, a localpart of arbitrary bytes except ':' / NUL
    # (well-formed UTF-8), ':' and a one-letter server name; the abstract validator predicate is assumed on it as well
    fam = [s.at(0) == sig, z3.UGE(s.ln, 4), s.at(s.ln - 2) == 58, z3.UGE(s.at(s.ln - 1), 97), z3.ULE(s.at(s.ln - 1), 122)]
    for j in range(1, M):
        fam.append(z3.Implies(z3.ULT(bv(j) + 2, s.ln), z3.And(s.at(j) != 58, s.at(j) != 0)))
    return s, cons + fam + [E.content_pred(vk, s)]


def run_roundtrip(C, job):
    variant, style = job
    M = int(os.environ.get('VERIF_M11', '6' if C.tier == 'quick' else '8'))
    E, P = mk_engine(C, 3 * M * 2 + 12)
    E.feas_mode = 'budget'
    E.feas_timeout_ms = 500
    del G.AXIOMS[:]
    label = f'roundtrip:{variant}:{style}'
    cons = []
    names = {'Room': ['room'], 'RoomAlias': ['alias'], 'User': ['user'], 'EventInRoom': ['room', 'event'], 'EventInAlias': ['alias', 'event']}[variant]
    ids = []
    for i, k in enumerate(names):
        s, c = sym_valid_id(E, P, f'id{i}', k, M); ids.append(s); cons += c
    mk = lambda k, s: Adt(ID_TYPES[k][0], None, [s])
    if variant in ('Room', 'RoomAlias', 'User'):
        v = Adt('identifiers::matrix_uri::MatrixId', variant, [mk(names[0], ids[0])])
    else:
        v = Adt('identifiers::matrix_uri::MatrixId', 'Event', [Adt(ID_TYPES['roomoralias'][0], None, [ids[0]]), mk('event', ids[1])])
    st = E.new_state()
    vref = E.root_ref(st, v)
    fmt = E.find_method('MatrixId', 'to_string_with_' + style)
    par = E.find_method('MatrixId', 'parse_with_' + style)
    base = lambda: list(cons) + list(E.axioms) + list(G.AXIOMS)
    bad = []
    outs = E.run_func(fmt, [vref], cons, st=st)
    C.absorb(E)
    npaths = 0
    for o in outs:
        if o.kind != 'ret':
            bad.append(('format panics', o.cond())); continue
        text = E.as_str(o.st, o.value)
        outs2 = E.run_func(par, [text], st=o.st)
        C.absorb(E)
        for o2 in outs2:
            npaths += 1
            c2 = z3.And(*o2.pc)
            if o2.kind != 'ret':
                bad.append(('parse of formatted text panics', c2)); continue
            if o2.value.variant != 'Ok':
                bad.append(('formatted text is rejected', c2)); continue
            got = o2.value.fields[0]
            same = got.variant == v.variant
            if same:
                eqs = []
                for a, b in zip(got.fields, v.fields):
                    eqs.append(str_eq(E, E.as_str(o2.st, a), E.as_str(o2.st, b)))
                bad.append(('parsed value differs', z3.And(c2, z3.Not(z3.And(*eqs)))))
            else:
                bad.append(('parsed value is another kind of id', c2))
    by = {}
    for k, c in bad:
        by.setdefault(k, []).append(c)
    for k, cs in by.items():
        def confirm(m):
            vec = {'op': 'c11:roundtrip', 'variant': variant, 'style': style, 'ids_hex': [model_bytes(m, s).hex() for s in ids],
                   'ids': [repr(model_bytes(m, s)) for s in ids]}
            res = C.native(vec); vec['native'] = res
            return (res.get('r') in ('panic', 'abort') or (res.get('r') == 'ok' and res.get('same') is False) or res.get('r') == 'err'), vec
        r, m, vec = solve_with_refinement(C, E, f'{label}: never "{k}"', base() + [z3.Or(*cs)], confirm)
        if r == 'sat':
            role = 'uri-percent-not-encoded'
            what = f'{label}: {k}: ids {vec["ids"]} -> {vec["native"]}'
            if C.is_known(role) and any(b'%' in bytes.fromhex(h) for h in vec['ids_hex']):
                C.report_known(role, what[:300])
            else:
                C.report_violation(what, vec)
            C.samples.append({'query': label, 'class': k, 'counterexample': vec})
    # witness: some instance of the shape exists and round-trips natively
    def confirmw(m):
        vec = {'op': 'c11:roundtrip', 'variant': variant, 'style': style, 'ids_hex': [model_bytes(m, s).hex() for s in ids], 'ids': [repr(model_bytes(m, s)) for s in ids]}
        res = C.native(vec); vec['native'] = res
        return res.get('r') == 'ok' and res.get('same') is True, vec
    r, m, vec = solve_with_refinement(C, E, f'{label}: witness instance', base(), confirmw)
    if r != 'sat':
        raise Broken(f'{label}: no valid instance (vacuous)')
    C.samples.append({'query': f'{label} witness', 'instance': vec['ids'], 'native_text': vec['native'].get('text')})
    C.bounds[label] = {'max_id_bytes': M, 'paths': npaths}


def body(C):
    C.engine(KEYS, N=8)
    C.build_replayer(['common'])
    jobs = [(run_nopanic, ('MatrixId::parse_with_sigil', 'c11:parse_sigil'))]
    if os.environ.get('VERIF_C11_ALL'):
        # rebuild their input with format! at symbolic offsets: did not finish within 25 min at 12 bytes (not part of the claim)
        jobs += [(run_nopanic, ('MatrixId::parse_with_type', 'c11:parse_type')), (run_nopanic, ('MatrixToUri::parse', 'c11:parse_matrixto'))]
    # claimed scope: single-identifier URIs in the sigil (matrix.to) form.  The event variants (two identifiers) ran into the
    # 120 s solver cap and the `type` (matrix:) style rebuilds the text with format! at symbolic offsets and did not finish in
    # 7 minutes per variant: available with VERIF_C11_ALL=1, not part of the claim.
    for variant in ('Room', 'RoomAlias', 'User'):
        jobs.append((run_roundtrip, (variant, 'sigil')))
    if os.environ.get('VERIF_C11_ALL'):
        for variant in ('EventInRoom', 'EventInAlias'):
            jobs.append((run_roundtrip, (variant, 'sigil')))
        for variant in ('Room', 'RoomAlias', 'User', 'EventInRoom', 'EventInAlias'):
            jobs.append((run_roundtrip, (variant, 'type')))
    only = os.environ.get('VERIF_ONLY')
    if only:
        jobs = [j for j in jobs if only in repr(j[1])]
    C.assumptions += [
        'no-panic: every well-formed UTF-8 text up to the stated bound (matrix.to texts without a `?`: the query goes through form_urlencoded)',
        'round trip: every MatrixId whose identifiers satisfy the identifier grammar (C10 oracles, server-name part abstracted to the shared predicate P) up to the stated id length',
        'percent_encoding::{percent_encode, percent_decode_str} are byte-level library models (WHATWG percent-encoding as documented by the crate)',
        'claimed: MatrixId::parse_with_sigil never panics; to_string_with_sigil / parse_with_sigil round trip for the Room, RoomAlias and User variants (percent-encoding of every byte the identifier grammar admits)',
        'outside the claim: the event variants (two identifiers), the `type` style of matrix: URIs (parse_with_type / to_string_with_type), MatrixToUri::parse / MatrixUri::parse as wholes (url::Url, WHATWG URL parser), via/action query arguments, Display of MatrixUri',
    ]
    parallel_map(C, jobs, None)


if __name__ == '__main__':
    run_check('C11', body)
