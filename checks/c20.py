#!/usr/bin/env python3-vt
"""C20 - power-level helper predicates agree with the authorization rules.

RoomPowerLevels::{for_user, for_message, for_state, user_can_*} and the RoomPowerLevelsEventContent defaults are executed
from the MIR of ruma-events on a symbolic power-level configuration (every level a symbolic integer in the JSON range,
`users` entries for actor and target present or absent, an `events` entry for the event type present or absent); z3
compares each helper with the condition under which the authorization rules (spec/auth_rules.py, the oracle C08 ties to
auth_check) accept the corresponding event from a joined actor.  Counterexamples are replayed natively."""
import os, sys, re
sys.path.insert(0, os.path.dirname(os.path.abspath(__file__)))
from common import *
from authsym import SymUser, mk_int, int_val, INT_MAX, install as install_auth

os.environ.setdefault('VERIF_MAIN_MODULE', 'c20')
KEYS = ['idval', 'common', 'events']
RPL = 'room::power_levels::RoomPowerLevels'
SPEC_DEFAULTS = {'ban': 50, 'events_default': 0, 'invite': 0, 'kick': 50, 'redact': 50, 'state_default': 50, 'users_default': 0}


def install_symmap(E):
    """BTreeMap with symbolic presence flags (same model as authsym's)"""
    class _W: pass
    install_auth(None, E, _W())


def body(C):
    E = C.engine(KEYS, N=8)
    E.feas_mode = 'budget'
    C.build_replayer(['events'])
    install_symmap(E)
    cons = []
    actor, target = SymUser('actor'), SymUser('target'); cons += actor.cons + target.cons
    lv = {}
    for n in list(SPEC_DEFAULTS) + ['notif_room', 'ev_entry', 'u_actor', 'u_target']:
        v = z3.BitVec('lv_' + n, 64); cons += [v >= -INT_MAX, v <= INT_MAX]; lv[n] = v
    p_actor, p_target, p_ev = z3.Bool('users_has_actor'), z3.Bool('users_has_target'), z3.Bool('events_has_type')
    # coinciding users share their entry
    cons.append(z3.Implies(actor.eq(target), z3.And(p_actor == p_target, lv['u_actor'] == lv['u_target'])))
    owned = lambda u: Adt('ruma_common::identifiers::user_id::OwnedUserId', None, [u.str])
    users = Obj('SymMap', ((owned(actor), mk_int(lv['u_actor']), p_actor), (owned(target), mk_int(lv['u_target']), p_target)))
    TET = 'enums::TimelineEventType'

    def events_map(variant):
        return Obj('SymMap', ((Adt(TET, variant, []), mk_int(lv['ev_entry']), p_ev),))
    names = E.src.structs[RPL]
    nnames = E.src.structs['room::power_levels::NotificationPowerLevels'] if 'room::power_levels::NotificationPowerLevels' in E.src.structs else None
    npl_ty = [k for k in E.src.structs if k.endswith('NotificationPowerLevels')][0]
    notif = Adt(npl_ty, None, [mk_int(lv['notif_room'])])

    def mk_rpl(ev_variant):
        vals = {'ban': mk_int(lv['ban']), 'events': events_map(ev_variant), 'events_default': mk_int(lv['events_default']), 'invite': mk_int(lv['invite']),
                'kick': mk_int(lv['kick']), 'redact': mk_int(lv['redact']), 'state_default': mk_int(lv['state_default']), 'users': users,
                'users_default': mk_int(lv['users_default']), 'notifications': notif}
        return Adt(RPL, None, [vals[n] for n in names])
    pl = lambda u, has, val: z3.If(has, val, lv['users_default'])
    plA, plT = pl(actor, p_actor, lv['u_actor']), pl(target, p_target, lv['u_target'])
    # the target's level when actor == target is the actor's (same entry by the constraint above)
    need_msg = z3.If(p_ev, lv['ev_entry'], lv['events_default'])
    need_state = z3.If(p_ev, lv['ev_entry'], lv['state_default'])
    need_redaction = need_msg      # m.room.redaction is a message-like event
    MLT, SETY = 'enums::MessageLikeEventType', 'enums::StateEventType'
    # (helper, event-type key in `events`, extra args, oracle from the authorization rules)
    A, T = actor.str, target.str
    cases = [
        ('for_user', 'RoomMessage', [A], 'int', plA),
        ('user_can_ban', 'RoomMessage', [A], 'bool', plA >= lv['ban']),
        ('user_can_ban_user', 'RoomMessage', [A, T], 'bool', z3.And(plA >= lv['ban'], plT < plA)),
        ('user_can_unban', 'RoomMessage', [A], 'bool', z3.And(plA >= lv['ban'], plA >= lv['kick'])),
        ('user_can_unban_user', 'RoomMessage', [A, T], 'bool', z3.And(plA >= lv['ban'], plA >= lv['kick'], plT < plA)),
        ('user_can_invite', 'RoomMessage', [A], 'bool', plA >= lv['invite']),
        ('user_can_kick', 'RoomMessage', [A], 'bool', plA >= lv['kick']),
        ('user_can_kick_user', 'RoomMessage', [A, T], 'bool', z3.And(plA >= lv['kick'], plT < plA)),
        ('user_can_send_message', 'RoomMessage', [A, Adt(MLT, 'RoomMessage', [])], 'bool', plA >= need_msg),
        ('user_can_send_state', 'RoomTopic', [A, Adt(SETY, 'RoomTopic', [])], 'bool', plA >= need_state),
        ('for_message', 'RoomMessage', [Adt(MLT, 'RoomMessage', [])], 'int', need_msg),
        ('for_state', 'RoomTopic', [Adt(SETY, 'RoomTopic', [])], 'int', need_state),
        ('user_can_redact_own_event', 'RoomRedaction', [A], 'bool', plA >= need_redaction),
        ('user_can_redact_event_of_other', 'RoomRedaction', [A], 'bool', z3.And(plA >= need_redaction, plA >= lv['redact'])),
        ('user_can_trigger_room_notification', 'RoomMessage', [A], 'bool', plA >= lv['notif_room']),
        ('user_can_change_user_power_level', 'RoomPowerLevels', [A, T], 'bool',
         z3.And(plA >= need_state, z3.Or(actor.eq(target), z3.Not(p_target), plA > lv['u_target']))),
    ]
    C.assumptions += [
        'power-level configuration: every level a symbolic integer in [-(2^53-1), 2^53-1]; `users` entries for actor and target present or absent; one `events` entry for the event type present or absent; notifications.room symbolic',
        'actor is a joined member; oracle = the comparisons the authorization rules (spec/auth_rules.py) make for ban / kick / unban / invite / send / redact / power-level change; memberships of the target are those the action applies to',
        'BTreeMap is the association-list library model; string-typed levels are a matter of deserialization (C08 seam), not of these helpers',
    ]
    for helper, evv, args, kind, oracle in cases:
        f = E.find_method('RoomPowerLevels', helper)
        st = E.new_state()
        sref = E.root_ref(st, mk_rpl(evv))
        outs = E.run_func(f, [sref] + args, cons, st=st)
        C.absorb(E)
        bad = []
        for o in outs:
            if o.kind != 'ret':
                bad.append(o.cond()); continue
            if kind == 'bool':
                bad.append(z3.And(o.cond(), o.value != oracle))
            else:
                bad.append(z3.And(o.cond(), int_val(o.value) != oracle))
        r, m = C.solve(f'{helper} agrees with the authorization rules', cons + list(E.axioms) + [z3.Or(*bad)])
        C.bounds[helper] = {'paths': len(outs)}
        ev = lambda t: m.eval(t, model_completion=True)
        sint = lambda t: (lambda x: x - (1 << 64) if x >= (1 << 63) else x)(ev(t).as_long())
        def vec_of(m):
            usersd = {}
            if z3.is_true(ev(p_actor)): usersd[actor.value(m)] = sint(lv['u_actor'])
            if z3.is_true(ev(p_target)): usersd[target.value(m)] = sint(lv['u_target'])
            evname = {'RoomMessage': 'm.room.message', 'RoomTopic': 'm.room.topic', 'RoomRedaction': 'm.room.redaction', 'RoomPowerLevels': 'm.room.power_levels'}[evv]
            content = {n: sint(lv[n]) for n in SPEC_DEFAULTS}
            content['users'] = usersd
            content['events'] = {evname: sint(lv['ev_entry'])} if z3.is_true(ev(p_ev)) else {}
            content['notifications'] = {'room': sint(lv['notif_room'])}
            return {'op': 'c20:helper', 'helper': helper, 'content': content, 'actor': actor.value(m), 'target': target.value(m), 'event_type': evname}
        if r == 'sat':
            vec = vec_of(m)
            res = C.native(vec); vec['native'] = res
            want = ev(oracle)
            wantv = z3.is_true(want) if kind == 'bool' else sint(oracle)
            vec['rules_say'] = wantv
            if res.get('r') == 'ok' and res.get('v') != wantv:
                C.report_violation(f'{helper}: helper answers {res.get("v")}, the authorization rules imply {wantv}: {vec}', vec)
                C.samples.append({'helper': helper, 'counterexample': vec})
            else:
                raise Broken(f'{helper}: model does not reproduce natively: {vec}')
        else:
            # witness + model validation: one concrete configuration through interpreter, oracle and native build
            r2, m = C.solve(f'{helper}: witness configuration', cons + list(E.axioms) + ([oracle] if kind == 'bool' else []))
            if r2 == 'sat':
                vec = vec_of(m)
                res = C.native(vec)
                C.model_validation += 1
                wantv = z3.is_true(ev(oracle)) if kind == 'bool' else sint(oracle)
                if res.get('r') != 'ok' or res.get('v') != wantv:
                    raise Broken(f'{helper}: witness disagrees natively: native {res}, oracle {wantv}: {vec}')
                C.samples.append({'helper': helper, 'witness': {'actor': vec['actor'], 'content': vec['content']}, 'native': res.get('v')})
    # defaults of a fresh power-levels content (what `From<RoomPowerLevelsEventContent>` sees for absent fields)
    fnew = E.find_method('RoomPowerLevelsEventContent', 'new')
    outs = E.run_func(fnew, [])
    if len(outs) == 1 and outs[0].kind == 'ret':
        cn = E.src.structs[[k for k in E.src.structs if k.endswith('RoomPowerLevelsEventContent') and 'Redacted' not in k][0]]
        got = {}
        for n, x in zip(cn, outs[0].value.fields):
            if n in SPEC_DEFAULTS and isinstance(x, Adt):
                c = x.fields[0].conc()
                got[n] = c
        C.queries.append({'name': 'RoomPowerLevelsEventContent::new() defaults == spec defaults', 'result': 'unsat' if got == SPEC_DEFAULTS else 'sat', 's': 0})
        if got != SPEC_DEFAULTS:
            vec = {'op': 'c20:defaults'}
            res = C.native(vec); vec['native'] = res
            if res.get('r') == 'ok' and {k: res['v'].get(k) for k in SPEC_DEFAULTS} != SPEC_DEFAULTS:
                C.report_violation(f'default power levels {res["v"]} differ from the specification {SPEC_DEFAULTS}', vec)
            else:
                raise Broken(f'defaults mismatch does not reproduce natively: interpreter {got}, native {res}')
        C.samples.append({'defaults_from_mir': got})
    else:
        C.inconclusive.append(f'RoomPowerLevelsEventContent::new() not a single path: {outs}')


if __name__ == '__main__':
    run_check('C20', body)
