#!/usr/bin/env python3-vt
"""C17 - entry points for untrusted wire data never panic.

Per entry point whose code is ruma's own (byte/character-level scanners with index arithmetic), every input up to the
stated size is decided by the solver: no path ends in a panic (index out of range, slice off a char boundary, unwrap on
None, arithmetic overflow in debug builds, explicit assert).
  V  identifier validators with `as u8` truncations / direct indexing (mxc_uri, key_id): every UTF-8 string <= 300 bytes
     (the C10 harness: also decides the returned index).
  U  MatrixId::parse_with_sigil (the parser behind matrix.to and matrix: URIs): every UTF-8 string up to the bound (C11 harness;
     parse_with_type / MatrixToUri::parse build their input for it with format! and did not finish within 25 min: not claimed).
  H  Content-Disposition header value: TryFrom<&[u8]> on every byte string up to the bound (decode_value's lossy UTF-8 /
     percent decoding are library calls and abstracted).
  W  push word matching (`char_at` / `find_prev_char` with slicing at computed offsets) on every UTF-8 value / literal
     pattern up to the bound, multi-byte characters included.
  K  the ring-compatibility rewrite of PKCS#8 documents (Ed25519KeyPair::from_der): Kani over the compiled code, every
     byte string <= 8 bytes (through the cfg(ruma_verif) hook), and
  D  the same rewrite from MIR on every byte string <= 300 bytes (Vec<u8> modelled as a byte string), which puts the wrap-around
     of the one-byte DER length (`doc.len() as u8 - 2`) inside the bound.
  Ruleset edits (`move_index` past the end etc.) are decided by C13 and cited.
Outside the claim: serde_json / serde-derive driven entry points (events, Raw), html5ever, http_auth's challenge parser
(XMatrix), url::Url - third-party code that neither engine can encode; stack depth and termination of the recursive HTML
walks."""
import os, sys, re, itertools
sys.path.insert(0, os.path.dirname(os.path.abspath(__file__)))
from common import *
import c10, c11

os.environ.setdefault('VERIF_MAIN_MODULE', 'c17')


def panic_queries(C, E, label, outs, cons, describe, native_vec, known_role=None):
    """one query per panic outcome; sat -> native replay -> VIOLATION"""
    npanic = 0
    for o in outs:
        if o.kind == 'ret':
            continue
        msg = str(o.value)
        if 'OUT-OF-MODEL' in msg:
            r, m = C.solve(f'{label}: out-of-model path unreachable ({msg[:50]})', cons + list(E.axioms) + [o.cond()])
            if r == 'sat':
                C.inconclusive.append(f'{label}: an input leaves the model: {msg[:80]}: {describe(m)}')
            continue
        npanic += 1
        r, m = C.solve(f'{label}: no panic ({msg[:60]})', cons + list(E.axioms) + [o.cond()])
        if r == 'sat':
            vec = native_vec(m)
            res = C.native(vec); vec['native'] = res
            if res.get('r') in ('panic', 'abort'):
                what = f'{label} panics on {describe(m)}: {res.get("msg", "")[:120]}'
                if known_role and C.is_known(known_role):
                    C.report_known(known_role, what)
                else:
                    C.report_violation(what, vec)
                C.samples.append({'query': label, 'counterexample': describe(m), 'native': res})
            else:
                raise Broken(f'{label}: panic model does not reproduce natively: {describe(m)} -> {res}')
    return npanic


# ------------------------------------------------------------------------------------------------ H content-disposition
def run_content_disposition(C, job):
    N = job
    E = C.fresh_engine(['common'], N=N)
    E.feas_mode = 'budget'; E.feas_timeout_ms = 1000; E.feas_fresh = True; E.concrete_find = True
    E.max_steps = 4000000
    b, cons = E.sym_str_elems('header', N, utf8=False)
    b = Str(b.base, b.off, b.ln, False, b.cap, b.cbytes, b.abs_cap, b.elems)
    # decode_value: lossy UTF-8 / RFC 8187 percent decoding are library calls: any Option<String>
    dv = [0]

    def decode_value(E_, st, callee, a, m):
        dv[0] += 1
        okv = z3.Bool(f'decoded_{dv[0]}')
        return [(okv, some(Obj('String', E_.const_str(b'name')))), (z3.Not(okv), NONE)]
    E.overrides.insert(0, (re.compile(r'^http_headers::content_disposition::RawParam::decode_value$'), decode_value))
    f = E.find_method('ContentDisposition', 'try_from', trait='TryFrom', pick=lambda fn: '[u8]' in fn.args[0][1])
    outs = E.run_func(f, [b], cons)
    C.absorb(E)
    hexs = lambda m: model_bytes(m, b).hex()
    n = panic_queries(C, E, f'ContentDisposition::try_from(&[u8]) <= {N} bytes', outs, cons,
                      lambda m: repr(model_bytes(m, b)), lambda m: {'op': 'c17:content_disposition', 's_hex': hexs(m)})
    C.bounds[f'content_disposition:{N}'] = {'max_len_bytes': N, 'paths': len(outs), 'panic_paths': n}
    for k, sel in (('accepted', lambda o: o.kind == 'ret' and o.value.variant == 'Ok'), ('rejected', lambda o: o.kind == 'ret' and o.value.variant == 'Err')):
        cs = [o.cond() for o in outs if sel(o)]
        r, m = C.solve(f'content-disposition witness ({k})', cons + list(E.axioms) + [z3.Or(*cs) if cs else z3.BoolVal(False)])
        if r != 'sat':
            raise Broken(f'content-disposition: no {k} path (vacuous harness)')
        vec = {'op': 'c17:content_disposition', 's_hex': hexs(m)}
        res = C.native(vec)
        C.model_validation += 1
        if {'ok': 'accepted', 'err': 'rejected'}.get(res.get('r')) != k:
            raise Broken(f'content-disposition witness {k} behaves differently natively: {model_bytes(m, b)!r} -> {res}')
        C.samples.append({'content_disposition_witness': k, 'input': repr(model_bytes(m, b)), 'native': res.get('r')})


# ------------------------------------------------------------------------------------------------ W word matching, UTF-8
def run_word_utf8(C, job):
    NV, NP = job
    E = C.fresh_engine(['idval', 'common'], N=NV)
    E.feas_mode = 'budget'; E.feas_timeout_ms = 2000; E.feas_fresh = True; E.concrete_find = True
    E.max_frames = 200
    from mirsym.engine import utf8_wf
    f = E.find_method('str', 'matches_word', trait='StrExt')

    def exact(name, L):
        """every well-formed UTF-8 text of exactly L bytes (concrete length: offsets downstream stay concrete)"""
        elems = [z3.BitVec(f'{name}{L}_b{j}', 8) for j in range(L)]
        s_ = Str(z3.K(z3.BitVecSort(64), z3.BitVecVal(0, 8)), bv(0), bv(L), True, L, None, L, elems)
        return s_, utf8_wf(s_, L)
    n, npaths, last = 0, 0, None
    for lv in range(0, NV + 1):
        for lp in range(0, NP + 1):
            val, c1 = exact('v', lv)
            pat, c2 = exact('p', lp)
            cons = c1 + c2 + [z3.And(pat.at(j) != 0x3F, pat.at(j) != 0x2A) for j in range(lp)]
            del E.axioms[:]
            outs = E.run_func(f, [val, pat], cons)
            C.absorb(E)
            npaths += len(outs)

            def vec(m, val=val, pat=pat):
                return {'op': 'c12:condition', 'condition': {'kind': 'event_match', 'key': 'content.body', 'pattern': model_bytes(m, pat).decode('utf-8', 'replace')},
                        'event': {'content': {'body': model_bytes(m, val).decode('utf-8', 'replace')}, 'sender': '@a:x', 'type': 'm.room.message'}, 'ctx': {'user_id': '@me:x', 'room_id': '!r:x'}}
            n += panic_queries(C, E, f'matches_word on UTF-8 text (value {lv} bytes, literal pattern {lp} bytes)', outs, cons,
                               lambda m, val=val, pat=pat: f'value {model_bytes(m, val)!r} pattern {model_bytes(m, pat)!r}', vec)
            if lv >= 3 and lp >= 1:
                last = (val, pat, cons, vec)
    C.bounds[f'word_utf8:{NV}x{NP}'] = {'value_bytes': NV, 'pattern_bytes': NP, 'paths': npaths, 'panic_paths': n}
    # witness with a multi-byte character, through the native build
    val, pat, cons, vec = last
    r, m = C.solve('matches_word witness with a multi-byte character', cons + list(E.axioms) + [z3.UGE(val.at(0), 0xC2)])
    if r == 'sat':
        res = C.native(vec(m))
        C.model_validation += 1
        if res.get('r') != 'ok':
            raise Broken(f'word witness fails natively: {res}')
        C.samples.append({'word_utf8_witness': [repr(model_bytes(m, val)), repr(model_bytes(m, pat))], 'native': res.get('v')})


# ------------------------------------------------------------------------------------------------ D ring-compat rewrite, long documents
def run_ring_compat(C, job):
    """CompatibleDocument::from_bytes / fix_ring_doc on every byte string up to N bytes (N > 257: the one-byte DER length and its
    `as u8` arithmetic wrap there); Vec<u8> is modelled as a byte string (harness-level models of the six Vec operations used)"""
    N = job
    E = C.fresh_engine(['idval', 'common', 'signatures'], N=N)
    E.feas_mode = 'budget'; E.feas_timeout_ms = 2000
    from mirsym.models.str_models import find_pred, match_at, sub, concat, slice_str
    OV = E.overrides
    S_ = lambda st, v: E.as_str(st, v)
    OV.insert(0, (re.compile(r'^std::slice::<impl \[u8\]>::to_vec$|^<std::vec::Vec as std::ops::Deref>::deref$'), lambda E_, st, c, a, m: [(TRUE, S_(st, a[0]))]))
    OV.insert(0, (re.compile(r'^<\[u8\] as subslice::SubsliceExt>::find$'),
                  lambda E_, st, c, a, m: find_pred(E_, S_(st, a[0]), lambda i: match_at(E_, S_(st, a[0]), i, S_(st, a[1])))))

    def index(E_, st, callee, a, m):
        s_ = S_(st, a[0]); i = E_.deref(st, a[1])
        if isinstance(i, I):
            okc = z3.ULT(i.v, s_.ln)
            return [(okc, E_.alloc(st, I(s_.at(i.v), 8))), (z3.Not(okc), Panic('index out of bounds'))]
        lo = E_.deref(st, i.fields[0]).v           # RangeFrom
        return slice_str(E_, s_, lo, s_.ln, check_boundary=False)
    OV.insert(0, (re.compile(r'^<std::vec::Vec as std::ops::Index(?:Mut)?>::index(?:_mut)?$'), index))

    def split_off(E_, st, callee, a, m):
        s_ = S_(st, a[0]); at = E_.deref(st, a[1]).v
        okc = z3.ULE(at, s_.ln)
        def eff(st2): E_.store(st2, a[0], sub(s_, bv(0), at))
        return [(okc, sub(s_, at, s_.ln - at), eff), (z3.Not(okc), Panic('`at` split index out of bounds'))]
    OV.insert(0, (re.compile(r'^std::vec::Vec::split_off$'), split_off))

    def extend(E_, st, callee, a, m):
        s_ = S_(st, a[0]); o_ = S_(st, a[1])
        def eff(st2): E_.store(st2, a[0], concat(E_, [s_, o_], is_str=False))
        return [(TRUE, UNIT, eff)]
    OV.insert(0, (re.compile(r'^<std::vec::Vec as std::iter::Extend>::extend$'), extend))
    b, cons = E.sym_str('doc', N, utf8=False)
    b = Str(b.base, b.off, b.ln, False, b.cap, b.cbytes, b.abs_cap, b.elems)
    f = E.find_method('CompatibleDocument', 'from_bytes')
    outs = E.run_func(f, [b], cons)
    C.absorb(E)
    n = panic_queries(C, E, f'Ed25519KeyPair::from_der ring-compat rewrite, documents <= {N} bytes', outs, cons,
                      lambda m: f'{len(model_bytes(m, b))}-byte document {model_bytes(m, b)[:8].hex()}..', lambda m: {'op': 'c17:ring_compat', 's_hex': model_bytes(m, b).hex()})
    C.bounds[f'ring_compat:{N}'] = {'max_len_bytes': N, 'paths': len(outs), 'panic_paths': n}
    for k, sel in (('rewritten', lambda o: o.kind == 'ret' and o.value.variant == 'CleanedFromRing'), ('passed through', lambda o: o.kind == 'ret' and o.value.variant == 'WellFormed')):
        cs = [o.cond() for o in outs if sel(o)]
        r, m = C.solve(f'ring-compat witness ({k})', cons + list(E.axioms) + [z3.Or(*cs) if cs else z3.BoolVal(False)] + ([z3.UGT(b.ln, 100)] if k == 'rewritten' else []))
        if r != 'sat':
            raise Broken(f'ring-compat: no {k} path (vacuous harness)')
        res = C.native({'op': 'c17:ring_compat', 's_hex': model_bytes(m, b).hex()})
        C.model_validation += 1
        if res.get('r') != 'ok' or (res.get('rewritten_len') is not None) != (k == 'rewritten'):
            raise Broken(f'ring-compat witness {k} behaves differently natively: {res}')
        C.samples.append({'ring_compat_witness': k, 'len': len(model_bytes(m, b)), 'native': res})


def body(C):
    C.engine(['idval', 'common', 'signatures'], N=8)
    C.build_replayer(['signatures'])
    quick = C.tier == 'quick'
    jobs = [(c10.run_target, 'mxc_uri'), (c10.run_target, 'key_id_any'),
            (c11.run_nopanic, ('MatrixId::parse_with_sigil', 'c11:parse_sigil')),
            (run_content_disposition, 4 if quick else 5),
            (run_word_utf8, (6, 4) if quick else (7, 4)),
            (run_ring_compat, 300)]
    parts = os.environ.get('VERIF_PARTS')
    if parts:
        jobs = [j for j in jobs if any(p in j[0].__name__ or p in repr(j[1]) for p in parts.split(','))]
    C.assumptions += [
        'decided entry points: identifier validators mxc_uri / key_id (<= 300 bytes), MatrixId::parse_with_sigil (bound in coverage.bounds), ContentDisposition::try_from(&[u8]), push word matching on UTF-8 text, the ring-compat rewrite in Ed25519KeyPair::from_der (MIR <= 300 bytes; Kani <= 8 bytes); ruleset edits are decided by C13',
        'library calls below the seam: String::from_utf8_lossy, percent decoding and charset checks in RawParam::decode_value (arbitrary Option<String>), percent_encoding, server-name validation summary (C10 level A)',
        'outside the claim: serde_json / serde-derive driven deserialization (events, Raw<T>, endpoint bodies), html5ever (HTML), http_auth challenge parser (XMatrix), url::Url; nesting depth, stack exhaustion, termination and "a rejected input has no effect on later calls" (the decided functions are pure: they take the input by reference and own no state)',
    ]
    if not parts or 'kani' in parts:
        from kani_run import kani_check
        kani_check(C, [('c17_ring_compat_document_no_panic',
                        'Ed25519KeyPair::from_der: CompatibleDocument::from_bytes / fix_ring_doc (keys/compat.rs) through the cfg(ruma_verif) hook verif_compatible_document',
                        'every byte string of at most 8 bytes; unwind 10 with unwinding assertions')], timeout_s=600)
    parallel_map(C, jobs, None)


if __name__ == '__main__':
    run_check('C17', body)
