"""js_int::{Int, UInt}: integers restricted to the JavaScript-safe range, represented as Adt('js_int::Int', [i64])."""
import re
import z3
from ..values import *
from . import model_decorator

T = TRUE
MAXI = (1 << 53) - 1


def register(E):
    model = model_decorator(E.models)

    def d(st, v):
        return E.deref(st, v)

    def mk(kind, v):
        return Adt('js_int::' + kind, None, [I(v, 64, kind == 'Int')])

    E.const_models = getattr(E, 'const_models', {})
    E.const_models['js_int::Int::MAX'] = mk('Int', z3.BitVecVal(MAXI, 64))
    E.const_models['js_int::Int::MIN'] = mk('Int', z3.BitVecVal(-MAXI, 64))
    E.const_models['js_int::UInt::MAX'] = mk('UInt', z3.BitVecVal(MAXI, 64))
    E.const_models['js_int::UInt::MIN'] = mk('UInt', z3.BitVecVal(0, 64))

    @model(r'^<js_int::(Int|UInt) as std::default::Default>::default$')
    def _(E, st, callee, a, m):
        return [(T, mk(m.group(1), z3.BitVecVal(0, 64)))]

    @model(r'^<js_int::(Int|UInt) as std::convert::From>::from$')
    def _(E, st, callee, a, m):
        kind = m.group(1)
        x = d(st, a[0])
        if isinstance(x, Adt):      # From<UInt> for Int
            return [(T, mk(kind, x.fields[0].v))]
        v = z3.SignExt(64 - x.w, x.v) if x.s and x.w < 64 else (z3.ZeroExt(64 - x.w, x.v) if x.w < 64 else x.v)
        return [(T, mk(kind, v))]

    @model(r'^<(i64|u64|i128|u128|f64|usize|isize) as std::convert::From>::from$')
    def _(E, st, callee, a, m):
        x = d(st, a[0])
        if isinstance(x, Adt) and x.ty.startswith('js_int::'):
            w, sg = INT_TYPES.get(m.group(1), (64, True))
            if m.group(1) == 'f64':
                raise Inconclusive('Int -> f64')
            v = x.fields[0]
            return [(T, E.cast(st, v, m.group(1), 'IntToInt'))]
        return None

    @model(r'^<js_int::(Int|UInt) as std::convert::TryFrom>::try_from$|^js_int::(Int|UInt)::(new|new_saturating|new_wrapping)$')
    def _(E, st, callee, a, m):
        kind = m.group(1) or m.group(2)
        op = m.group(3) or 'try_from'
        x = d(st, a[0])
        if isinstance(x, Adt):
            x = x.fields[0]
        W = 72
        ext = z3.SignExt(W - x.w, x.v) if x.s else z3.ZeroExt(W - x.w, x.v)
        lo = -MAXI if kind == 'Int' else 0
        fits = z3.And(ext >= lo, ext <= MAXI)
        val = mk(kind, z3.Extract(63, 0, ext))
        if op == 'try_from':
            return [(fits, ok(val)), (z3.Not(fits), err(Opaque('TryFromIntError')))]
        if op == 'new':
            return [(fits, some(val)), (z3.Not(fits), NONE)]
        if op == 'new_saturating':
            sat = z3.If(ext > MAXI, z3.BitVecVal(MAXI, 64), z3.If(ext < lo, z3.BitVecVal(lo, 64), z3.Extract(63, 0, ext)))
            return [(T, mk(kind, sat))]
        raise Inconclusive('js_int ' + op)

    @model(r'^js_int::(Int|UInt)::(checked_add|checked_sub|checked_mul|saturating_add|saturating_sub|is_negative|is_positive|abs|min_value|max_value)$')
    def _(E, st, callee, a, m):
        kind, op = m.group(1), m.group(2)
        lo = -MAXI if kind == 'Int' else 0
        if op == 'min_value': return [(T, mk(kind, z3.BitVecVal(lo, 64)))]
        if op == 'max_value': return [(T, mk(kind, z3.BitVecVal(MAXI, 64)))]
        x = d(st, a[0]).fields[0].v
        if op == 'is_negative': return [(T, x < 0)]
        if op == 'is_positive': return [(T, x > 0)]
        y = d(st, a[1]).fields[0].v
        W = 72
        X, Y = z3.SignExt(8, x), z3.SignExt(8, y)
        r = {'checked_add': X + Y, 'checked_sub': X - Y, 'saturating_add': X + Y, 'saturating_sub': X - Y}.get(op)
        if r is None:
            raise Inconclusive('js_int ' + op)
        fits = z3.And(r >= lo, r <= MAXI)
        if op.startswith('checked'):
            return [(fits, some(mk(kind, z3.Extract(63, 0, r)))), (z3.Not(fits), NONE)]
        sat = z3.If(r > MAXI, z3.BitVecVal(MAXI, 64), z3.If(r < lo, z3.BitVecVal(lo, 64), z3.Extract(63, 0, r)))
        return [(T, mk(kind, sat))]
