"""Symbolic world for ruma-signatures: the cryptographic and serialization primitives are library code (ed25519-dalek,
sha2, base64, serde_json); they are replaced by *tagged opaque values* so that the solver decides the protocol logic ruma
owns: which object (which fields removed, redacted or not) is serialized, what is hashed / signed / compared, where results
are stored, which signers are demanded, and the size limit.

  serde_json::to_string(map)         -> a fresh string per distinct map content (snapshot of keys and value identities),
                                        symbolic length; equal contents give the same string, different contents different ones
  Sha256::digest(bytes)              -> Digest(snapshot)          (collision-free by construction)
  base64 encode / Base64::parse      -> B64(alphabet, padding, payload) / its inverse on tagged strings
  KeyPair::sign(bytes)               -> Sig(key pair, snapshot);  Verifier::verify_json(pk, sig, msg) holds iff the signature was
                                        made over the same snapshot by the key pair whose public key is pk (ideal signature scheme)
  canonical_json::redact             -> an arbitrary object of the enumerated shape, recorded together with its arguments (C04
                                        decides what redact keeps)
"""
import re, itertools
import z3
from common import *

CJV = 'ruma_common::canonical_json::value::CanonicalJsonValue'
S = lambda E, b: Obj('String', E.const_str(b))


def cjv_str(E, b): return Adt(CJV, 'String', [S(E, b) if isinstance(b, bytes) else b])
def cjv_obj(m): return Adt(CJV, 'Object', [m])
def cjv_int(n): return Adt(CJV, 'Integer', [Adt('js_int::Int', None, [I(z3.BitVecVal(n, 64), 64)])])


def snapshot(E, st, mp):
    """structural key of a map value: ((key bytes, value key), ...) ; nested objects recursively, other values by identity"""
    mp = E.deref(st, mp)
    if not (isinstance(mp, Obj) and mp.kind == 'Map'):
        raise Inconclusive(f'serialization of {mp!r}')
    out = []
    for k, v in mp.data[1]:
        kb = E.as_str(st, k).conc()
        if kb is None:
            raise Inconclusive('object with a symbolic key')
        out.append((kb, value_key(E, st, v)))
    return tuple(sorted(out))


def value_key(E, st, v):
    v = E.deref(st, v)
    if isinstance(v, Adt) and v.ty.endswith('CanonicalJsonValue'):
        if v.variant == 'Object':
            return ('obj', snapshot(E, st, v.fields[0]))
        if v.variant == 'String':
            s = E.as_str(st, v.fields[0])
            c = s.conc()
            return ('str', c if c is not None else ('sym', s.base.get_id(), tuple(e.get_id() for e in s.elems) if s.elems is not None else None))
        if v.variant == 'Integer':
            return ('int', str(z3.simplify(E.deref(st, v.fields[0]).fields[0].v)))
        return (v.variant,)
    if isinstance(v, Opaque):
        return ('opaque', str(v))
    return ('id', id(v))


class Sig:
    def __init__(self, C, E, symbolic_len=True):
        self.C, self.E, self.symbolic_len = C, E, symbolic_len
        self.tags = {}          # id of the z3 base array of an opaque string -> tag
        self.json_cache = {}    # snapshot -> Str
        self.calls = []         # record of primitive calls (for the queries)
        self.n = 0
        OV = E.overrides
        OV.insert(0, (re.compile(r'^serde_json::to_string$'), self.to_string))
        OV.insert(0, (re.compile(r'^.*Digest>::digest$'), self.digest))
        OV.insert(0, (re.compile(r'^<sha2::digest::generic_array::GenericArray as std::convert::Into>::into$'), lambda E_, st, c, a, m: [(TRUE, a[0])]))
        OV.insert(0, (re.compile(r'^base64::engine::GeneralPurpose::new$'), self.engine_new))
        OV.insert(0, (re.compile(r'^<base64::engine::GeneralPurpose as base64::Engine>::encode$'), self.engine_encode))
        OV.insert(0, (re.compile(r'^ruma_common::serde::(?:base64::)?Base64::encode$'), self.b64_encode))
        OV.insert(0, (re.compile(r'^ruma_common::serde::(?:base64::)?Base64::parse$'), self.b64_parse))
        # key ids of signatures are `KeyId<SigningKeyAlgorithm, AnyKeyName>`: AnyKeyName accepts every key name (key_name.rs)
        OV.append((re.compile(r'^<K as (?:ruma_identifiers_validation::)?KeyName>::validate$'), lambda E_, st, c, a, m: [(TRUE, ok(UNIT))]))
        OV.insert(0, (re.compile(r'^ruma_common::serde::(?:base64::)?Base64::as_bytes$'), lambda E_, st, c, a, m: [(TRUE, E_.deref(st, E_.deref(st, a[0]).fields[0]))]))

        def bytes_eq(E_, st, c, a, m):
            x, y = E_.deref(st, a[0]), E_.deref(st, a[1])
            if isinstance(x, Obj) and isinstance(y, Obj) and x.kind in ('Digest', 'SigBytes', 'PubKey'):
                return [(TRUE, z3.BoolVal(x.kind == y.kind and x.data == y.data))]
            return None
        OV.insert(0, (re.compile(r'^<&\[u8\] as std::cmp::PartialEq>::eq$|^<\[u8\] as std::cmp::PartialEq>::eq$'), bytes_eq))
        # KeyId::<SigningKeyAlgorithm, _>::algorithm: the impl's generic parameter A is SigningKeyAlgorithm at every call site here
        def alg_from(E_, st, c, a, m):
            return E_.outs_to_model(E_.call_value(st, FnItem('<ruma_common::identifiers::crypto_algorithms::SigningKeyAlgorithm as std::convert::From<&str>>::from', 'common'), [a[0]]))
        OV.append((re.compile(r'^<A as std::convert::From>::from$'), alg_from))
        E.const_models = getattr(E, 'const_models', {})
        E.const_models['base64::alphabet::STANDARD'] = Obj('Alphabet', 'standard')
        E.const_models['base64::alphabet::URL_SAFE'] = Obj('Alphabet', 'url_safe')
        E.const_models['base64::engine::general_purpose::NO_PAD'] = Obj('B64Config', 'no_pad')
        E.const_models['base64::engine::general_purpose::PAD'] = Obj('B64Config', 'pad')

    def fresh_str(self, tag, name):
        self.n += 1
        arr = z3.Array(f'{name}_{self.n}', z3.BitVecSort(64), z3.BitVecSort(8))
        ln = z3.BitVec(f'{name}_len_{self.n}', 64) if (self.symbolic_len or name != 'json') else bv(100)
        s = Str(arr, bv(0), ln, True, self.E.N)
        self.tags[arr.get_id()] = tag
        return s

    def tag_of(self, st, v):
        s = self.E.as_str(st, v)
        return self.tags.get(s.base.get_id())

    # ---- serialization
    def to_string(self, E_, st, callee, a, m):
        snap = snapshot(E_, st, a[0])
        if snap not in self.json_cache:
            self.json_cache[snap] = self.fresh_str(('json', snap), 'json')
        s = self.json_cache[snap]
        self.calls.append(('to_string', snap))
        st.note(('to_string', snap))
        return [(TRUE, ok(Obj('String', s)))]

    def digest(self, E_, st, callee, a, m):
        t = self.tag_of(st, a[0])
        if t is None or t[0] != 'json':
            raise Inconclusive('Sha256::digest of something that is not a serialized object')
        st.note(('digest', t[1]))
        return [(TRUE, Obj('Digest', t[1]))]

    def engine_new(self, E_, st, callee, a, m):
        alpha, cfg = E_.deref(st, a[0]), E_.deref(st, a[1])
        return [(TRUE, Obj('B64Engine', (alpha.data, cfg.data)))]

    def engine_encode(self, E_, st, callee, a, m):
        eng, payload = E_.deref(st, a[0]), E_.deref(st, a[1])
        s = self.fresh_str(('b64', eng.data[0], eng.data[1], payload), 'b64')
        return [(TRUE, Obj('String', s))]

    def b64_encode(self, E_, st, callee, a, m):
        b = E_.deref(st, a[0])
        payload = E_.deref(st, b.fields[0])
        s = self.fresh_str(('b64', 'standard', 'no_pad', payload), 'b64')
        return [(TRUE, Obj('String', s))]

    def b64_parse(self, E_, st, callee, a, m):
        t = self.tag_of(st, a[0])
        ty = 'ruma_common::serde::base64::Base64'
        if t is None:
            raise Inconclusive('Base64::parse of an untagged string')
        if t[0] == 'b64' and t[1] == 'standard':
            names = E_.src.structs.get('serde::base64::Base64')
            return [(TRUE, ok(Adt(ty, None, [t[3], Opaque('phantom')])))]
        if t[0] == 'not-base64':
            return [(TRUE, err(Opaque('Base64DecodeError')))]
        raise Inconclusive(f'Base64::parse of {t[0]}')

    def not_base64(self):
        return self.fresh_str(('not-base64',), 'junk')


def mk_map(E, entries):
    """entries: [(key bytes, value)] -> BTreeMap<String, V> (association-list model, keys sorted as a BTreeMap iterates)"""
    return E.mk_map('BTreeMap', [(S(E, k), v) for k, v in sorted(entries)])


def install_entry_api(E):
    """BTreeMap::entry / Entry::or_insert_with on the association-list model"""
    from mirsym.models.core_models import deep_eq

    def entry(E_, st, callee, a, m):
        return [(TRUE, Obj('MapEntry', (a[0], a[1])))]
    E.overrides.append((re.compile(r'^std::collections::BTreeMap::entry$'), entry))

    def or_insert_with(E_, st, callee, a, m):
        ent = E_.deref(st, a[0])
        mref, key = ent.data
        mp = E_.deref(st, mref)
        kind, ents = mp.data
        kb = E_.as_str(st, key).conc()
        base = mref
        while isinstance(base, Ref):
            nxt = E_.read_ref(st, base)
            if isinstance(nxt, Ref): base = nxt
            else: break
        for i, (k, v) in enumerate(ents):
            if E_.as_str(st, k).conc() == kb:
                return [(TRUE, Ref(base.frame, base.local, base.proj + (('mapval', i),)))]
        op = m.group(1)
        if op == 'or_insert':
            outs = [(TRUE, a[1], None)]
        else:
            outs = [(c, o.value, o.st) for c, o in E_.call_value(st, a[1], []) if o.kind == 'ret']
        res = []
        for c, val, s_after in outs:
            def eff(st2, val=val, s_after=s_after):
                if s_after is not None:
                    st2.heap = dict(s_after.heap); st2.notes = s_after.notes
                    for fid, fr in s_after.fmap.items():
                        if fid in st2.fmap: st2.fmap[fid].locs = dict(fr.locs)
                new = sorted(list(ents) + [(key, val)], key=lambda kv: E_.as_str(st2, kv[0]).conc())
                E_.store(st2, mref, E_.mk_map(kind, new))
                idx = [i for i, (k, v) in enumerate(new) if k is key][0]
                return Ref(base.frame, base.local, base.proj + (('mapval', idx),))
            res.append((c, None, eff))
        return res
    E.overrides.append((re.compile(r'^std::collections::btree_map::Entry::(or_insert_with|or_insert)$'), or_insert_with))
