"""Oracle for C19: spellings of string-valued protocol enums taken from the Matrix specification (v1.14 and
earlier), keyed by the enum's type name.  Each entry maps the Rust variant name to the wire spelling the spec
prescribes.  Only enums listed here get the "each specified spelling maps to its dedicated variant" check against the
spec; every discovered enum gets the self-consistency and rename-rule checks."""

SPEC = {
    # client-server: presence
    'PresenceState': {'Offline': 'offline', 'Online': 'online', 'Unavailable': 'unavailable'},
    # m.room.member
    'MembershipState': {'Ban': 'ban', 'Invite': 'invite', 'Join': 'join', 'Knock': 'knock', 'Leave': 'leave'},
    # m.room.history_visibility
    'HistoryVisibility': {'Invited': 'invited', 'Joined': 'joined', 'Shared': 'shared', 'WorldReadable': 'world_readable'},
    # m.room.guest_access
    'GuestAccess': {'CanJoin': 'can_join', 'Forbidden': 'forbidden'},
    # push
    'PushFormat': {'EventIdOnly': 'event_id_only'},
    'RuleKind': {'Override': 'override', 'Underride': 'underride', 'Sender': 'sender', 'Room': 'room', 'Content': 'content'},
    'PusherKind': None,
    # receipts
    'ReceiptType': {'Read': 'm.read', 'ReadPrivate': 'm.read.private'},
    'PredefinedOverrideRuleId': {'Master': '.m.rule.master', 'SuppressNotices': '.m.rule.suppress_notices', 'InviteForMe': '.m.rule.invite_for_me',
                                 'MemberEvent': '.m.rule.member_event', 'IsUserMention': '.m.rule.is_user_mention',
                                 'ContainsDisplayName': '.m.rule.contains_display_name', 'IsRoomMention': '.m.rule.is_room_mention',
                                 'RoomNotif': '.m.rule.roomnotif', 'Tombstone': '.m.rule.tombstone', 'Reaction': '.m.rule.reaction',
                                 'RoomServerAcl': '.m.rule.room.server_acl', 'SuppressEdits': '.m.rule.suppress_edits'},
    'PredefinedUnderrideRuleId': {'Call': '.m.rule.call', 'EncryptedRoomOneToOne': '.m.rule.encrypted_room_one_to_one',
                                  'RoomOneToOne': '.m.rule.room_one_to_one', 'Message': '.m.rule.message', 'Encrypted': '.m.rule.encrypted'},
    'PredefinedContentRuleId': {'ContainsUserName': '.m.rule.contains_user_name'},
    # crypto algorithms
    'DeviceKeyAlgorithm': {'Ed25519': 'ed25519', 'Curve25519': 'curve25519'},
    'SigningKeyAlgorithm': {'Ed25519': 'ed25519'},
    'EventEncryptionAlgorithm': {'OlmV1Curve25519AesSha2': 'm.olm.v1.curve25519-aes-sha2', 'MegolmV1AesSha2': 'm.megolm.v1.aes-sha2'},
    'KeyDerivationAlgorithm': {'Pbkfd2': 'm.pbkdf2'},
    'OneTimeKeyAlgorithm': {'SignedCurve25519': 'signed_curve25519'},
    # room types / directory
    'RoomType': {'Space': 'm.space'},
    # third party
    'Medium': {'Email': 'email', 'Msisdn': 'msisdn'},
    # message types relations
    'RelationType': {'Annotation': 'm.annotation', 'Replacement': 'm.replace', 'Thread': 'm.thread', 'Reference': 'm.reference'},
    # key verification
    'VerificationMethod': {'SasV1': 'm.sas.v1', 'QrCodeScanV1': 'm.qr_code.scan.v1', 'QrCodeShowV1': 'm.qr_code.show.v1', 'ReciprocateV1': 'm.reciprocate.v1'},
    'HashAlgorithm': {'Sha256': 'sha256'},
    'KeyAgreementProtocol': {'Curve25519': 'curve25519', 'Curve25519HkdfSha256': 'curve25519-hkdf-sha256'},
    'MessageAuthenticationCode': {'HkdfHmacSha256V2': 'hkdf-hmac-sha256.v2'},
    'ShortAuthenticationString': {'Decimal': 'decimal', 'Emoji': 'emoji'},
    'CancelCode': {'User': 'm.user', 'Timeout': 'm.timeout', 'UnknownTransaction': 'm.unknown_transaction', 'UnknownMethod': 'm.unknown_method',
                   'UnexpectedMessage': 'm.unexpected_message', 'KeyMismatch': 'm.key_mismatch', 'UserMismatch': 'm.user_mismatch',
                   'InvalidMessage': 'm.invalid_message', 'Accepted': 'm.accepted', 'MismatchedCommitment': 'm.mismatched_commitment',
                   'MismatchedSas': 'm.mismatched_sas'},
    # call
    'AnswerSdpType': None,
    'TagName': None,
    # state-res / events: a few event types (the full list is checked for self-consistency)
    'TimelineEventType': {'RoomMessage': 'm.room.message', 'RoomMember': 'm.room.member', 'RoomCreate': 'm.room.create',
                          'RoomPowerLevels': 'm.room.power_levels', 'RoomJoinRules': 'm.room.join_rules', 'RoomRedaction': 'm.room.redaction',
                          'RoomAliases': 'm.room.aliases', 'RoomCanonicalAlias': 'm.room.canonical_alias', 'RoomName': 'm.room.name',
                          'RoomTopic': 'm.room.topic', 'RoomAvatar': 'm.room.avatar', 'RoomEncryption': 'm.room.encryption',
                          'RoomEncrypted': 'm.room.encrypted', 'RoomHistoryVisibility': 'm.room.history_visibility',
                          'RoomGuestAccess': 'm.room.guest_access', 'RoomThirdPartyInvite': 'm.room.third_party_invite',
                          'RoomTombstone': 'm.room.tombstone', 'RoomServerAcl': 'm.room.server_acl', 'RoomPinnedEvents': 'm.room.pinned_events',
                          'Reaction': 'm.reaction', 'Sticker': 'm.sticker', 'SpaceChild': 'm.space.child', 'SpaceParent': 'm.space.parent',
                          'CallInvite': 'm.call.invite', 'CallAnswer': 'm.call.answer', 'CallHangup': 'm.call.hangup', 'CallCandidates': 'm.call.candidates',
                          'KeyVerificationStart': 'm.key.verification.start', 'KeyVerificationCancel': 'm.key.verification.cancel',
                          'KeyVerificationAccept': 'm.key.verification.accept', 'KeyVerificationKey': 'm.key.verification.key',
                          'KeyVerificationMac': 'm.key.verification.mac', 'KeyVerificationDone': 'm.key.verification.done',
                          'KeyVerificationReady': 'm.key.verification.ready', 'PolicyRuleRoom': 'm.policy.rule.room',
                          'PolicyRuleServer': 'm.policy.rule.server', 'PolicyRuleUser': 'm.policy.rule.user'},
    'StateEventType': {'RoomMember': 'm.room.member', 'RoomCreate': 'm.room.create', 'RoomPowerLevels': 'm.room.power_levels',
                       'RoomJoinRules': 'm.room.join_rules', 'RoomAliases': 'm.room.aliases', 'RoomCanonicalAlias': 'm.room.canonical_alias',
                       'RoomName': 'm.room.name', 'RoomTopic': 'm.room.topic', 'RoomAvatar': 'm.room.avatar', 'RoomEncryption': 'm.room.encryption',
                       'RoomHistoryVisibility': 'm.room.history_visibility', 'RoomGuestAccess': 'm.room.guest_access',
                       'RoomThirdPartyInvite': 'm.room.third_party_invite', 'RoomTombstone': 'm.room.tombstone', 'RoomServerAcl': 'm.room.server_acl',
                       'RoomPinnedEvents': 'm.room.pinned_events', 'SpaceChild': 'm.space.child', 'SpaceParent': 'm.space.parent',
                       'PolicyRuleRoom': 'm.policy.rule.room', 'PolicyRuleServer': 'm.policy.rule.server', 'PolicyRuleUser': 'm.policy.rule.user'},
    'MessageLikeEventType': {'RoomMessage': 'm.room.message', 'RoomRedaction': 'm.room.redaction', 'RoomEncrypted': 'm.room.encrypted',
                             'Reaction': 'm.reaction', 'Sticker': 'm.sticker', 'CallInvite': 'm.call.invite', 'CallAnswer': 'm.call.answer',
                             'CallHangup': 'm.call.hangup', 'CallCandidates': 'm.call.candidates'},
    'EphemeralRoomEventType': {'Receipt': 'm.receipt', 'Typing': 'm.typing'},
    'GlobalAccountDataEventType': {'Direct': 'm.direct', 'IgnoredUserList': 'm.ignored_user_list', 'PushRules': 'm.push_rules'},
    'RoomAccountDataEventType': {'FullyRead': 'm.fully_read', 'Tag': 'm.tag'},
    'ToDeviceEventType': {'Dummy': 'm.dummy', 'RoomKey': 'm.room_key', 'RoomKeyRequest': 'm.room_key_request', 'ForwardedRoomKey': 'm.forwarded_room_key',
                          'RoomEncrypted': 'm.room.encrypted', 'SecretRequest': 'm.secret.request', 'SecretSend': 'm.secret.send',
                          'KeyVerificationRequest': 'm.key.verification.request', 'KeyVerificationStart': 'm.key.verification.start'},
    'MessageType': None,
    'JoinRule': None,
}
SPEC = {k: v for k, v in SPEC.items() if v}


def words(ident):
    """split a Rust CamelCase identifier into words the way serde/heck-style converters do (a new word starts at every
    upper-case letter; digits stay attached to the preceding word)"""
    out, cur = [], ''
    for ch in ident:
        if ch.isupper() and cur:
            out.append(cur); cur = ch
        else:
            cur += ch
    if cur:
        out.append(cur)
    return out


def convert(ident, rule):
    """expected spelling of a variant without an explicit rename under `rename_all = rule` (serde's conventions)"""
    ws = words(ident)
    if rule is None:
        return ident
    if rule == 'lowercase':
        return ident.lower()
    if rule == 'UPPERCASE':
        return ident.upper()
    if rule == 'PascalCase':
        return ident
    if rule == 'camelCase':
        return ident[0].lower() + ident[1:]
    if rule == 'snake_case':
        return '_'.join(w.lower() for w in ws)
    if rule == 'SCREAMING_SNAKE_CASE':
        return '_'.join(w.upper() for w in ws)
    if rule == 'kebab-case':
        return '-'.join(w.lower() for w in ws)
    if rule == 'SCREAMING-KEBAB-CASE':
        return '-'.join(w.upper() for w in ws)
    if rule == 'M_MATRIX_ERROR_CASE':
        return 'M_' + '_'.join(w.upper() for w in ws)
    if rule == 'm.snake_case':
        return 'm.' + '_'.join(w.lower() for w in ws)
    if rule == 'm.lowercase':
        return 'm.' + ident.lower()
    if rule == 'm.dotted.case':
        return 'm.' + '.'.join(w.lower() for w in ws)
    if rule == '.m.rule.snake_case':
        return '.m.rule.' + '_'.join(w.lower() for w in ws)
    if rule == 'm.role.snake_case':
        return 'm.role.' + '_'.join(w.lower() for w in ws)
    return None
