#!/usr/bin/env python3-vt
"""C16 - endpoint path selection (the ruma-owned kernel of the HTTP round-trip property).

VersionHistory::{select_path, versioning_decision_for, stable_endpoint_for} are executed from the MIR of ruma-common on
symbolic version histories (<= 2 unstable and <= 3 stable paths with symbolic Matrix versions satisfying the invariants
VersionHistory::new asserts, symbolic optional deprecated/removed versions) and symbolic lists of <= 3 supported versions;
z3 decides the selection against the oracle of the property statement (newest stable path some supported version offers,
otherwise the unstable path, error iff every supported version removed the endpoint).  Counterexamples are replayed
through Metadata::make_endpoint_url."""
import os, sys, itertools
sys.path.insert(0, os.path.dirname(os.path.abspath(__file__)))
from common import *

os.environ.setdefault('VERIF_MAIN_MODULE', 'c16')
MV = 'api::metadata::MatrixVersion'
UPATHS = [b'/u/a', b'/u/b']
SPATHS = [b'/s/a', b'/s/b', b'/s/c']


def run_shape(C, job):
    nu, ns, has_dep, has_rem, nv = job
    E = C.fresh_engine(['common'], N=8)
    E.feas_mode = 'budget'
    nvar = len(E.src.enum_variants(MV))
    label = f'history(unstable={nu},stable={ns},deprecated={has_dep},removed={has_rem}) versions={nv}'

    def ver(name):
        v = z3.BitVec(name, 64)
        return SymEnum(MV, v, nvar), [z3.ULT(v, nvar)]
    cons = []
    svers = []
    for i in range(ns):
        sv, c = ver(f'stable{i}'); svers.append(sv); cons += c
    for i in range(1, ns):
        cons.append(z3.ULT(svers[i - 1].v, svers[i].v))          # ascending, no duplicates (asserted by `new`)
    dep = rem = None
    if has_dep:
        dep, c = ver('deprecated'); cons += c
        if ns == 0:
            return                                                  # `new` panics: deprecated without a stable path
        last = svers[-1].v
        cons.append(z3.Or(z3.UGT(dep.v, last), z3.And(dep.v == last, dep.v == 0)))
    if has_rem:
        if not has_dep:
            return                                                  # `new` panics: removed without deprecated
        rem, c = ver('removed'); cons += c
        cons.append(z3.UGT(rem.v, dep.v))
    if nu + ns == 0:
        return
    versions = []
    for i in range(nv):
        x, c = ver(f'v{i}'); versions.append(x); cons += c
    fields = {'unstable_paths': Seq([E.const_str(p) for p in UPATHS[:nu]]),
              'stable_paths': Seq([Tup([svers[i], E.const_str(SPATHS[i])]) for i in range(ns)]),
              'deprecated': some(dep) if dep is not None else NONE, 'removed': some(rem) if rem is not None else NONE}
    names = E.src.structs['api::metadata::VersionHistory']
    hist = Adt('api::metadata::VersionHistory', None, [fields[n] for n in names])
    st = E.new_state()
    href = E.root_ref(st, hist)
    vseq = Seq(versions)
    # oracle terms
    def any_ge(x):
        return z3.Or(*[z3.UGE(v.v, x.v) for v in versions]) if versions else z3.BoolVal(False)
    def all_ge(x):
        return z3.And(*[z3.UGE(v.v, x.v) for v in versions]) if versions else z3.BoolVal(True)
    all_removed = all_ge(rem) if rem is not None else z3.BoolVal(False)
    any_stable = any_ge(svers[0]) if ns else z3.BoolVal(False)
    # newest stable path some supported version offers: index
    def want_stable_idx(i):
        later = [z3.Not(any_ge(svers[j])) for j in range(i + 1, ns)]
        return z3.And(any_ge(svers[i]), *later)

    def vec_of(m):
        g = lambda t: m.eval(t.v, model_completion=True).as_long()
        return {'op': 'c16:select', 'unstable': nu, 'stable': [g(s) for s in svers], 'deprecated': g(dep) if dep is not None else None,
                'removed': g(rem) if rem is not None else None, 'versions': [g(v) for v in versions]}

    def spec_of(vec):
        vs = vec['versions']
        if vec['removed'] is not None and all(v >= vec['removed'] for v in vs):
            return 'err:EndpointRemoved'
        best = None
        for i, s in enumerate(vec['stable']):
            if any(v >= s for v in vs):
                best = SPATHS[i].decode()
        if best:
            return 'ok:' + best
        return 'ok:' + UPATHS[vec['unstable'] - 1].decode() if vec['unstable'] else 'err:NoUnstablePath'

    def decide(qname, bad):
        r, m = C.solve(f'{label}: {qname}', cons + [bad])
        if r == 'sat':
            vec = vec_of(m)
            res = C.native(vec); vec['native'] = res
            want = spec_of(vec)
            got = ('ok:' + res.get('path', '')) if res.get('r') == 'ok' else ('err:' + str(res.get('e')) if res.get('r') == 'err' else str(res))
            vec['spec'] = want
            if got != want or qname.startswith(('versioning', 'stable_endpoint')):
                # the decision functions are public API of their own: a wrong flag is a violation even if the path agrees
                dres = res.get('decision')
                C.report_violation(f'{label}: {qname}: native {got} decision={dres}, property oracle {want}: {vec}', vec)
                C.samples.append({'query': qname, 'counterexample': vec})
            else:
                raise Broken(f'{label}: model for {qname} does not reproduce natively: {vec}')

    # ---- select_path
    f = E.find_method('VersionHistory', 'select_path')
    outs = E.run_func(f, [href, vseq], cons, st=st)
    C.absorb(E)
    bad = []
    for o in outs:
        if o.kind != 'ret':
            bad.append(o.cond()); continue
        v = o.value
        if v.variant == 'Err':
            e = v.fields[0]
            okc = z3.Or(z3.And(all_removed, z3.BoolVal(e.variant == 'EndpointRemoved')),
                        z3.And(z3.Not(all_removed), z3.Not(any_stable), z3.BoolVal(nu == 0 and e.variant == 'NoUnstablePath')))
        else:
            p = E.as_str(o.st, v.fields[0]).conc()
            alts = []
            for i in range(ns):
                alts.append(z3.And(z3.Not(all_removed), want_stable_idx(i), z3.BoolVal(p == SPATHS[i])))
            if nu:
                alts.append(z3.And(z3.Not(all_removed), z3.Not(any_stable), z3.BoolVal(p == UPATHS[nu - 1])))
            okc = z3.Or(*alts) if alts else z3.BoolVal(False)
        bad.append(z3.And(o.cond(), z3.Not(okc)))
    decide('select_path picks the path the property prescribes (and never panics)', z3.Or(*bad))
    # ---- versioning_decision_for
    f2 = E.find_method('VersionHistory', 'versioning_decision_for')
    outs = E.run_func(f2, [href, vseq], cons, st=st)
    C.absorb(E)
    bad = []
    fn = E.src.variant_fields.get(('api::metadata::VersioningDecision', 'Stable'), ['any_deprecated', 'all_deprecated', 'any_removed'])
    for o in outs:
        if o.kind != 'ret':
            bad.append(o.cond()); continue
        v = o.value
        if v.variant == 'Removed':
            okc = all_removed
        elif v.variant == 'Unstable':
            okc = z3.And(z3.Not(all_removed), z3.Not(any_stable))
        else:
            fl = dict(zip(fn, v.fields))
            w_all = all_ge(dep) if dep is not None else z3.BoolVal(False)
            w_any = z3.Or(w_all, any_ge(dep)) if dep is not None else z3.BoolVal(False)
            w_rem = any_ge(rem) if rem is not None else z3.BoolVal(False)
            okc = z3.And(z3.Not(all_removed), any_stable, fl['all_deprecated'] == w_all, fl['any_deprecated'] == w_any, fl['any_removed'] == w_rem)
        bad.append(z3.And(o.cond(), z3.Not(okc)))
    decide('versioning_decision_for agrees with the set semantics', z3.Or(*bad))
    # ---- stable_endpoint_for
    f3 = E.find_method('VersionHistory', 'stable_endpoint_for')
    outs = E.run_func(f3, [href, vseq], cons, st=st)
    C.absorb(E)
    bad = []
    for o in outs:
        if o.kind != 'ret':
            bad.append(o.cond()); continue
        v = o.value
        if v.variant == 'None':
            okc = z3.Not(any_stable)
        else:
            p = E.as_str(o.st, v.fields[0]).conc()
            okc = z3.Or(*[z3.And(want_stable_idx(i), z3.BoolVal(p == SPATHS[i])) for i in range(ns)]) if ns else z3.BoolVal(False)
        bad.append(z3.And(o.cond(), z3.Not(okc)))
    decide('stable_endpoint_for returns the newest offered stable path', z3.Or(*bad))
    # order / duplicates irrelevant: same verdict for the reversed list with its first element repeated
    if nv >= 2:
        v2 = Seq(list(reversed(versions)) + [versions[-1]])
        o1 = E.run_func(f, [href, vseq], cons, st=st)
        o2 = E.run_func(f, [href, v2], cons, st=st)
        def res_key(o):
            if o.kind != 'ret': return ('panic',)
            if o.value.variant == 'Err': return ('err', o.value.fields[0].variant)
            return ('ok', E.as_str(o.st, o.value.fields[0]).conc())
        diff = [z3.And(a.cond(), b.cond()) for a in o1 for b in o2 if res_key(a) != res_key(b)]
        r, m = C.solve(f'{label}: the selection depends on the set of versions only (order, duplicates)', cons + [z3.Or(*diff) if diff else z3.BoolVal(False)])
        if r == 'sat':
            vec = vec_of(m)
            C.report_violation(f'{label}: selection depends on the order of the supported versions: {vec}', vec)
    # model validation + vacuity witness: a concrete instance of this shape through interpreter, oracle and native build
    r, m = C.solve(f'{label}: shape is satisfiable (witness)', cons)
    if r != 'sat':
        raise Broken(f'{label}: invariants unsatisfiable: vacuous shape')
    vec = vec_of(m)
    res = C.native(vec)
    C.model_validation += 1
    want = spec_of(vec)
    got = ('ok:' + res.get('path', '')) if res.get('r') == 'ok' else ('err:' + str(res.get('e')))
    cv = lambda x: SymEnum(MV, z3.BitVecVal(x, 64), nvar)
    cf = {'unstable_paths': fields['unstable_paths'],
          'stable_paths': Seq([Tup([cv(vec['stable'][i]), E.const_str(SPATHS[i])]) for i in range(ns)]),
          'deprecated': some(cv(vec['deprecated'])) if dep is not None else NONE, 'removed': some(cv(vec['removed'])) if rem is not None else NONE}
    st2 = E.new_state()
    h2 = E.root_ref(st2, Adt('api::metadata::VersionHistory', None, [cf[n] for n in names]))
    oc = E.run_func(f, [h2, Seq([cv(x) for x in vec['versions']])], st=st2)
    if len(oc) != 1 or oc[0].kind != 'ret':
        raise Broken(f'{label}: model validation: interpreter gives {oc} on concrete data {vec}')
    ov = oc[0].value
    interp = ('ok:' + E.as_str(oc[0].st, ov.fields[0]).conc().decode()) if ov.variant == 'Ok' else 'err:' + ov.fields[0].variant
    if not (interp == got == want):
        if interp != got:
            raise Broken(f'{label}: model validation: interpreter {interp} vs native {got} on {vec}')
        C.report_violation(f'{label}: witness instance: native {got}, property oracle {want}: {vec}', vec)
    C.samples.append({'shape': label, 'instance': vec, 'selected': got})
    C.bounds[label] = {'paths': len(outs)}


def body(C):
    C.engine(['common'], N=8)
    C.build_replayer(['common'])
    maxv = 3 if C.tier == 'quick' else 4
    jobs = []
    for nu in range(0, 3):
        for ns in range(0, 4):
            for has_dep in (False, True):
                for has_rem in (False, True):
                    for nv in range(0, maxv + 1):
                        if nu + ns == 0 or (has_dep and ns == 0) or (has_rem and not has_dep):
                            continue
                        jobs.append((nu, ns, has_dep, has_rem, nv))
    C.assumptions += [
        f'histories: <= 2 unstable and <= 3 stable paths, optional deprecated / removed versions, every assignment of the 15 known Matrix versions satisfying the invariants asserted by VersionHistory::new; supported versions: every list of <= {maxv} versions (any order, duplicates)',
        'outside the claim: the macro-generated try_into_http_request / try_from_http_request (http, bytes, serde_json, serde_html_form), URL construction by make_endpoint_url beyond the selected path, the XMatrix header (http-auth)',
        'tracing macros are modelled as disabled (no subscriber installed)',
    ]
    parallel_map(C, run_shape, jobs)


if __name__ == '__main__':
    run_check('C16', body)
