//! C16: endpoint path selection for every subset of the known Matrix versions against symbolic version histories.
use ruma_common::api::{MatrixVersion, VersionHistory, VersioningDecision};

const ALL: [MatrixVersion; 15] = [
    MatrixVersion::V1_0, MatrixVersion::V1_1, MatrixVersion::V1_2, MatrixVersion::V1_3, MatrixVersion::V1_4,
    MatrixVersion::V1_5, MatrixVersion::V1_6, MatrixVersion::V1_7, MatrixVersion::V1_8, MatrixVersion::V1_9,
    MatrixVersion::V1_10, MatrixVersion::V1_11, MatrixVersion::V1_12, MatrixVersion::V1_13, MatrixVersion::V1_14,
];

fn ver(k: u8) -> MatrixVersion { ALL[k as usize] }

fn any_ver_idx() -> u8 {
    let k: u8 = kani::any();
    kani::assume(k < 15);
    k
}

static UNSTABLE: [&str; 2] = ["/u/a", "/u/b"];
static SPATHS: [&str; 3] = ["/s/a", "/s/b", "/s/c"];

struct Hist {
    n_unstable: usize,
    stable: [u8; 3],
    n_stable: usize,
    deprecated: Option<u8>,
    removed: Option<u8>,
}

/// an arbitrary history satisfying the documented preconditions of `VersionHistory::new`
fn any_history() -> (VersionHistory, Hist) {
    let n_unstable: usize = kani::any();
    let n_stable: usize = kani::any();
    kani::assume(n_unstable <= 2 && n_stable <= 3 && n_unstable + n_stable >= 1);
    let s = [any_ver_idx(), any_ver_idx(), any_ver_idx()];
    if n_stable >= 2 { kani::assume(s[0] < s[1]); }
    if n_stable >= 3 { kani::assume(s[1] < s[2]); }
    let deprecated: Option<u8> = if kani::any() { Some(any_ver_idx()) } else { None };
    let removed: Option<u8> = if kani::any() { Some(any_ver_idx()) } else { None };
    if let Some(d) = deprecated {
        kani::assume(n_stable >= 1);
        let last = s[n_stable - 1];
        // deprecated must be newer than the last stable path version (equal allowed only for the legacy 1.0)
        kani::assume(d > last || (d == last && d == 0));
    }
    if let Some(r) = removed {
        match deprecated {
            Some(d) => kani::assume(r > d),
            None => kani::assume(false),
        }
    }
    let stable_all: [(MatrixVersion, &'static str); 3] = [(ver(s[0]), SPATHS[0]), (ver(s[1]), SPATHS[1]), (ver(s[2]), SPATHS[2])];
    let stable: &'static [(MatrixVersion, &'static str)] = Box::leak(Box::new(stable_all));
    let h = VersionHistory::new(&UNSTABLE[..n_unstable], &stable[..n_stable], deprecated.map(ver), removed.map(ver));
    (h, Hist { n_unstable, stable: s, n_stable, deprecated, removed })
}

/// any list of at most 4 known versions (any order, duplicates allowed): covers every subset of size <= 4
fn any_version_list(buf: &mut [MatrixVersion; 4]) -> (usize, [u8; 4]) {
    let idx = [any_ver_idx(), any_ver_idx(), any_ver_idx(), any_ver_idx()];
    let n: usize = kani::any();
    kani::assume(n <= 4);
    let mut i = 0;
    while i < 4 {
        buf[i] = ver(idx[i]);
        i += 1;
    }
    (n, idx)
}

/// oracle, from the property statement: the newest stable path some supported version offers, otherwise the
/// unstable path, and an error if every supported version removed the endpoint.
#[kani::proof]
#[kani::unwind(6)]
fn c16_select_path_all_version_sets() {
    let (h, d) = any_history();
    let mut buf = [MatrixVersion::V1_0; 4];
    let (n, idx) = any_version_list(&mut buf);
    let versions = &buf[..n];
    let mut hi: Option<u8> = None;
    let mut lo: Option<u8> = None;
    let mut i = 0;
    while i < n {
        if hi.map_or(true, |m| idx[i] > m) { hi = Some(idx[i]); }
        if lo.map_or(true, |m| idx[i] < m) { lo = Some(idx[i]); }
        i += 1;
    }

    let decision = h.versioning_decision_for(versions);
    // "every supported version removed it": vacuously true for the empty set, as `all` is
    let all_removed = match d.removed { Some(r) => lo.map_or(true, |l| l >= r), None => false };
    let any_stable = d.n_stable >= 1 && hi.map_or(false, |m| m >= d.stable[0]);
    if all_removed {
        assert!(matches!(decision, VersioningDecision::Removed), "removed endpoint not reported as removed");
    } else if any_stable {
        assert!(matches!(decision, VersioningDecision::Stable { .. }), "stable endpoint not reported stable");
        if let VersioningDecision::Stable { any_deprecated, all_deprecated, any_removed } = decision {
            let want_any_dep = d.deprecated.map_or(false, |x| hi.map_or(false, |m| m >= x));
            let want_all_dep = d.deprecated.map_or(false, |x| lo.map_or(true, |l| l >= x));
            let want_any_rem = d.removed.map_or(false, |x| hi.map_or(false, |m| m >= x));
            assert!(any_deprecated == (want_any_dep || want_all_dep), "any_deprecated flag wrong");
            assert!(all_deprecated == want_all_dep, "all_deprecated flag wrong");
            assert!(any_removed == want_any_rem, "any_removed flag wrong");
        }
    } else {
        assert!(matches!(decision, VersioningDecision::Unstable), "unstable endpoint misreported");
    }

    // newest stable path offered by some supported version
    let mut want: Option<&'static str> = None;
    let mut i = 0;
    while i < d.n_stable {
        if hi.map_or(false, |m| m >= d.stable[i]) { want = Some(SPATHS[i]); }
        i += 1;
    }
    let got = h.stable_endpoint_for(versions);
    match (got, want) {
        (Some(g), Some(w)) => assert!(core::ptr::eq(g.as_ptr(), w.as_ptr()), "wrong stable path selected"),
        (None, None) => {}
        _ => panic!("stable path presence mismatch"),
    }
    // accessors used by the path selection glue
    assert!(h.unstable().map(|p| p.as_ptr()) == if d.n_unstable >= 1 { Some(UNSTABLE[d.n_unstable - 1].as_ptr()) } else { None });
    assert!(h.added_in() == if d.n_stable >= 1 { Some(ver(d.stable[0])) } else { None });
    assert!(h.removed_in() == d.removed.map(ver));
    assert!(h.deprecated_in() == d.deprecated.map(ver));
    kani::cover!(all_removed, "removed case reachable");
    kani::cover!(!all_removed && any_stable, "stable case reachable");
    kani::cover!(!all_removed && !any_stable, "unstable case reachable");
}

/// the result depends on the set of versions only: any list of <= 4 versions (order, duplicates) gives the same
/// answers as its sorted, de-duplicated form
#[kani::proof]
#[kani::unwind(6)]
fn c16_order_and_duplicates_irrelevant() {
    let (h, _d) = any_history();
    let a = [any_ver_idx(), any_ver_idx(), any_ver_idx(), any_ver_idx()];
    let n: usize = kani::any();
    kani::assume(n <= 4);
    let l1 = [ver(a[0]), ver(a[1]), ver(a[2]), ver(a[3])];
    // a permutation with a duplicated element: reverse and repeat the first
    let l2 = [ver(a[3]), ver(a[2]), ver(a[1]), ver(a[0])];
    let v1 = &l1[..n];
    let v2 = &l2[4 - n..];
    assert!(h.versioning_decision_for(v1) == h.versioning_decision_for(v2));
    let (p1, p2) = (h.stable_endpoint_for(v1), h.stable_endpoint_for(v2));
    assert!(p1.map(|p| p.as_ptr()) == p2.map(|p| p.as_ptr()));
}
