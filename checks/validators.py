"""Generic decision procedure for string validators / parsers executed from MIR:
panic-freedom, accept => lax grammar, strict grammar => accept, path exhaustiveness, witnesses, with native
replay of every counterexample and known-finding roles."""
import glob, os, re
import z3
from common import *
from spec import idgrammar as G
from mirsym.models.str_models import ip_ok


def ipv6_pred(E):
    """the oracle's IPv6address predicate = the same uninterpreted function the parse::<Ipv6Addr> model uses"""
    def f(w):
        s = Str(w.base, w.off, w.ln, True, w.cap)
        return ip_ok(E, s, True)
    return f


HINT_TEMPLATES = {'user_id_ok': [b'@a:b', b'@b:c.d'], 'room_id_ok': [b'!a:b', b'!a'], 'room_alias_id_ok': [b'#a:b'], 'event_id_ok': [b'$a:b', b'$a', b'$b'],
                  'server_name_ok': [b'a.b', b'h:80', b'1.2.3.4', b'[::1]:8448'],
                  'ipv6_ok': [b'::1', b'1::', b'1:2:3:4:5:6:7:8'], 'ipv4_ok': [b'1.2.3.4']}


def uf_hints(E):
    from mirsym.models.str_models import str_eq
    out = []
    for app in E.uf_apps:
        if app[0] == 'window' and app[4] in HINT_TEMPLATES:
            _, win, term, ref, name = app
            alts = [str_eq(E, win, E.const_str(t)) for t in HINT_TEMPLATES[name]]
            if name == 'server_name_ok':
                n = win.cap if win.cap is not None else E.N
                alts.append(z3.And(z3.UGE(win.ln, 1), *[z3.Implies(z3.ULT(bv(j), win.ln), z3.And(z3.UGE(win.at(j), 97), z3.ULE(win.at(j), 122))) for j in range(n)]))
            out.append(z3.Implies(term, z3.Or(*alts)))
    return out


def refine_facts(C, E, model):
    """constraints pinning every wrongly guessed application of an uninterpreted library predicate in `model`"""
    facts = []
    for app in E.uf_apps:
        kind = app[0]
        if kind == 'window':
            _, win, term, ref, name = app
            try:
                ln = model.eval(win.ln, model_completion=True).as_long()
            except Exception:
                continue
            if ln > (win.cap or E.N):
                continue
            b = bytes(model.eval(win.at(j), model_completion=True).as_long() for j in range(ln))
            got = z3.is_true(model.eval(term, model_completion=True))
            want = bool(ref(b))
            if got != want:
                same = z3.And(win.ln == ln, *[win.at(j) == b[j] for j in range(ln)])
                facts.append(z3.Implies(same, term == want))
        elif kind == 'char':
            _, c, term, pname, name = app
            cv = model.eval(c, model_completion=True).as_long()
            if cv < 0x80 or cv > 0x10FFFF or 0xD800 <= cv <= 0xDFFF:
                continue
            got = z3.is_true(model.eval(term, model_completion=True))
            res = C.native({'op': 'char_pred', 'name': pname, 'c': cv})
            if res.get('r') != 'ok':
                continue
            want = bool(res['v'])
            if got != want:
                facts.append(z3.Implies(c == cv, term == want))
    return facts


def solve_with_refinement(C, E, qname, fs, confirm, max_iter=16):
    """generic counterexample-guided loop: solve; `confirm(model) -> (reproduced?, vector)`; when a model relies on a wrong
    guess for an uninterpreted library predicate pin it to its reference value and re-solve.
    Returns ('unsat', None, None) or ('sat', model, vector) with the vector natively confirmed."""
    fs = list(fs)
    for it in range(max_iter):
        r, m = C.solve(qname if it == 0 else f'{qname} [refinement {it}]', fs)
        if r == 'unsat':
            return 'unsat', None, None
        okc, v = confirm(m)
        if okc:
            return 'sat', m, v
        if it == 0:
            hints = uf_hints(E)
            if hints:
                r2, m2 = C.solve(qname + ' [hinted]', fs + hints)
                if r2 == 'sat':
                    okc, v2 = confirm(m2)
                    if okc:
                        return 'sat', m2, v2
        facts = refine_facts(C, E, m)
        if not facts:
            raise Broken(f'counterexample of {qname} does not reproduce natively: {v}')
        fs += facts
    raise Inconclusive(f'refinement of uninterpreted predicates did not converge on {qname}')


def classify(o):
    if o.kind == 'panic':
        if 'OUT-OF-MODEL' in str(o.value):
            return 'oom'
        return 'panic'
    if o.kind == 'ret' and isinstance(o.value, Adt) and o.value.variant in ('Ok', 'Some'):
        return 'accept'
    if o.kind == 'ret' and isinstance(o.value, Adt) and o.value.variant in ('Err', 'None'):
        return 'reject'
    if o.kind == 'ret':
        return 'ret'
    return o.kind


def disj(outs, cls):
    cs = [o.cond() for o in outs if classify(o) == cls]
    return z3.Or(*cs) if cs else z3.BoolVal(False)


def native_class(res):
    return {'ok': 'accept', 'err': 'reject', 'panic': 'panic', 'abort': 'panic'}.get(res.get('r'), 'other')


def harvest_literals(paths, limit=400):
    """string literals from the repository's own sources/tests: model-validation vectors"""
    lits = []
    for p in paths:
        for f in sorted(glob.glob(p, recursive=True)):
            try:
                txt = open(f, encoding='utf-8').read()
            except Exception:
                continue
            for m in re.finditer(r'"((?:[^"\\\n]|\\.){1,80})"', txt):
                s = m.group(1)
                if '\\' in s and not re.fullmatch(r'(?:[^\\]|\\[\\"nt0])*', s):
                    continue
                s = s.replace('\\"', '"').replace('\\\\', '\\').replace('\\n', '\n').replace('\\t', '\t').replace('\\0', '\0')
                if s not in lits:
                    lits.append(s)
    return lits[:limit]


def mutate(rng, s):
    b = bytearray(s.encode())
    for _ in range(rng.randint(1, 3)):
        k = rng.randint(0, 4)
        pos = rng.randint(0, len(b)) if b else 0
        if k == 0 and b:
            del b[min(pos, len(b) - 1)]
        elif k == 1:
            b.insert(pos, rng.choice(b':[]@!#$%/.+-_0aZ\x00 \x7f='))
        elif k == 2 and b:
            b[min(pos, len(b) - 1)] = rng.choice(b':[]@!#$%/.+-_0aZ\x00 \x7f=')
        elif k == 3 and b:
            j = min(pos, len(b) - 1); b[j:j] = b[j:j + rng.randint(1, 4)]
        else:
            b += rng.choice([b':0', b':80', b':+1', b':65536', b'.', b'[::1]', 'é'.encode()])
    try:
        return b.decode()
    except UnicodeDecodeError:
        return b.decode(errors='ignore')


def validate_models(C, E, fn, native_op, vectors, tsub=None, extra_args=(), compare=None):
    """interpreter+models vs native on concrete inputs: validates translator and library models (decides nothing)"""
    bad = []
    saved = E.feas_mode
    E.feas_mode = 'budget'
    for v in vectors:
        b = v.encode() if isinstance(v, str) else v
        if len(b) > E.N:
            continue
        outs = E.run_func(fn, [E.const_str(b)] + list(extra_args), tsub=tsub)
        res = C.native({'op': native_op, 's_hex': b.hex()})
        C.model_validation += 1
        if len(outs) != 1:
            bad.append((v, f'{len(outs)} paths on a concrete input'))
            continue
        sym, nat = classify(outs[0]), native_class(res)
        if sym == 'oom':
            continue
        if sym != nat or (compare and not compare(outs[0], res)):
            bad.append((v, f'interpreter={sym} {outs[0].value!r} native={res}'))
    E.feas_mode = saved
    if bad:
        raise Broken(f'model validation failed for {fn.name}: ' + '; '.join(f'{v!r}: {w}' for v, w in bad[:5]))


def decide_validator(C, E, label, fn, native_op, N, lax=None, strict=None, roles=None, tsub=None, prefix_cons=None,
                     ret_check=None, stretch=None, minlen=0):
    """
    lax(W)    : oracle every accepted input must satisfy      (accept => lax)
    strict(W) : inputs that must be accepted                  (strict => accept)
    roles     : {role: (claim, formula_builder(W), description)}  known-finding classes, claim in {'panic','sound','complete'}
    ret_check : fn(outcome, W) -> z3 formula that must hold on accepting paths (e.g. returned index correct)
    """
    roles = roles or {}
    del G.AXIOMS[:]
    del E.axioms[:]
    del E.uf_apps[:]
    s, cons = E.sym_str('s', N, minlen=minlen)
    if stretch:
        cons = cons + stretch(s)
    w = G.of_str(s, N)
    if prefix_cons:
        cons = cons + prefix_cons(w)
    E.feas_mode = 'never'
    outs = E.run_func(fn, [s], cons, tsub=tsub)
    E.feas_mode = 'budget'
    C.absorb(E)
    cls = {}
    for o in outs:
        cls.setdefault(classify(o), []).append(o)
    C.bounds[label] = {'max_len_bytes': N, 'paths': len(outs), 'classes': {k: len(v) for k, v in cls.items()}}
    class _Base:
        """input well-formedness + instance axioms of uninterpreted predicates (grows as oracles are built)"""
        def __add__(self, other):
            return list(cons) + list(E.axioms) + list(G.AXIOMS) + list(other)
    base = _Base()

    def vec(model):
        b = model_bytes(model, s)
        return {'op': native_op, 's_hex': b.hex(), 's_repr': repr(b)[:200]}

    def confirm(model, want):
        v = vec(model)
        res = C.native({'op': native_op, 's_hex': v['s_hex']})
        v['native'] = res
        return native_class(res) == want, v

    def solve_refined(qname, fs, want_native):
        """solve; when the model relies on a wrong guess for an uninterpreted library predicate (IPv6 literal,
        Unicode class), pin that application to its reference value and re-solve (counterexample-guided refinement).
        Returns ('unsat', None, None) | ('sat', model, vector) with the vector natively confirmed, else raises Broken."""
        fs = list(fs)
        for it in range(16):
            r, m = C.solve(qname if it == 0 else f'{qname} [refinement {it}]', fs)
            if r == 'unsat':
                return 'unsat', None, None
            okc, v = confirm(m, want_native)
            if okc:
                return 'sat', m, v
            if it == 0:
                # try "realistic" values for the uninterpreted predicates first (cuts the refinement loop short)
                hints = uf_hints(E)
                if hints:
                    r2, m2 = C.solve(qname + ' [hinted]', fs + hints)
                    if r2 == 'sat':
                        okc, v = confirm(m2, want_native)
                        if okc:
                            return 'sat', m2, v
            facts = refine_facts(C, E, m)
            if not facts:
                raise Broken(f'{label}: counterexample of {qname} does not reproduce natively: {v}')
            fs += facts
        raise Inconclusive(f'{label}: refinement of uninterpreted predicates did not converge on {qname}')

    def must_be_unsat(qname, claim, formulas, want_native, what):
        """claim: which role group applies"""
        fs = list(formulas)
        for role, (rclaim, rf, rdesc) in roles.items():
            if rclaim != claim:
                continue
            if C.is_known(role):
                r, m, v = solve_refined(f'{label}: {qname} within known role {role}', fs + [rf(w)], want_native)
                if r == 'sat':
                    C.report_known(role, f'{rdesc} (e.g. {v["s_repr"]})')
                    C.samples.append({'query': qname, 'role': role, 'witness': v['s_repr'], 'native': v['native']})
                fs.append(z3.Not(rf(w)))
        r, m, v = solve_refined(f'{label}: {qname}', fs, want_native)
        if r == 'sat':
            C.report_violation(f'{label}: {what}: input {v["s_repr"]} -> native {v["native"]}', v)
            C.samples.append({'query': qname, 'counterexample': v['s_repr'], 'native': v['native']})
        elif C.tier == 'thorough' and os.environ.get('VERIF_XCHECK', '1') == '1':
            C.cross_check(f'{label}: {qname}', fs, 'unsat')
        return r

    # 1. exhaustiveness of the path set (no input falls off the encoding)
    allc = z3.Or(*[o.cond() for o in outs]) if outs else z3.BoolVal(False)
    r, m = C.solve(f'{label}: path exhaustiveness', base + [z3.Not(allc)])
    if r == 'sat':
        raise Broken(f'{label}: path set not exhaustive, e.g. {vec(m)["s_repr"]}')
    # 2. panic-freedom
    for k, o in enumerate(cls.get('panic', [])):
        must_be_unsat(f'no panic outcome (path {k}: {str(o.value)[:60]})', 'panic', base + [o.cond()], 'panic', 'parser panics')
    # 3. out-of-model region must be stated
    if cls.get('oom'):
        C.assumptions.append(f'{label}: inputs reaching OUT-OF-MODEL library behaviour are outside the claim')
    # 4. soundness
    if lax is not None:
        must_be_unsat('accept => grammar', 'sound', base + [disj(outs, 'accept'), z3.Not(lax(w))], 'accept',
                      'accepts a string outside the specified grammar')
    # 5. completeness
    if strict is not None:
        must_be_unsat('strict grammar => accept', 'complete', base + [strict(w), disj(outs, 'reject')], 'reject',
                      'rejects an identifier of the recommended grammar')
    # 6. return value check on accepting paths
    if ret_check is not None:
        bad = [z3.And(o.cond(), z3.Not(ret_check(o, w))) for o in cls.get('accept', [])]
        if bad:
            must_be_unsat('returned index is the separator position', 'ret', base + [z3.Or(*bad)], 'accept',
                          'returns a wrong separator index')
    # 7. vacuity guards: both classes reachable, strict grammar satisfiable, and a false twin is refuted
    for k in ('accept', 'reject'):
        r, m, v = solve_refined(f'{label}: witness {k} reachable', base + [disj(outs, k)], k)
        if r != 'sat':
            raise Broken(f'{label}: no {k} path is reachable: harness is vacuous')
        C.samples.append({'query': f'{label} witness {k}', 'input': v['s_repr'], 'native': v['native']})
    if strict is not None:
        r, m = C.solve(f'{label}: strict grammar satisfiable', base + [strict(w)])
        if r != 'sat':
            raise Broken(f'{label}: strict oracle unsatisfiable within the bound')
    r, m = C.solve(f'{label}: false twin (every input accepted) must be refuted', base + [z3.Not(disj(outs, 'accept'))])
    if r != 'sat':
        raise Broken(f'{label}: false twin not refuted')
    return outs, s, w, cons
