#!/usr/bin/env python3-vt
"""C05 - content hash, reference hash and event IDs are the spec's functions of the event.

content_hash and reference_hash are executed from the MIR of ruma-signatures on event objects of every enumerated shape
(each of `hashes`, `signatures`, `unsigned` present or absent, plus ordinary fields) with SHA-256, base64 and the JSON
serializer as tagged ideal primitives (sigsym.py) and a symbolic serialized length; per room version z3 / the tags decide:
  * the hashed text is the serialization of the event without exactly `unsigned`, `signatures`, `hashes` (content hash), resp.
    of redact(event, the version's redaction rules) without exactly `signatures`, `unsigned` (reference hash);
  * the result is the digest of that text (content hash: as Base64 bytes; reference hash: unpadded base64, standard alphabet up
    to room version 3, URL-safe from 4);
  * the call fails with PduSize iff that text is longer than 65,535 bytes.
Consequences in the statement (independence of unsigned/signatures, invariance under redaction given C04, sensitivity to
covered fields) follow from injectivity of the ideal primitives.  Outside the claim: SHA-256, base64 and serde_json themselves."""
import os, sys, re, itertools
sys.path.insert(0, os.path.dirname(os.path.abspath(__file__)))
from common import *
from sigsym import *

os.environ.setdefault('VERIF_MAIN_MODULE', 'c05')
KEYS = ['idval', 'common', 'signatures']
SPECIAL = [b'hashes', b'signatures', b'unsigned']
MAX_PDU = 65535


def event_entries(E, present, prefix=''):
    ents = [(b'content', cjv_obj(mk_map(E, [(b'body', cjv_str(E, b'hi'))]))), (b'type', cjv_str(E, b'm.room.message')), (b'zzz', cjv_int(7))]
    for k in SPECIAL:
        if k in present:
            ents.append((k, cjv_obj(mk_map(E, [(b'x' + k[:1], cjv_str(E, prefix.encode() + k))]))))
    return ents


def version_rules(C, E, v):
    rid = Adt('ruma_common::identifiers::room_version_id::RoomVersionId', f'V{v}', [])
    st = E.new_state()
    f = E.find_method('RoomVersionId', 'rules')
    outs = E.run_func(f, [E.root_ref(st, rid)], st=st)
    if len(outs) != 1 or outs[0].kind != 'ret' or outs[0].value.variant != 'Some':
        raise Broken(f'RoomVersionId::V{v}.rules() is not Some on one path')
    return outs[0].value.fields[0]


def run_content_hash(C, job):
    E = C.fresh_engine(KEYS, N=8)
    E.feas_mode = 'budget'; E.feas_timeout_ms = 500
    G = Sig(C, E)
    install_entry_api(E)
    f = E.find_func('functions::content_hash')
    for r in range(len(SPECIAL) + 1):
        for present in itertools.combinations(SPECIAL, r):
            label = 'content_hash{' + ','.join(k.decode() for k in present) + '}'
            ents = event_entries(E, present)
            st = E.new_state()
            obj = mk_map(E, ents)
            outs = E.run_func(f, [E.root_ref(st, obj)], [], st=st)
            C.absorb(E)
            want = snapshot(E, st, mk_map(E, [(k, v) for k, v in ents if k not in SPECIAL]))
            jlen = None
            bad, notes_ok = [], True
            for o in outs:
                ts = [n for n in o.st.notes if n[0] == 'to_string']
                if len(ts) != 1 or ts[0][1] != want:
                    C.queries.append({'name': f'{label}: serialized object == event without unsigned/signatures/hashes', 'result': 'sat', 's': 0})
                    got = sorted(k.decode() for k, _ in ts[0][1]) if ts else None
                    vec = {'op': 'c05:content_hash', 'present': [k.decode() for k in present], 'serialized_keys': got}
                    return violation(C, G, E, label, f'content_hash serializes the fields {got} (expected {sorted(k.decode() for k, _ in want)})', vec, present)
                js = G.json_cache[want]
                if o.kind != 'ret':
                    bad.append(o.cond()); continue
                if o.value.variant == 'Err':
                    is_size = 'PduSize' in repr(o.value.fields[0])
                    bad.append(z3.And(o.cond(), z3.Not(z3.UGT(js.ln, MAX_PDU)) if is_size else z3.BoolVal(True)))
                else:
                    b = o.value.fields[0]
                    payload = E.deref(o.st, b.fields[0])
                    good = isinstance(payload, Obj) and payload.kind == 'Digest' and payload.data == want
                    bad.append(z3.And(o.cond(), z3.BoolVal(not good)) if not good else z3.And(o.cond(), z3.UGT(js.ln, MAX_PDU)))
            r_, m = C.solve(f'{label}: digest of the event without unsigned/signatures/hashes; PduSize iff longer than 65535 bytes', [z3.Or(*bad) if bad else z3.BoolVal(False)])
            C.bounds[label] = {'paths': len(outs)}
            if r_ == 'sat':
                n = m.eval(G.json_cache[want].ln, model_completion=True).as_long()
                return violation(C, G, E, label, f'content_hash decides the size / digest wrongly for a canonical form of {n} bytes', {'op': 'c05:content_hash', 'present': [k.decode() for k in present], 'len': n}, present, n)
    # model validation through the native build: independent SHA-256 / canonical JSON in the replayer
    for present in ([], SPECIAL):
        res = C.native({'op': 'c05:content_hash', 'present': [k.decode() for k in present], 'len': 100})
        C.model_validation += 1
        if res.get('r') != 'ok' or not res.get('matches_independent'):
            raise Broken(f'content_hash validation vector failed natively: {res}')
    C.samples.append({'content_hash': 'all 8 shapes decided', 'native_validation': 'independent sha256 + canonical JSON agree'})


def violation(C, G, E, label, what, vec, present, n=None):
    """replay natively: the replayer recomputes the hash independently (sha2 + its own canonical JSON + field removal)"""
    if n is not None:
        vec['len'] = n
    res = C.native(vec); vec['native'] = res
    if res.get('r') in ('ok', 'err') and not res.get('matches_independent', False):
        C.report_violation(f'{label}: {what}; native: {res}', vec)
        C.samples.append({'counterexample': vec})
    else:
        raise Broken(f'{label}: {what} - does not reproduce natively: {res}')


def run_reference_hash(C, job):
    version = job
    E = C.fresh_engine(KEYS, N=8)
    E.feas_mode = 'budget'; E.feas_timeout_ms = 500
    G = Sig(C, E)
    install_entry_api(E)
    rules = version_rules(C, E, version)
    rnames = E.src.structs['room_version_rules::RoomVersionRules']
    red_rules = rules.fields[rnames.index('redaction')]
    label = f'v{version}:reference_hash'
    shape = z3.BitVec('redacted_shape', 8)
    shapes = [tuple(c) for r in range(3) for c in itertools.combinations([b'signatures', b'unsigned'], r)]
    red_objs, red_args = {}, []

    def redact(E_, st, callee, a, m):
        obj, rr, because = E_.deref(st, a[0]), E_.deref(st, a[1]), E_.deref(st, a[2])
        red_args.append((snapshot(E_, st, obj), rr, because))
        outs = []
        for i, sh in enumerate(shapes):
            if i not in red_objs:
                red_objs[i] = mk_map(E_, event_entries(E_, sh + (b'hashes',), 'red-'))
            outs.append((shape == i, ok(red_objs[i])))
        return outs
    E.overrides.insert(0, (re.compile(r'^ruma_common::canonical_json::redact$'), redact))
    f = E.find_func('functions::reference_hash')
    ents = event_entries(E, SPECIAL)
    st = E.new_state()
    obj = mk_map(E, ents)
    cons = [z3.ULT(shape, len(shapes))]
    outs = E.run_func(f, [E.root_ref(st, obj), E.root_ref(st, rules)], cons, st=st)
    C.absorb(E)
    # redact was applied to a copy of the whole event with this version's redaction rules and no redacted_because
    want_alpha = 'standard' if version <= 3 else 'url_safe'
    struct_ok = len(red_args) >= 1 and all(s == snapshot(E, st, obj) and repr(rr) == repr(red_rules) and bc.variant == 'None' for s, rr, bc in red_args)
    C.queries.append({'name': f'{label}: redact(copy of the event, RedactionRules of v{version}, None) precedes hashing', 'result': 'unsat' if struct_ok else 'sat', 's': 0})
    bad = []
    detail = None
    for o in outs:
        ts = [n for n in o.st.notes if n[0] == 'to_string']
        # which redacted shape is this path about?
        s_ = z3.Solver(); s_.add(*cons, o.cond())
        if s_.check() != z3.sat:
            continue
        k = s_.model().eval(shape, model_completion=True).as_long()
        ents_k = [(E.as_str(o.st, a_).conc(), b_) for a_, b_ in red_objs[k].data[1]]
        want = snapshot(E, o.st, mk_map(E, [(kk, v) for kk, v in ents_k if kk not in (b'signatures', b'unsigned')]))
        if len(ts) != 1 or ts[0][1] != want:
            detail = f'serialized fields {sorted(x.decode() for x, _ in ts[0][1]) if ts else None}, expected the redacted event without signatures/unsigned: {sorted(x.decode() for x, _ in want)}'
            struct_ok = False
            continue
        js = G.json_cache[want]
        if o.kind != 'ret':
            bad.append(o.cond()); continue
        if o.value.variant == 'Err':
            is_size = 'PduSize' in repr(o.value.fields[0])
            bad.append(z3.And(o.cond(), z3.Not(z3.UGT(js.ln, MAX_PDU)) if is_size else z3.BoolVal(True)))
        else:
            t = G.tag_of(o.st, o.value.fields[0])
            good = t is not None and t[0] == 'b64' and t[1] == want_alpha and t[2] == 'no_pad' and isinstance(t[3], Obj) and t[3].kind == 'Digest' and t[3].data == want
            if not good:
                detail = f'result is {t[:3] if t else None} of {"the expected digest" if t and isinstance(t[3], Obj) and t[3].data == want else "another value"}; expected unpadded {want_alpha} base64 of the digest'
            bad.append(z3.And(o.cond(), z3.BoolVal(True)) if not good else z3.And(o.cond(), z3.UGT(js.ln, MAX_PDU)))
    r_, m = C.solve(f'{label}: unpadded {want_alpha} base64 of the digest of the redacted event without signatures/unsigned; PduSize iff longer than 65535 bytes',
                    cons + [z3.Or(*bad) if bad else z3.BoolVal(False)])
    C.bounds[label] = {'paths': len(outs), 'redacted_shapes': len(shapes)}
    if r_ == 'sat' or not struct_ok:
        n = 100
        if r_ == 'sat':
            for js in G.json_cache.values():
                v = m.eval(js.ln, model_completion=True).as_long()
                if v > 1000: n = v
        vec = {'op': 'c05:reference_hash', 'version': version, 'len': n, 'alphabet_sensitive': n < 1000}
        res = C.native(vec); vec['native'] = res
        if res.get('r') in ('ok', 'err') and not res.get('matches_independent', False):
            C.report_violation(f'{label}: {detail or "size limit / digest decided wrongly"} (canonical form of {n} bytes); native: {res}', vec)
            C.samples.append({'counterexample': vec})
        else:
            raise Broken(f'{label}: {detail or "size/digest"} - does not reproduce natively: {res}')
    else:
        res = C.native({'op': 'c05:reference_hash', 'version': version, 'len': 100, 'alphabet_sensitive': True})
        C.model_validation += 1
        if res.get('r') != 'ok' or not res.get('matches_independent'):
            raise Broken(f'{label}: validation vector failed natively: {res}')
        C.samples.append({'reference_hash': label, 'alphabet': want_alpha, 'native_validation': res.get('v', '')[:16]})


def body(C):
    C.engine(KEYS, N=8)
    C.build_replayer(['signatures'])
    jobs = [(run_content_hash, None)] + [(run_reference_hash, v) for v in range(1, 12)]
    if os.environ.get('VERIF_VERSIONS'):
        vs = [int(x) for x in os.environ['VERIF_VERSIONS'].split(',')]
        jobs = [j for j in jobs if j[1] is None or j[1] in vs]
    C.assumptions += [
        'ideal primitives: serde_json::to_string is an injective function of the object (fresh string per distinct content, symbolic length), Sha256::digest and base64 are collision-free tagged values; their implementations (serde_json, sha2, base64 crates) are outside the claim',
        'canonical_json::redact is replaced by an arbitrary object (with or without signatures / unsigned) and its arguments are checked; what redact keeps is decided by C04',
        'event shapes: each of hashes / signatures / unsigned present or absent next to ordinary fields; values are opaque; the serialized length is an unconstrained 64-bit integer',
        'native replays recompute the hashes with an independent SHA-256 / canonical-JSON / redaction-table computation in the replayer, including objects padded to the size boundary',
    ]
    parallel_map(C, jobs, None)


if __name__ == '__main__':
    run_check('C05', body)
