"""Concrete reference implementations used (a) when a model is applied to constant data and (b) to refine
uninterpreted predicates against solver models (counterexample-guided): Rust's IP address text grammar
(core::net::parser), transcribed from the std source/docs."""


class _P:
    def __init__(self, b):
        self.b, self.i = b, 0

    def atomically(self, f):
        save = self.i
        r = f()
        if r is None:
            self.i = save
        return r

    def peek(self):
        return self.b[self.i] if self.i < len(self.b) else None

    def given(self, ch):
        if self.peek() == ch:
            self.i += 1
            return True
        return None

    def separator(self, sep, index, inner):
        def f():
            if index > 0 and self.given(sep) is None:
                return None
            return inner()
        return self.atomically(f)

    def number(self, radix, max_digits, allow_zero_prefix, maxval):
        def f():
            val, n = 0, 0
            has_leading_zero = self.peek() == ord('0')
            while True:
                c = self.peek()
                d = None
                if c is not None:
                    ch = chr(c)
                    if ch.isdigit() and c < 128 and int(ch) < radix:
                        d = int(ch)
                    elif radix == 16 and ch in 'abcdefABCDEF':
                        d = int(ch, 16)
                if d is None:
                    break
                self.i += 1
                val = val * radix + d
                if val > maxval:
                    return None
                n += 1
                if max_digits is not None and n > max_digits:
                    return None
            if n == 0:
                return None
            if not allow_zero_prefix and has_leading_zero and n > 1:
                return None
            return val
        return self.atomically(f)

    def ipv4(self):
        def f():
            for i in range(4):
                if self.separator(ord('.'), i, lambda: self.number(10, 3, False, 255)) is None:
                    return None
            return True
        return self.atomically(f)

    def groups(self, limit):
        for i in range(limit):
            if i < limit - 1:
                if self.separator(ord(':'), i, self.ipv4) is not None:
                    return i + 2, True
            if self.separator(ord(':'), i, lambda: self.number(16, 4, True, 0xFFFF)) is None:
                return i, False
        return limit, False

    def ipv6(self):
        def f():
            head, head_v4 = self.groups(8)
            if head == 8:
                return True
            if head_v4:
                return None
            if self.given(ord(':')) is None or self.given(ord(':')) is None:
                return None
            limit = 8 - (head + 1)
            self.groups(limit)
            return True
        return self.atomically(f)


def rust_ipv6_ok(b):
    p = _P(bytes(b))
    return p.ipv6() is not None and p.i == len(p.b)


def rust_ipv4_ok(b):
    p = _P(bytes(b))
    return p.ipv4() is not None and p.i == len(p.b)


if __name__ == '__main__':
    for s, want in [('::', True), ('::1', True), ('1::', True), ('1:2:3:4:5:6:7:8', True), ('1:2:3:4:5:6:7', False),
                    ('::ffff:1.2.3.4', True), ('1.2.3.4::', False), ('1:2:3:4:5:6:1.2.3.4', True), ('12345::', False),
                    ('1:2:3:4:5:6:7::', True), ('1:2:3:4:5:6:7:8::', False), (':::', False), ('::1.2.3.04', False),
                    ('1234:5678::abcd', True), ('', False), (':', False), ('1::2::3', False), ('::g', False)]:
        assert rust_ipv6_ok(s.encode()) == want, s
    for s, want in [('1.2.3.4', True), ('01.2.3.4', False), ('256.1.1.1', False), ('1.2.3', False), ('0.0.0.0', True)]:
        assert rust_ipv4_ok(s.encode()) == want, s
    print('ok')
