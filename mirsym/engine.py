"""MIR symbolic executor (path-based) on top of z3.

Executes the MIR bodies dumped from /repo's working tree over symbolic inputs.  Every path ends in an Outcome
(return value | panic | diverge) with its path condition.  Calls that leave the dumped crates go to the library
models registered in mirsym/models (the trusted base, listed in evidence).  Bounds (steps, frames, loop
iterations) are enforced: hitting one raises Inconclusive, never a verdict.
"""
import re, itertools, time, os, sys
import z3
from .mirparse import (parse_mir, split_top, match_paren, strip_generics, turbofish, eval_rust_str,
                       eval_rust_char, is_qself)
from .srcindex import SrcIndex, impl_key
from .values import *

BINOPS = {'Eq', 'Ne', 'Lt', 'Le', 'Gt', 'Ge', 'Add', 'Sub', 'Mul', 'Div', 'Rem', 'BitAnd', 'BitOr', 'BitXor', 'Shl', 'Shr',
          'AddWithOverflow', 'SubWithOverflow', 'MulWithOverflow', 'AddUnchecked', 'SubUnchecked', 'MulUnchecked',
          'ShlUnchecked', 'ShrUnchecked', 'Cmp', 'Offset'}
NOOP_STMTS = ('StorageLive', 'StorageDead', 'nop', 'FakeRead', 'PlaceMention', 'AscribeUserType', 'Retag', 'Coverage',
              'ConstEvalCounter', 'Deinit', '//', 'BackwardIncompatibleDropHint', 'assume(')


class Frame:
    __slots__ = ('fid', 'fn', 'locs', 'ret_dest', 'ret_bb', 'bb', 'ip', 'tsub')

    def __init__(self, fid, fn, locs, ret_dest, ret_bb, tsub=None):
        self.fid, self.fn, self.locs, self.ret_dest, self.ret_bb = fid, fn, locs, ret_dest, ret_bb
        self.bb, self.ip, self.tsub = 0, 0, tsub or {}

    def clone(self):
        f = Frame(self.fid, self.fn, dict(self.locs), self.ret_dest, self.ret_bb, self.tsub)
        f.bb, f.ip = self.bb, self.ip
        return f


class State:
    __slots__ = ('frames', 'fmap', 'pc', 'heap', 'result', 'notes', 'loopc', 'steps')

    def __init__(self):
        self.frames, self.fmap, self.pc, self.heap = [], {}, [], {}
        self.result, self.notes, self.loopc, self.steps = None, (), {}, 0

    def clone(self):
        s = State()
        s.frames = [f.clone() for f in self.frames]
        s.fmap = {f.fid: f for f in s.frames}
        if 'root' in self.fmap and 'root' not in s.fmap:
            r = self.fmap['root'].clone(); s.fmap['root'] = r
        s.pc = list(self.pc)
        s.heap = dict(self.heap)
        s.notes = self.notes
        s.loopc = dict(self.loopc)
        s.steps = self.steps
        return s

    def note(self, x):
        self.notes = self.notes + (x,)


class Outcome:
    __slots__ = ('pc', 'kind', 'value', 'st')

    def __init__(self, pc, kind, value, st):
        self.pc, self.kind, self.value, self.st = pc, kind, value, st

    def cond(self):
        return z3.And(*self.pc) if self.pc else TRUE

    def __repr__(self):
        return f'Outcome({self.kind},{self.value!r})'


class IncSolver:
    """z3 solver kept in step with the path condition of a depth-first exploration: the asserted stack is popped back to
    the common prefix (object identity of the conjuncts) and the rest pushed, instead of passing the whole path condition
    as assumptions on every feasibility check."""
    def __init__(self, keep=None):
        self.s, self.stack, self.nax, self.keep = z3.Solver(), [], 0, keep
        self.nkept = 0

    def check(self, pc, axioms, timeout):
        if len(axioms) != self.nax:
            self.s, self.stack, self.nax = z3.Solver(), [], len(axioms)
            if axioms:
                self.s.add(*axioms)
        st, n, m = self.stack, 0, min(len(self.stack), len(pc))
        while n < m and st[n] is pc[n]:
            n += 1
        if n < len(st):
            self.s.pop(len(st) - n); del st[n:]
        keep = self.keep
        for c in pc[n:]:
            self.s.push(); st.append(c)
            if keep is None or keep(c):
                self.s.add(c)
        self.s.set('timeout', timeout)
        return self.s.check()


PROGRESS = int(os.environ.get('VERIF_PROGRESS', '0') or 0)


class Engine:
    def __init__(self, N=32, max_steps=400000, max_frames=80, loop_bound=None, timeout_ms=60000):
        self.funcs = {}        # full name -> [Func]   (full name = crate::path)
        self.crate_of = {}
        self.local_roots = {}
        self.crates = []
        self.src = SrcIndex()
        self.N = N
        self.solver = IncSolver()
        self.light_solver = IncSolver(self._is_light); self._light_cache = {}
        self.timeout_ms = timeout_ms
        self.feas_timeout_ms = 300
        self.feas_mode = 'budget'
        self.ctr = itertools.count()
        self.models = []       # [(compiled regex, fn)]
        self.overrides = []    # harness-level models, highest priority
        self.stats = {'paths': 0, 'solver_checks': 0, 'forks': 0, 'calls_inlined': 0, 'calls_modelled': 0, 'steps': 0,
                      'solver_s': 0.0}
        self.max_steps, self.max_frames = max_steps, max_frames
        self.loop_bound = loop_bound if loop_bound is not None else N + 4
        self.consts = {}
        self.str_consts = {}
        self.impl_methods = {}   # (for_last, trait_last|None, item) -> [full fn names]
        self.used_models = set()
        self.used_funcs = {}
        self.fid = itertools.count(1)
        self.heap_ctr = itertools.count(1)
        self.tsub_default = {}
        self.axioms = []        # instance axioms of uninterpreted library predicates (assert in every query)
        self.uf_apps = []       # applications of uninterpreted library predicates: refined against reference impls
        self.parse_cache = {}
        from . import models
        models.register_all(self)

    # ------------------------------------------------------------------ loading
    def load_crate(self, crate, mir_path, doc_path=None):
        text = open(mir_path).read()
        fs = parse_mir(text)
        # `allocN (static: path, ..)` annotations: constants of the form `{allocN: &T}` point at that static
        self.static_allocs = getattr(self, 'static_allocs', {})
        for mm in re.finditer(r'^(alloc\d+) \(static: ([^,)]+)', text, re.M):
            self.static_allocs[(crate, mm.group(1))] = mm.group(2)
        self.crates.append(crate)
        for name, fl in fs.items():
            full = crate + '::' + name
            self.funcs.setdefault(full, []).extend(fl)
            for f in fl:
                f.crate = crate
        # impls nested in function bodies are not in the rustdoc index: index them by the type of their receiver
        self.sig_methods = getattr(self, 'sig_methods', {})
        for name, fl in fs.items():
            if '<impl at ' not in name or name.count('::{') or not name.split('>::')[-1].isidentifier():
                continue
            for f in fl:
                if not f.args:
                    continue
                t0 = f.args[0][1].lstrip('&').strip()
                if t0.startswith('mut '): t0 = t0[4:]
                tl = re.sub(r'<.*$', '', t0).split('::')[-1]
                self.sig_methods.setdefault((crate, tl, name.split('>::')[-1]), []).append(f)
        roots = self.local_roots.setdefault(crate, set())
        for name in fs:
            if not name.startswith('<') and '::' in name:
                roots.add(name.split('::')[0])
        if doc_path:
            self.src.load(doc_path)
        # index impl methods
        for name, fl in fs.items():
            key, item = impl_key(name)
            if key is None or '::' in (item or '') and not item.startswith('{'):
                # nested items (closures inside methods etc.) are reached by name only
                if key is None:
                    continue
            if not item or '::' in item:
                continue
            for rec in self.src.impls.get(key, []):
                if item in rec['items'] or not rec['items']:
                    self.impl_methods.setdefault((rec['for'].lstrip('&'), rec['trait'], item), []).append((crate + '::' + name, rec))
        return self

    # ------------------------------------------------------------------ helpers
    def fresh(self, name, sort):
        return z3.Const(f'{name}!{next(self.ctr)}', sort)

    def fresh_bv(self, name, w=64):
        return self.fresh(name, z3.BitVecSort(w))

    def fresh_bool(self, name):
        return self.fresh(name, z3.BoolSort())

    def feasible(self, pc, strict=False):
        """Path feasibility.  Non-strict (used at forks): a small solver budget; `unknown` counts as feasible, which
        only costs exploration time because every final query conjoins the full path condition anyway.
        Strict (used before a bound is reported): full budget, `unknown` is inconclusive."""
        if self.feas_mode == 'never' and not strict:
            return True
        self.stats['solver_checks'] += 1
        t = time.time()
        # stage 1: the array- and UF-free conjuncts alone (a subset: unsat here is unsat for the whole path condition)
        if True:
            if self.light_solver.check(pc, (), 500) == z3.unsat:
                self.stats['solver_s'] += time.time() - t
                self.stats['light_unsat'] = self.stats.get('light_unsat', 0) + 1
                return False
        if strict:
            # strict verdicts come from a fresh non-incremental solver (full preprocessing, full budget)
            s = z3.Solver(); s.set('timeout', self.timeout_ms)
            r = s.check(*pc, *self.axioms)
        elif getattr(self, 'feas_fresh', False):
            # one-shot solver: z3's full preprocessing + bit-blasting pipeline (array-free string harnesses decide fast here)
            s = z3.Solver(); s.set('timeout', self.feas_timeout_ms)
            s.add(*pc); s.add(*self.axioms)
            r = s.check()
        else:
            r = self.solver.check(pc, self.axioms, self.feas_timeout_ms)
        self.stats['solver_s'] += time.time() - t
        if r == z3.unknown:
            if strict:
                raise Inconclusive('solver returned unknown on a strict path-feasibility query')
            self.stats['feas_unknown'] = self.stats.get('feas_unknown', 0) + 1
            return True
        return r == z3.sat

    def unique_value(self, st, term, timeout_ms=2000):
        """the single value a bit-vector term can take under the path condition, or None (two one-shot solver calls)"""
        t = z3.simplify(term)
        if z3.is_bv_value(t):
            return t
        s = z3.Solver(); s.set('timeout', timeout_ms)
        s.add(*st.pc); s.add(*self.axioms)
        if s.check() != z3.sat:
            return None
        v = s.model().eval(t, model_completion=True)
        s.add(t != v)
        return v if s.check() == z3.unsat else None

    def _is_light(self, c):
        if isinstance(c, bool):
            return True
        k = id(c)
        r = self._light_cache.get(k)
        if r is not None:
            return r[1]
        if True:
            r, seen, stack = True, set(), [c]
            while stack:
                if not z3.is_expr(stack[-1]) or z3.is_quantifier(stack[-1]):
                    r = False; break
                e = stack.pop()
                i = e.get_id()
                if i in seen:
                    continue
                seen.add(i)
                if len(seen) > 400 or z3.is_array_sort(e) or (z3.is_app(e) and e.num_args() > 0 and e.decl().kind() == z3.Z3_OP_UNINTERPRETED):
                    r = False; break
                stack.extend(e.children())
            self._light_cache[k] = (c, r)     # keeps c alive, so id(c) stays unique
        return r

    def const_str(self, b, is_str=True):
        key = (b, is_str)
        if key not in self.str_consts:
            arr = z3.K(BV64, z3.BitVecVal(0, 8))
            for i, c in enumerate(b):
                arr = z3.Store(arr, bv(i), z3.BitVecVal(c, 8))
            self.str_consts[key] = Str(arr, bv(0), bv(len(b)), is_str, None, bytes(b))
        return self.str_consts[key]

    def sym_str_elems(self, name, maxlen, utf8=True, minlen=0):
        """like sym_str but array-free: the buffer is an explicit list of byte variables (short strings; keeps queries in
        QF_UFBV so that they are bit-blasted)"""
        elems = [z3.BitVec(f'{name}_b{j}', 8) for j in range(maxlen)]
        ln = z3.BitVec(name + '_len', 64)
        cons = [z3.ULE(ln, maxlen)]
        if minlen:
            cons.append(z3.UGE(ln, minlen))
        base = z3.K(BV64, z3.BitVecVal(0, 8))
        s = Str(base, bv(0), ln, True, maxlen, None, maxlen, elems)
        if utf8:
            cons += utf8_wf(s, maxlen)
        return s, cons

    def sym_str(self, name, maxlen=None, utf8=True, minlen=0):
        """Fresh symbolic &str with minlen <= len <= maxlen and (optionally) well-formed UTF-8.
        Returns (Str, [constraints])."""
        maxlen = self.N if maxlen is None else maxlen
        base = z3.Const(name + '_bytes', z3.ArraySort(BV64, BV8))
        ln = z3.BitVec(name + '_len', 64)
        cons = [z3.ULE(ln, maxlen)]
        if minlen:
            cons.append(z3.UGE(ln, minlen))
        s = Str(base, bv(0), ln, True, maxlen, None, maxlen)
        if utf8:
            cons += utf8_wf(s, maxlen)
        return s, cons

    # ------------------------------------------------------------------ places
    def parse_place(self, s):
        k = ('P', s)
        r = self.parse_cache.get(k)
        if r is None:
            r, j = _parse_place(s, 0)
            if j != len(s):
                raise ValueError(f'place? {s!r} (stopped at {j})')
            self.parse_cache[k] = r
        return r

    def frame(self, st, fid):
        return st.fmap[fid]

    def read_ref(self, st, r):
        return self.read_place(st, r.frame, r.local, r.proj)

    def deref(self, st, v):
        while isinstance(v, Ref):
            v = self.read_ref(st, v)
        return v

    def read_place(self, st, fid, local, proj):
        if fid == 'heap':
            v = st.heap.get(local)
            if v is None:
                v = getattr(self, 'const_heap', {}).get(local)
        else:
            v = st.fmap[fid].locs.get(local)
        for p in proj:
            v = self.project(st, fid, v, p)
        return v

    def project(self, st, fid, v, p):
        k = p[0]
        if k == 'deref':
            if isinstance(v, Ref):
                return self.read_ref(st, v)
            return v   # value-semantics pointers (Str, Seq, Obj handles)
        if k == 'field':
            if isinstance(v, (Adt, Tup)):
                try:
                    return v.fields[p[1]]
                except IndexError:
                    raise ValueError(f'field {p[1]} of {v!r}')
            if isinstance(v, Closure):
                return v.caps[p[1]]
            if isinstance(v, Obj) and v.kind == 'String' and p[1] == 0:
                return v        # owned identifier newtypes (`OwnedUserId(Box<UserId>)`) produced by into_owned / to_owned models
            if isinstance(v, Obj):
                return self.obj_field(st, v, p[1])
            if isinstance(v, (Str, Ref)):
                return v        # Box / Unique / NonNull / String wrappers around a pointer are transparent
            if v is None:
                raise ValueError('read of uninitialised place')
            raise ValueError(f'field {p[1]} of {v!r}')
        if k == 'downcast':
            return v
        if k == 'index':
            idx = st.fmap[fid].locs[p[1]]
            return self.index_value(v, idx)
        if k == 'cindex':
            i, from_end = p[1], p[2]
            if isinstance(v, Seq):
                return v.items[len(v.items) - i if from_end else i]
            if isinstance(v, Str):
                return I(v.at(v.ln - i if from_end else bv(i)), 8)
            raise ValueError(f'cindex of {v!r}')
        if k == 'subslice':
            a, b, from_end = p[1], p[2], p[3]
            if isinstance(v, Seq):
                return Seq(v.items[a:len(v.items) - b if from_end else b], v.kind)
            if isinstance(v, Str):
                hi = v.ln - b if from_end else bv(b)
                return Str(v.base, v.off + a, hi - a, v.is_str)
        raise ValueError(f'projection {p} of {v!r}')

    def obj_field(self, st, v, i):
        raise ValueError(f'field {i} of model object {v!r}')

    def index_value(self, v, idx):
        if isinstance(v, Str):
            return I(v.at(idx.v), 8)
        if isinstance(v, Seq):
            c = idx.conc()
            if c is None:
                raise Inconclusive('symbolic index into a non-byte sequence')
            return v.items[c]
        raise ValueError(f'index of {v!r}')

    def write_place(self, st, fid, local, proj, val):
        # redirect through the last deref of a Ref
        for k in range(len(proj) - 1, -1, -1):
            if proj[k][0] == 'deref':
                r = self.read_place(st, fid, local, proj[:k])
                if isinstance(r, Ref):
                    return self.write_place(st, r.frame, r.local, r.proj + tuple(proj[k + 1:]), val)
                # deref of a value-semantics pointer: treat as transparent
        if fid == 'heap':
            root = st.heap.get(local)
            st.heap[local] = self._upd(st, fid, root, list(proj), val)
        else:
            fr = st.fmap[fid]
            fr.locs[local] = self._upd(st, fid, fr.locs.get(local), list(proj), val)

    def _upd(self, st, fid, v, proj, val):
        if not proj:
            return val
        p = proj[0]
        if p[0] in ('downcast', 'deref'):
            return self._upd(st, fid, v, proj[1:], val)
        if p[0] == 'field':
            if isinstance(v, Adt):
                f = list(v.fields)
                while len(f) <= p[1]: f.append(None)
                f[p[1]] = self._upd(st, fid, f[p[1]], proj[1:], val); return Adt(v.ty, v.variant, f)
            if isinstance(v, Tup):
                f = list(v.fields)
                while len(f) <= p[1]: f.append(None)
                f[p[1]] = self._upd(st, fid, f[p[1]], proj[1:], val); return Tup(f)
            if v is None:
                f = [None] * (p[1] + 1)
                f[p[1]] = self._upd(st, fid, None, proj[1:], val); return Tup(f)
            if isinstance(v, Closure):
                f = list(v.caps); f[p[1]] = self._upd(st, fid, f[p[1]], proj[1:], val); return Closure(v.fn, f)
        if p[0] == 'index' and isinstance(v, Seq):
            c = st.fmap[fid].locs[p[1]].conc()
            if c is None:
                raise Inconclusive('symbolic index write')
            it = list(v.items); it[c] = self._upd(st, fid, it[c], proj[1:], val); return Seq(it, v.kind)
        if p[0] == 'cindex' and isinstance(v, Seq):
            it = list(v.items); i = len(it) - p[1] if p[2] else p[1]
            it[i] = self._upd(st, fid, it[i], proj[1:], val); return Seq(it, v.kind)
        raise ValueError(f'write projection {p} into {v!r}')

    def load(self, st, r):
        """value behind a (possibly nested) reference"""
        return self.deref(st, r)

    def store(self, st, r, val):
        """write through a reference value (follows Ref chains to the final place)"""
        assert isinstance(r, Ref), r
        cur = self.read_ref(st, r)
        if isinstance(cur, Ref):
            return self.store(st, cur, val)
        self.write_place(st, r.frame, r.local, r.proj, val)

    def alloc(self, st, val):
        hid = next(self.heap_ctr)
        st.heap[hid] = val
        return Ref('heap', hid)

    # ------------------------------------------------------------------ operands / rvalues
    def eval_const(self, st, s, ty_hint=None):
        s = s.strip()
        m = re.match(r'^(-?\d+)_(\w+)$', s)
        if m and m.group(2) in INT_TYPES:
            w, sg = INT_TYPES[m.group(2)]
            return I(int(m.group(1)), w, sg)
        if s == 'true': return TRUE
        if s == 'false': return FALSE
        if s == '()': return UNIT
        if s.startswith('"'):
            return self.const_str(eval_rust_str(s))
        if s.startswith('b"'):
            b = eval_rust_str(s[1:])
            return self.const_str(b, False)
        if s.startswith("b'"):
            return I(ord(eval_rust_char(s[1:])), 8)
        if s.startswith("'"):
            return I(ord(eval_rust_char(s)), 32)
        if s.startswith('ZeroSized:'):
            return self.eval_zst(st, s[len('ZeroSized:'):].strip())
        m = re.match(r'^\{closure@(.*)\}$', s)
        if m:
            return Closure(self.closure_fn_by_span(st, m.group(1)), [])
        ma = re.match(r'^\{(alloc\d+): &', s)
        if ma and st.frames:
            path = getattr(self, 'static_allocs', {}).get((st.frames[-1].fn.crate, ma.group(1)))
            if path is None:
                raise Inconclusive('constant pointing into an unnamed allocation: ' + s)
            key = ('static', st.frames[-1].fn.crate, path)
            if key not in self.parse_cache:
                # a reference to the static: its value lives in a constant heap cell shared by all states
                val = self.eval_path_const(st, path)
                self.const_heap = getattr(self, 'const_heap', {})
                hid = next(self.heap_ctr)
                self.const_heap[hid] = val
                self.parse_cache[key] = Ref('heap', hid)
            r = self.parse_cache[key]
            st.heap[r.local] = self.const_heap[r.local]
            return r
        if s.startswith('{transmute(') or s.startswith('{0x'):
            m = re.match(r'^\{(?:transmute\()?(0x[0-9a-f]+)\)?: (.*)\}$', s)
            if m:
                ty = m.group(2)
                if ty in INT_TYPES:
                    w, sg = INT_TYPES[ty]; return I(int(m.group(1), 16), w, sg)
                if ty == 'bool':
                    return z3.BoolVal(int(m.group(1), 16) != 0)
                return Opaque('transmute:' + ty, int(m.group(1), 16))
        # aggregate constants: `Path::<..>::Variant(const args)` / `Path { f: const, .. }`
        if s.endswith(')') and not s.startswith('<'):
            op = match_paren(s, len(s) - 1)
            if op and re.match(r'^[A-Za-z_][\w:<>, &\[\]\']*$', s[:op]):
                args = [self.eval_const(st, a[6:] if a.startswith('const ') else a) for a in split_top(s[op + 1:-1])]
                return self.mk_adt(strip_generics(s[:op]), args)
        m = re.match(r'^([A-Za-z_][\w:<>, &]*) \{ (.*) \}$', s)
        if m:
            flds = []
            for f in split_top(m.group(2)):
                val = f.split(': ', 1)[1]
                flds.append(self.eval_const(st, val[6:] if val.startswith('const ') else val))
            return self.mk_adt(strip_generics(m.group(1)), flds)
        # `Type::<..>::CONST`, `path::CONST`, `<T as Trait>::CONST`, fn items, unit structs / unit variants
        return self.eval_path_const(st, s)

    def eval_zst(self, st, t):
        m = re.match(r'^\{closure@(.*)\}$', t)
        if m:
            return Closure(self.closure_fn_by_span(st, m.group(1)), [])
        if t.startswith('fn('):
            return FnItem(t)
        return Opaque('zst:' + t)

    def eval_path_const(self, st, s):
        pm = re.search(r'::(promoted\[\d+\])$', s)
        if pm and st.frames:
            # a promoted constant always belongs to the function that mentions it
            fr = st.frames[-1]
            own = self.funcs.get(fr.fn.crate + '::' + fr.fn.name + '::' + pm.group(1))
            if own and len(own) == 1:
                return self.eval_const_fn(own[0], st)
        cm = getattr(self, 'const_models', {}).get(strip_generics(s))
        if cm is not None:
            return cm
        cur = st.frames[-1].fn.crate if st.frames else None
        cands = self.resolve(s, cur, None, st)
        if cands:
            f = cands
            if f.kind in ('const', 'static'):
                return self.eval_const_fn(f, st)
            return FnItem(s, cur)
        name = strip_generics(s)
        # unit struct / variant / fn item from elsewhere
        if '::' in name:
            ty, var = name.rsplit('::', 1)
            vs = self.variants_of(ty)
            if vs and var in vs:
                return Adt(self.canon_ty(ty), var, [])
        if self.lookup_struct(name) is not None:
            return Adt(self.canon_ty(name), None, [])
        return FnItem(s, cur)

    def eval_const_fn(self, f, st=None):
        key = id(f)
        if key in self.consts:
            return self.consts[key]
        sub = State()
        if st is not None:
            pass
        outs = self.run_func(f, [], [], keep_state=True)
        if len(outs) != 1 or outs[0].kind != 'ret':
            raise Inconclusive(f'const evaluation of {f.name} is not a single returning path: {outs}')
        self.const_heap = getattr(self, 'const_heap', {})
        v = self.relocate(outs[0].st, outs[0].value, {})
        self.const_heap.update(outs[0].st.heap)
        if st is not None:
            st.heap.update(self.const_heap)
        self.consts[key] = v
        return v

    def relocate(self, st, v, memo):
        """move everything a constant's value points to (in its evaluation frames) into heap cells"""
        if isinstance(v, Ref):
            if v.frame == 'heap':
                return v
            k = (v.frame, v.local, v.proj)
            if k not in memo:
                hid = next(self.heap_ctr)
                memo[k] = Ref('heap', hid)
                st.heap[hid] = self.relocate(st, self.read_ref(st, v), memo)
            return memo[k]
        if isinstance(v, Adt):
            return Adt(v.ty, v.variant, [self.relocate(st, x, memo) for x in v.fields])
        if isinstance(v, Tup):
            return Tup([self.relocate(st, x, memo) for x in v.fields])
        if isinstance(v, Seq):
            return Seq([self.relocate(st, x, memo) for x in v.items], v.kind)
        if isinstance(v, Closure):
            return Closure(v.fn, [self.relocate(st, x, memo) for x in v.caps])
        return v

    def closure_fn_by_span(self, st, span):
        key = ('C', span)
        if key in self.parse_cache:
            return self.parse_cache[key]
        for name, fl in self.funcs.items():
            if '{closure' in name:
                for f in fl:
                    if f.nargs >= 1 and span in f.locals.get(1, ''):
                        self.parse_cache[key] = f
                        return f
        raise Inconclusive('closure body not found for span ' + span)

    def eval_operand(self, st, s):
        s = s.strip()
        if s.startswith('copy ') or s.startswith('move '):
            l, p = self.parse_place(s[5:])
            return self.read_place(st, st.frames[-1].fid, l, p)
        if s.startswith('const '):
            return self.eval_const(st, s[6:])
        if s.startswith('no_retag '):
            return self.eval_operand(st, s[9:])
        if re.match(r'^[A-Za-z_<]', s):
            # function items / unit constants are printed without the `const` keyword in operand position
            return self.eval_const(st, s)
        raise ValueError('operand? ' + s)

    def eval_rvalue(self, st, s, dest_ty=None):
        s = s.strip()
        fid = st.frames[-1].fid
        if s.startswith('no_retag '):
            s = s[9:]
        if s.startswith(('copy ', 'move ', 'const ')):
            m = re.match(r'^(.*) as (.+?) \((\w+)(\(.*\))?\)$', s)
            if m and not s.startswith('const "'):
                # the cast's ` as ` is the last one outside brackets (types may contain `<E as Trait>::Assoc`)
                d_, cut = 0, None
                for j, ch in enumerate(s):
                    if ch in '<([': d_ += 1
                    elif ch in ')]' or (ch == '>' and s[j - 1] != '-'): d_ -= 1
                    elif d_ == 0 and s.startswith(' as ', j): cut = j
                m2 = re.match(r'^(.+?) \((\w+)(\(.*\))?\)$', s[cut + 4:]) if cut is not None else None
                if m2:
                    v = self.eval_operand(st, s[:cut])
                    return self.cast(st, v, m2.group(1).strip(), m2.group(2), m2.group(3))
                v = self.eval_operand(st, m.group(1))
                return self.cast(st, v, m.group(2).strip(), m.group(3), m.group(4))
            return self.eval_operand(st, s)
        if s.startswith('&'):
            body = s[1:]
            for pre in ('mut ', 'raw const ', 'raw mut ', 'fake shallow ', 'fake '):
                if body.startswith(pre):
                    body = body[len(pre):]
            l, p = self.parse_place(body)
            if p and p[-1] == ('deref',):
                v = self.read_place(st, fid, l, p[:-1])
                if isinstance(v, (Ref, Str, Seq)):
                    return v
                if isinstance(v, Obj) and v.kind in ('handle',):
                    return v
            v = self.read_place(st, fid, l, p)
            if isinstance(v, Str) and p:
                return v      # a reference to (a projection of) an unsized str/[u8] place is the fat pointer itself
            if isinstance(v, Seq) and p and p[-1][0] in ('deref', 'subslice'):
                return v
            # reference to a place; canonicalise through leading derefs of Refs so it survives frame pops
            return self.mkref(st, fid, l, p)
        m = re.match(r'^(\w+)\((.*)\)$', s)
        if m:
            op, inner = m.group(1), m.group(2)
            if op in BINOPS:
                a, b = [self.eval_operand(st, x) for x in split_top(inner)]
                return self.binop(op, a, b)
            if op == 'Not':
                a = self.eval_operand(st, inner)
                return z3.simplify(z3.Not(a)) if z3.is_bool(a) else I(~a.v, a.w, a.s)
            if op == 'Neg':
                a = self.eval_operand(st, inner); return I(-a.v, a.w, a.s)
            if op == 'PtrMetadata':
                a = self.deref_fat(st, self.eval_operand(st, inner))
                if isinstance(a, Str): return I(a.ln, 64)
                if isinstance(a, Seq): return I(len(a.items), 64)
                raise ValueError('PtrMetadata of ' + repr(a))
            if op == 'discriminant':
                l, p = self.parse_place(inner)
                v = self.read_place(st, fid, l, p)
                if isinstance(v, SymEnum):
                    return I(v.v, 64, True)
                if isinstance(v, SymOrdering):
                    return I(z3.SignExt(56, v.v), 64, True)            # Less = -1, Equal = 0, Greater = 1
                if isinstance(v, Adt) and v.ty.endswith('cmp::Ordering') and v.variant in ('Less', 'Equal', 'Greater'):
                    return I({'Less': -1, 'Equal': 0, 'Greater': 1}[v.variant], 64, True)
                return I(self.variant_index(v), 64, True)
            if op == 'Len':
                l, p = self.parse_place(inner); v = self.read_place(st, fid, l, p)
                if isinstance(v, Str): return I(v.ln, 64)
                if isinstance(v, Seq): return I(len(v.items), 64)
                raise ValueError('Len of ' + repr(v))
            if op == 'CopyForDeref':
                l, p = self.parse_place(inner); return self.read_place(st, fid, l, p)
            if op in ('UbChecks', 'ContractChecks'):
                return FALSE
            if op in ('SizeOf', 'AlignOf'):
                return I(self.fresh_bv('sizeof'), 64)
            if op == 'ShallowInitBox':
                return self.alloc(st, None)
        if s.startswith('(') and s.endswith(')') and match_paren(s, len(s) - 1) == 0:
            return Tup([self.eval_operand(st, x) for x in split_top(s[1:-1])])
        if s.startswith('[') and s.endswith(']'):
            inner = s[1:-1]
            parts = split_top(inner, ';')
            if len(parts) == 2 and not inner.startswith('const "'):
                v = self.eval_operand(st, parts[0]); n = self.eval_arr_len(parts[1])
                return self.mkseq([v] * n, 'array')
            return self.mkseq([self.eval_operand(st, x) for x in split_top(inner)], 'array')
        m = re.match(r'^\{closure@(.*?)\}(?: \{ (.*) \})?$', s)
        if m:
            caps = []
            if m.group(2):
                for fld in split_top(m.group(2)):
                    caps.append(self.eval_operand(st, fld.split(': ', 1)[1]))
            return Closure(self.closure_fn_by_span(st, m.group(1)), caps)
        m = re.match(r'^(.*?) \{ (.*) \}$', s)
        if m and not m.group(1).endswith('closure'):
            path = strip_generics(m.group(1))
            flds = [self.eval_operand(st, f.split(': ', 1)[1]) for f in split_top(m.group(2))]
            return self.mk_adt(path, flds)
        if s.endswith(')'):
            op = match_paren(s, len(s) - 1)
            if op and '::' in s[:op] or op and re.match(r'^[\w:<>]+$', s[:op]):
                path = strip_generics(s[:op])
                return self.mk_adt(path, [self.eval_operand(st, x) for x in split_top(s[op + 1:-1])])
        if re.match(r'^[\w:<>, &\[\]\']+$', s) or re.match(r'^[\w:<>, &\[\]\']+$', strip_generics(s)):
            return self.mk_adt(strip_generics(s), [])
        raise ValueError('rvalue? ' + s)

    def eval_arr_len(self, s):
        s = s.strip()
        m = re.match(r'^(?:const )?(\d+)(?:_usize)?$', s)
        if m: return int(m.group(1))
        raise ValueError('array length? ' + s)

    def mkseq(self, items, kind):
        # arrays of bytes become Str so that byte models apply
        if items and all(isinstance(x, I) and x.w == 8 for x in items):
            arr = z3.K(BV64, z3.BitVecVal(0, 8))
            for i, c in enumerate(items):
                arr = z3.Store(arr, bv(i), c.v)
            return Str(arr, bv(0), bv(len(items)), False)
        return Seq(items, kind)

    def mkref(self, st, fid, l, p):
        # follow leading Ref derefs so the resulting Ref names the ultimate owner
        for k in range(len(p)):
            if p[k] == ('deref',):
                v = self.read_place(st, fid, l, p[:k])
                if isinstance(v, Ref):
                    return self.mkref(st, v.frame, v.local, tuple(v.proj) + tuple(p[k + 1:]))
        # index projections depend on a frame local: freeze them to constants
        q = []
        for e in p:
            if e[0] == 'index':
                c = st.fmap[fid].locs[e[1]].conc()
                if c is None:
                    raise Inconclusive('reference to symbolic index')
                q.append(('cindex', c, False))
            else:
                q.append(e)
        return Ref(fid, l, q)

    def deref_fat(self, st, v):
        while isinstance(v, Ref):
            v = self.read_ref(st, v)
        return v

    def canon_ty(self, ty):
        return ty

    def variants_of(self, ty):
        vs = self.src.enum_variants(ty)
        if vs is not None:
            return vs
        if ty in FOREIGN_ENUMS:
            return FOREIGN_ENUMS[ty]
        last = ty.split('::')[-1]
        return BUILTIN_ENUMS.get(last) if (ty.startswith(('std::', 'core::', 'alloc::')) or '::' not in ty) else self._enum_by_suffix(ty)

    def _enum_by_suffix(self, ty):
        for k, v in self.src.enums.items():
            if ty.endswith('::' + k) or k.endswith('::' + ty):
                return v
        last = ty.split('::')[-1]
        # re-exported types are printed through their public path: unique last segment
        hits = [v for k, v in self.src.enums.items() if k.split('::')[-1] == last]
        if len(hits) == 1:
            return hits[0]
        return BUILTIN_ENUMS.get(last)

    def lookup_struct(self, ty):
        if ty in self.src.structs:
            return self.src.structs[ty]
        head, _, rest = ty.partition('::')
        if rest in self.src.structs:
            return self.src.structs[rest]
        return None

    def mk_adt(self, path, flds):
        # struct, tuple struct, or enum variant?
        if '::' in path:
            ty, var = path.rsplit('::', 1)
            vs = self.variants_of(ty)
            if vs is not None and var in vs:
                return Adt(ty, var, flds)
        return Adt(path, None, flds)

    def variant_index(self, v):
        if isinstance(v, SymOrdering):
            raise ValueError('symbolic Ordering: use discriminant_value')
        if isinstance(v, Ref):
            raise ValueError('discriminant of a reference')
        if not isinstance(v, Adt):
            raise ValueError('discriminant of ' + repr(v))
        if v.variant is None:
            return 0
        vs = self.variants_of(v.ty)
        if vs is None:
            raise Inconclusive(f'unknown enum {v.ty} (variant {v.variant})')
        idx = vs.index(v.variant)
        d = self.src.enum_discr.get(v.ty) or self.src.enum_discr.get(v.ty.partition('::')[2])
        return d[idx] if d else idx

    def cast(self, st, v, ty, kind, extra=None):
        if kind == 'IntToInt':
            if ty not in INT_TYPES:
                raise ValueError('IntToInt to ' + ty)
            w, sg = INT_TYPES[ty]
            if z3.is_bool(v):
                return I(z3.If(v, z3.BitVecVal(1, w), z3.BitVecVal(0, w)), w, sg)
            if isinstance(v, Adt):   # fieldless enum as integer
                return I(self.variant_index(v), w, sg)
            if isinstance(v, SymEnum):
                return I(z3.Extract(w - 1, 0, v.v) if w < 64 else v.v, w, sg)
            if w == v.w: return I(v.v, w, sg)
            if w < v.w: return I(z3.Extract(w - 1, 0, v.v), w, sg)
            return I(z3.SignExt(w - v.w, v.v) if v.s else z3.ZeroExt(w - v.w, v.v), w, sg)
        if kind == 'Transmute':
            if ty in INT_TYPES and isinstance(v, I):
                w, sg = INT_TYPES[ty]
                return I(v.v, w, sg) if w == v.w else self.cast(st, v, ty, 'IntToInt')
            return v
        if kind == 'PointerCoercion' and extra and 'Unsize' in extra:
            d = self.deref_fat(st, v) if isinstance(v, Ref) else v
            if isinstance(d, (Seq, Str)):
                return d          # &[T; N] -> &[T]
            return v
        return v   # pointer casts, reifications: identity

    def binop(self, op, a, b):
        if z3.is_bool(a):
            if op == 'Cmp':
                raise ValueError('Cmp on bool')
            f = {'Eq': lambda: a == b, 'Ne': lambda: a != b, 'BitAnd': lambda: z3.And(a, b),
                 'BitOr': lambda: z3.Or(a, b), 'BitXor': lambda: z3.Xor(a, b),
                 'Lt': lambda: z3.And(z3.Not(a), b), 'Le': lambda: z3.Implies(a, b),
                 'Gt': lambda: z3.And(a, z3.Not(b)), 'Ge': lambda: z3.Implies(b, a)}[op]
            return z3.simplify(f())
        if isinstance(a, Adt) and isinstance(b, Adt) and op in ('Eq', 'Ne'):
            e = self.variant_index(a) == self.variant_index(b)
            return z3.BoolVal(e if op == 'Eq' else not e)
        x, y, w, s = a.v, b.v, a.w, a.s
        if op in ('Shl', 'Shr', 'ShlUnchecked', 'ShrUnchecked') and b.w != w:
            y = z3.ZeroExt(w - b.w, y) if b.w < w else z3.Extract(w - 1, 0, y)
        cmpf = {'Eq': lambda: x == y, 'Ne': lambda: x != y,
                'Lt': lambda: (x < y) if s else z3.ULT(x, y), 'Le': lambda: (x <= y) if s else z3.ULE(x, y),
                'Gt': lambda: (x > y) if s else z3.UGT(x, y), 'Ge': lambda: (x >= y) if s else z3.UGE(x, y)}
        if op in cmpf:
            return z3.simplify(cmpf[op]())
        ar = {'Add': lambda: x + y, 'Sub': lambda: x - y, 'Mul': lambda: x * y,
              'AddUnchecked': lambda: x + y, 'SubUnchecked': lambda: x - y, 'MulUnchecked': lambda: x * y,
              'BitAnd': lambda: x & y, 'BitOr': lambda: x | y, 'BitXor': lambda: x ^ y,
              'Shl': lambda: x << y, 'Shr': lambda: (x >> y) if s else z3.LShR(x, y),
              'ShlUnchecked': lambda: x << y, 'ShrUnchecked': lambda: (x >> y) if s else z3.LShR(x, y),
              'Div': lambda: (x / y) if s else z3.UDiv(x, y), 'Rem': lambda: z3.SRem(x, y) if s else z3.URem(x, y)}
        if op in ar:
            return I(ar[op](), w, s)
        if op == 'AddWithOverflow':
            ov = z3.Not(z3.BVAddNoOverflow(x, y, s)) if not s else z3.Or(z3.Not(z3.BVAddNoOverflow(x, y, True)), z3.Not(z3.BVAddNoUnderflow(x, y)))
            return Tup([I(x + y, w, s), z3.simplify(ov)])
        if op == 'SubWithOverflow':
            ov = z3.ULT(x, y) if not s else z3.Or(z3.Not(z3.BVSubNoOverflow(x, y)), z3.Not(z3.BVSubNoUnderflow(x, y, True)))
            return Tup([I(x - y, w, s), z3.simplify(ov)])
        if op == 'MulWithOverflow':
            ov = z3.Not(z3.BVMulNoOverflow(x, y, s)) if not s else z3.Or(z3.Not(z3.BVMulNoOverflow(x, y, True)), z3.Not(z3.BVMulNoUnderflow(x, y)))
            return Tup([I(x * y, w, s), z3.simplify(ov)])
        if op == 'Cmp':
            lt = (x < y) if s else z3.ULT(x, y)
            return SymOrdering(z3.If(lt, z3.BitVecVal(-1, 8), z3.If(x == y, z3.BitVecVal(0, 8), z3.BitVecVal(1, 8))))
        raise ValueError('binop ' + op)

    # ------------------------------------------------------------------ execution
    def new_state(self, pc0=()):
        st = State()
        st.pc = list(pc0)
        root = Frame('root', None, {}, None, None)
        st.fmap['root'] = root
        if getattr(self, 'const_heap', None):
            st.heap.update(self.const_heap)
        return st

    def root_ref(self, st, val):
        """place `val` in the harness root frame and return a reference to it (for &mut arguments)"""
        root = st.fmap['root']
        k = len(root.locs) + 1
        root.locs[k] = val
        return Ref('root', k)

    def find_func(self, name):
        """harness entry: resolve a function by (suffix of) its full name; must be unique"""
        if name in self.funcs and len(self.funcs[name]) == 1:
            return self.funcs[name][0]
        c = [f for k, fl in self.funcs.items() if k.endswith('::' + name) or k == name for f in fl]
        if len(c) == 1:
            return c[0]
        raise KeyError(f'{name}: {len(c)} candidate bodies')

    def find_method(self, ty_last, item, trait=None, pick=None):
        """resolve `Type::item` / `<Type as Trait>::item` through the impl index"""
        c = self.impl_methods.get((ty_last, trait, item), [])
        fl = []
        for full, rec in c:
            for f in self.funcs[full]:
                if f not in fl: fl.append(f)
        if pick:
            fl = [f for f in fl if pick(f)]
        if len(fl) == 1:
            return fl[0]
        raise KeyError(f'{ty_last}::{item} (trait {trait}): {len(fl)} candidate bodies')

    def run_func(self, f, args, pc0=(), st=None, keep_state=True, tsub=None):
        """Run Func `f` on all paths from state st (or a fresh one).  Returns [Outcome]."""
        if st is None:
            st = self.new_state(pc0)
        else:
            st = st.clone(); st.pc = list(st.pc) + list(pc0)
        st.result = None
        base_depth = len(st.frames)
        self.push_frame(st, f, args, None, None, tsub)
        work, outs = [st], []
        while work:
            st = work.pop()
            try:
                while st.result is None:
                    st.steps += 1; self.stats['steps'] += 1
                    if PROGRESS and self.stats['steps'] % PROGRESS == 0:
                        print(f"[progress] steps={self.stats['steps']} paths={self.stats['paths']} work={len(work)} pc={len(st.pc)} stack={[fr.fn.name[-40:] for fr in st.frames[-6:]]}", file=sys.stderr, flush=True)
                    if st.steps > self.max_steps:
                        raise Inconclusive('step budget exceeded on a feasible path (bound too small)')
                    forks = self.step(st, base_depth)
                    if forks is not None:
                        self.stats['forks'] += max(0, len(forks) - 1)
                        if not forks:
                            st = None; break
                        work.extend(forks[1:])
                        st = forks[0]
                if st is not None:
                    outs.append(Outcome(st.pc, st.result[0], st.result[1], st))
                    self.stats['paths'] += 1
            except Panic as e:
                outs.append(Outcome(st.pc, 'panic', str(e), st))
                self.stats['paths'] += 1
            except Inconclusive:
                # a bound / unsupported construct on an infeasible path is not a problem: verify feasibility first
                if self.feasible(st.pc, strict=True):
                    raise
                self.stats['pruned_late'] = self.stats.get('pruned_late', 0) + 1
        return outs

    def run(self, name, args, pc0=(), **kw):
        f = name if not isinstance(name, str) else self.find_func(name)
        return self.run_func(f, args, pc0, **kw)

    def push_frame(self, st, f, args, ret_dest, ret_bb, tsub=None):
        if len(st.frames) >= self.max_frames:
            raise Inconclusive('frame depth bound exceeded (recursion deeper than bound)')
        fid = next(self.fid)
        locs = {}
        if len(args) != f.nargs:
            # closures called through Fn* traits get (closure, (args,)) : spread the tuple ("rust-call" ABI)
            if f.nargs == len(args) - 1 + (len(args[-1].fields) if isinstance(args[-1], Tup) else 0) and isinstance(args[-1], Tup):
                args = list(args[:-1]) + list(args[-1].fields)
            else:
                raise ValueError(f'arity mismatch calling {f.name}: {len(args)} vs {f.nargs}')
        for (k, _), a in zip(f.args, args):
            locs[k] = a
        fr = Frame(fid, f, locs, ret_dest, ret_bb, tsub)
        st.frames.append(fr); st.fmap[fid] = fr
        self.used_funcs[f.crate + '::' + f.name] = f.text_hash

    def do_return(self, st, val, base_depth):
        fr = st.frames.pop()
        if len(st.frames) == base_depth:
            # the entry frame stays addressable: constants / promoteds return references into it
            st.result = ('ret', val); return
        del st.fmap[fr.fid]
        caller = st.frames[-1]
        if fr.ret_dest is not None:
            l, p = fr.ret_dest
            self.write_place(st, caller.fid, l, p, val)
        if fr.ret_bb is None:
            st.result = ('diverge', None); return
        caller.bb, caller.ip = fr.ret_bb, 0

    def branch(self, st, alts):
        """alts: [(z3 cond, continuation(state))] -> feasible successor states"""
        live = []
        for cond, k in alts:
            c = z3.simplify(cond) if not isinstance(cond, bool) else z3.BoolVal(cond)
            if z3.is_false(c):
                continue
            live.append((c, k))
        res = []
        for n, (c, k) in enumerate(live):
            s2 = st.clone() if n < len(live) - 1 else st
            if not z3.is_true(c):
                s2.pc.append(c)
                if not self.feasible(s2.pc):
                    continue
            try:
                k(s2)
            except Panic as e:
                s2.result = ('panic', str(e))
            res.append(s2)
        return res

    def step(self, st, base_depth):
        fr = st.frames[-1]
        f = fr.fn
        stmts, term = f.blocks[fr.bb]
        was_term = fr.ip >= len(stmts)
        try:
            if fr.ip < len(stmts):
                s = stmts[fr.ip]; fr.ip += 1
                self.exec_stmt(st, fr, s)
                return None
            return self.exec_term(st, fr, term, base_depth)
        except (ValueError, KeyError, AttributeError, IndexError, AssertionError, TypeError) as e:
            if getattr(e, '_mirsym_ctx', False):
                raise
            cur = term if was_term else stmts[fr.ip - 1]
            if os.environ.get('VERIF_DEBUG'):
                import traceback; traceback.print_exc()
            err = Inconclusive(f'engine cannot execute `{cur[:200]}` in {f.name} bb{fr.bb}: {type(e).__name__}: {e}')
            raise err from e

    def exec_stmt(self, st, fr, s):
        if s.startswith(NOOP_STMTS):
            return
        m = re.match(r'^discriminant\((.*)\) = (\d+)$', s)
        if m:
            l, p = self.parse_place(m.group(1))
            v = self.read_place(st, fr.fid, l, p)
            ty = self.local_type_of_place(fr, l, p)
            vs = self.variants_of(strip_generics(ty)) if ty else None
            if vs is None:
                raise Inconclusive('SetDiscriminant on unknown enum ' + str(ty))
            idx = int(m.group(2))
            flds = v.fields if isinstance(v, (Adt, Tup)) else ()
            self.write_place(st, fr.fid, l, p, Adt(strip_generics(ty), vs[idx], flds))
            return
        lhs, rhs = split_assign(s)
        v = self.eval_rvalue(st, rhs)
        l, p = self.parse_place(lhs)
        self.write_place(st, fr.fid, l, p, v)

    def local_type_of_place(self, fr, l, p):
        if not p:
            return fr.fn.locals.get(l)
        return None

    def exec_term(self, st, fr, t, base_depth):
        fid = fr.fid
        if t.startswith('goto -> bb'):
            self.jump(st, fr, int(t[10:])); return None
        if t == 'return':
            self.do_return(st, fr.locs.get(0, UNIT), base_depth); return None
        if t == 'unreachable':
            raise Inconclusive('reached MIR `unreachable` in ' + fr.fn.name)
        if t.startswith('switchInt('):
            m = re.match(r'^switchInt\((.*)\) -> \[(.*)\]$', t)
            v = self.eval_operand(st, m.group(1))
            targets = []
            for ent in m.group(2).split(', '):
                k, bb = ent.strip().split(': ')
                targets.append((k, int(bb[2:])))
            if z3.is_bool(v):
                if z3.is_true(v): v = I(1, 8)
                elif z3.is_false(v): v = I(0, 8)
                else: v = I(z3.If(v, z3.BitVecVal(1, 8), z3.BitVecVal(0, 8)), 8)
            if isinstance(v, SymOrdering):
                v = I(v.v, 8, True)
            c = v.conc()
            if c is not None:
                mask = (1 << v.w) - 1
                for k, bb in targets:
                    if k != 'otherwise' and (int(k) & mask) == (c & mask):
                        self.jump(st, fr, bb); return None
                self.jump(st, fr, dict(targets)['otherwise']); return None
            alts, others = [], []
            for k, bb in targets:
                def go(s2, bb=bb):
                    self.jump(s2, s2.fmap[fid], bb)
                if k == 'otherwise':
                    alts.append((z3.And(*[v.v != z3.BitVecVal(int(x), v.w) for x in others]) if others else TRUE, go))
                else:
                    others.append(k)
                    alts.append((v.v == z3.BitVecVal(int(k), v.w), go))
            return self.branch(st, alts)
        if t.startswith('assert('):
            m = re.match(r'^assert\((!?)(.*?), "(.*)"(.*)\) -> \[success: bb(\d+), .*\]$', t)
            if not m:
                m2 = re.match(r'^assert\((!?)(.*?), (.*)\) -> \[success: bb(\d+), .*\]$', t)
                neg, cs, msg, bb = m2.group(1), m2.group(2), m2.group(3), int(m2.group(4))
            else:
                neg, cs, msg, bb = m.group(1), m.group(2), m.group(3), int(m.group(5))
            c = self.eval_operand(st, cs)
            if neg:
                c = z3.Not(c)
            fname = fr.fn.name
            def okk(s2):
                self.jump(s2, s2.fmap[fid], bb)
            def bad(s2):
                s2.result = ('panic', f'assert failed in {fname}: {msg}')
            return self.branch(st, [(c, okk), (z3.Not(c), bad)])
        if t.startswith('drop('):
            m = re.match(r'^drop\((.*)\) -> \[return: bb(\d+).*\]$', t)
            self.jump(st, fr, int(m.group(2))); return None
        if t.startswith('falseEdge') or t.startswith('falseUnwind'):
            m = re.search(r'\[real: bb(\d+)', t)
            self.jump(st, fr, int(m.group(1))); return None
        if t == 'resume' or t.startswith('terminate') or t.startswith('abort'):
            raise Inconclusive('unwind path reached')
        m = re.match(r'^(?:(.*?) = )?(.*) -> (\[return: bb(\d+).*\]|unwind .*)$', t)
        if m:
            dest, callexpr = m.group(1), m.group(2)
            # dest may contain ' = ' inside types only in pathological cases; check balance
            if dest is not None and not balanced(dest):
                dest, callexpr = split_assign(t[:t.rindex(' -> ')])
            ret_bb = int(m.group(4)) if m.group(4) else None
            close = len(callexpr) - 1
            assert callexpr[close] == ')', callexpr
            op = match_paren(callexpr, close)
            callee = callexpr[:op]
            args = [self.eval_operand(st, a) for a in split_top(callexpr[op + 1:close])]
            destp = self.parse_place(dest) if dest else None
            return self.call(st, fr, callee, args, destp, ret_bb)
        raise ValueError('terminator? ' + t)

    def jump(self, st, fr, bb):
        # loop bound: count back-edges per (frame, target)
        if bb <= fr.bb:
            k = (fr.fid, bb)
            c = st.loopc.get(k, 0) + 1
            st.loopc[k] = c
            if c > self.loop_bound:
                raise Inconclusive(f'loop bound {self.loop_bound} exceeded in {fr.fn.name} (bb{bb}) on a feasible path')
        fr.bb, fr.ip = bb, 0

    # ------------------------------------------------------------------ calls
    def type_name_of(self, st, v):
        v = self.deref(st, v)
        if isinstance(v, (Adt, SymEnum)): return v.ty
        if isinstance(v, Obj): return v.kind
        if isinstance(v, Str): return 'str' if v.is_str else '[u8]'
        if isinstance(v, I):
            for k, (w, s) in INT_TYPES.items():
                if w == v.w and s == v.s and k not in ('usize', 'isize', 'char'): return k
        if z3.is_bool(v) if not isinstance(v, (Tup, Seq, Closure, FnItem, Opaque, type(None))) else False: return 'bool'
        if isinstance(v, Closure): return 'closure'
        if isinstance(v, Seq): return 'slice'
        if isinstance(v, Tup): return 'tuple'
        return None

    def subst_type(self, fr, ty):
        """apply the frame's generic substitution to a type/path text (word-boundary replace)"""
        if not fr.tsub:
            return ty
        def rep(m):
            return fr.tsub.get(m.group(0), m.group(0))
        return re.sub(r'\b[A-Z]\w*\b', rep, ty)

    def resolve(self, callee, cur_crate, args, st):
        """Find the MIR body for a callee path. Returns Func or None."""
        name = strip_generics(callee)
        cands = self._resolve_names(name, cur_crate, callee)
        if cands is None:
            return None
        if len(cands) == 1:
            return cands[0]
        return self._pick_overload(callee, cands, args, st)

    def _resolve_names(self, name, cur_crate, raw=None):
        key = ('R', name, cur_crate, raw)
        if key in self.parse_cache:
            return self.parse_cache[key]
        r = self._resolve_names_uncached(name, cur_crate, raw)
        self.parse_cache[key] = r
        return r

    def _filter_impls(self, lst, raw):
        """narrow impl candidates by the callee's full self type and trait arguments (`<X<A> as Trait<B>>::m`)"""
        if not raw or not raw.strip().startswith('<') or '>::' not in raw:
            return lst
        inner = raw.strip()[1:raw.strip().rindex('>::')]
        k = _find_top_as(inner)
        if k < 0:
            return lst
        xs, tr = cmp_ty(inner[:k]), cmp_ty(inner[k + 4:])
        exact = [(full, rec) for full, rec in lst if cmp_ty(rec['trait_full'] or '') == tr and cmp_ty(rec['for_full']) == xs]
        if exact:
            return exact
        # impls generic in the trait argument or self type (`impl<T> From<T> for X`) cannot be compared textually
        loose = [(full, rec) for full, rec in lst
                 if (is_generic_ty(rec['trait_full'] or '') or is_generic_ty(rec['for_full']))
                 and ty_unifies(cmp_ty(rec['trait_full'] or ''), tr) and ty_unifies(cmp_ty(rec['for_full']), xs)]
        if loose:
            return loose
        # the callee may name a generic type without its arguments (paths built from runtime type names)
        bare = lambda t: re.sub(r'<[A-Z](?:,[A-Z])*>', '', t)
        return [(full, rec) for full, rec in lst if bare(cmp_ty(rec['trait_full'] or '')) == tr and bare(cmp_ty(rec['for_full'])) == xs]

    def _resolve_names_uncached(self, name, cur_crate, raw=None):
        # 1. direct
        if cur_crate and (cur_crate + '::' + name) in self.funcs:
            return self.funcs[cur_crate + '::' + name]
        if name in self.funcs:
            return self.funcs[name]
        # 2. `<X as Trait>::item`
        if name.startswith('<'):
            d, j = 0, 0
            for j, c in enumerate(name):
                if c == '<': d += 1
                elif c == '>' and name[j - 1] != '-':
                    d -= 1
                    if d == 0: break
            inner, rest = name[1:j], name[j + 1:]
            item = rest[2:] if rest.startswith('::') else rest
            if ' as ' in inner:
                k = inner.index(' as ')
                x, tr = inner[:k], inner[k + 4:]
            else:
                x, tr = inner, None
            xl = type_last(x); trl = tr.split('::')[-1] if tr else None
            if tr and self.is_foreign(x, cur_crate) and self.is_foreign(tr, cur_crate) and not self._trait_args_local(raw, cur_crate):
                return None          # orphan rule: no local impl of a foreign trait for a foreign type
            out = []
            for full, rec in self._filter_impls(self.impl_methods.get((xl, trl, item), []), raw):
                for f in self.funcs[full]:
                    if f not in out: out.append(f)
            if not out and trl is not None:
                # blanket impls: `impl<F> Trait for F`
                for (a, b, c), lst in self.impl_methods.items():
                    if re.fullmatch(r'[A-Z]', a) and b == trl and c == item:
                        for full, rec in lst:
                            for f in self.funcs[full]:
                                if f not in out: out.append(f)
            if not out and trl is not None and cur_crate:
                # impl nested in a function body (no rustdoc entry): unique body with that receiver type and item name
                cands = [f for f in getattr(self, 'sig_methods', {}).get((cur_crate, xl, item), []) if self.src.impls.get(impl_key(f.name)[0]) is None]
                if len(cands) == 1:
                    out = cands
            if trl is None and not out:
                for (a, b, c), lst in self.impl_methods.items():
                    if a == xl and c == item:
                        for full, rec in lst:
                            for f in self.funcs[full]:
                                if f not in out: out.append(f)
            return out or None
        # 3a. items nested in a method (`Type::method::promoted[0]`, `Type::method::{closure#0}`)
        segs = name.split('::')
        for cut in range(len(segs) - 1, 1, -1):
            tl, item, rest = segs[cut - 2], segs[cut - 1], '::'.join(segs[cut:])
            hits = []
            for (a, b, c), lst in self.impl_methods.items():
                if a == tl and c == item:
                    for full, rec in lst:
                        cand = full + '::' + rest
                        if cand in self.funcs and self.funcs[cand] not in hits:
                            hits.append(self.funcs[cand])
            if len(hits) == 1:
                return hits[0]
        # 3. `path::Type::item` inherent (or trait method named through the type)
        if '::' in name:
            head, item = name.rsplit('::', 1)
            tl = head.split('::')[-1]
            out = []
            for (a, b, c), lst in self.impl_methods.items():
                if a == tl and c == item and b is None:
                    for full, rec in lst:
                        for f in self.funcs[full]:
                            if f not in out: out.append(f)
            if out:
                return out
            # associated const / fn named through the type but defined in a trait impl
            for (a, b, c), lst in self.impl_methods.items():
                if a == tl and c == item:
                    for full, rec in lst:
                        for f in self.funcs[full]:
                            if f not in out: out.append(f)
            if out:
                return out
        return None

    def _trait_args_local(self, raw, cur_crate):
        """`impl ForeignTrait<LocalType> for ForeignType` is allowed: does the callee's trait mention a local type?"""
        if not raw or '>::' not in raw:
            return False
        inner = raw.strip()[1:raw.strip().rindex('>::')]
        k = _find_top_as(inner)
        if k < 0:
            return False
        tr = inner[k + 4:]
        if '<' not in tr:
            return False
        for m in re.finditer(r'[A-Za-z_][A-Za-z0-9_]*(?:::[A-Za-z_][A-Za-z0-9_]*)+', tr[tr.index('<'):]):
            if not self.is_foreign(m.group(0), cur_crate):
                return True
        return False

    def is_foreign(self, path, cur_crate):
        p = path.strip().lstrip('&')
        if p.startswith('mut '): p = p[4:]
        if p.startswith(('[', '(', '*', 'dyn ', 'fn(')):
            return True
        root = p.split('::')[0].split('<')[0]
        if '::' not in p:
            # bare name: primitive (foreign) or a generic parameter (unknown -> not foreign)
            return root in INT_TYPES or root in ('str', 'bool', 'char', 'f32', 'f64')
        if root in self.crates:
            return False
        return root not in self.local_roots.get(cur_crate, ())

    def _pick_overload(self, callee, cands, args, st):
        """Several bodies share a name (macro-generated impls at one span): choose by signature text."""
        key = ('O', callee, tuple(id(c) for c in cands))
        if key in self.parse_cache:
            return self.parse_cache[key]
        want = norm_ty(callee)
        # self type and trait args of `<X as Trait<A>>::m`
        toks = set(re.findall(r'[A-Za-z_]\w*', want))
        best, score = [], -1
        m = re.match(r'^<(.*) as (.*)>::\w+$', callee.strip())
        xs = tr = None
        if m:
            k = _find_top_as(callee.strip()[1:callee.strip().rindex('>::')])
            inner = callee.strip()[1:callee.strip().rindex('>::')]
            xs, tr = norm_ty(inner[:k]), norm_ty(inner[k + 4:])
        for f in cands:
            sig_args = [norm_ty(t) for _, t in f.args]
            sig_ret = norm_ty(f.ret or '')
            sc = 0
            if xs is not None:
                item = callee.strip().rsplit('::', 1)[1]
                targs = re.match(r'^\w+(?:<(.*)>)?$', tr.split('::')[-1] if '<' not in tr else tr[tr.index(tr.split('<')[0].split('::')[-1]):])
                ta = norm_ty(targs.group(1)) if targs and targs.group(1) else None
                # heuristics per well-known trait shape
                if sig_args and (sig_args[0] == '&' + xs or sig_args[0] == '&mut ' + xs):
                    sc += 5      # `&self` of exactly this Self (beats `self` of an impl for the referent, e.g. str vs &str)
                elif sig_args and sig_args[0] == xs:
                    sc += 4
                if sig_ret == xs or sig_ret.startswith(xs):
                    sc += 3
                if ta and any(a == ta or a == '&' + ta for a in sig_args):
                    sc += 3
                if ta and ta in sig_ret:
                    sc += 1
                if ta is None and len(sig_args) >= 2 and sig_args[1] in (xs, '&' + xs, '&mut ' + xs):
                    sc += 3      # `Trait` without arguments: Rhs = Self
                if xs in sig_ret:
                    sc += 1
                else:
                    # Self with other generic arguments inside the return type (`Result<&KeyId<A, K>, E>` for Self = `&KeyId<X, Y>`)
                    nog = lambda t: re.sub(r'<[^<>]*>', '', re.sub(r'<[^<>]*>', '', re.sub(r'<[^<>]*>', '', t)))
                    xb = nog(xs)
                    if xb and re.search(r'(?<![\w&])' + re.escape(xb) + r'(?![\w])', re.sub(r'<[^<>]*>', '', re.sub(r'<[^<>]*>', '', sig_ret.replace('Result<', '', 1)))):
                        sc += 1
            else:
                sc = len(toks & set(re.findall(r'[A-Za-z_]\w*', ' '.join(sig_args) + ' ' + sig_ret)))
            if args is not None and len(sig_args) != len(args):
                sc -= 10
            if sc > score:
                best, score = [f], sc
            elif sc == score:
                best.append(f)
        if len(best) > 1 and all((b.args, b.ret) == (best[0].args, best[0].ret) and [t for _, t in sorted(b.locals.items())] == [t for _, t in sorted(best[0].locals.items())] for b in best):
            # identical signatures (e.g. a cfg-duplicated or macro-duplicated helper): bodies must also agree textually
            if all(b.blocks == best[0].blocks for b in best):
                best = best[:1]
        if len(best) > 1 and tr is not None and tr.split('<')[0] in ('Display', 'Debug') and callee.strip().endswith('::fmt'):
            # Display and Debug impls generated at one macro span share a signature: tell them apart by what they delegate to
            dbg = lambda b: bool(re.search(r'std::fmt::Debug>::fmt|Formatter::<[^>]*>::debug_|::debug_(?:struct|tuple|list|map|set)', str(b.blocks)))
            pick = [b for b in best if dbg(b) == (tr.split('<')[0] == 'Debug')]
            if len(pick) == 1:
                best = pick
        if len(best) != 1:
            raise Inconclusive(f'ambiguous overload for {callee}: {len(best)} bodies score {score}: ' + ' | '.join(b.name[-60:] + str([t for _, t in b.args]) for b in best[:4]))
        self.parse_cache[key] = best[0]
        return best[0]

    def call(self, st, fr, callee, args, destp, ret_bb):
        callee = self.subst_type(fr, callee)
        name = strip_generics(callee)
        # 1. harness overrides, 2. local bodies, 3. models
        for pat, fn in self.overrides:
            mm = pat.match(name)
            if mm:
                outs = fn(self, st, callee, args, mm)
                if outs is not None:
                    self.used_models.add('override:' + pat.pattern)
                    return self.finish_model_call(st, fr, outs, destp, ret_bb)
        f = self.resolve(callee, fr.fn.crate, args, st)
        if f is None and name.startswith('<') :
            f = self.dynamic_dispatch(st, fr, callee, name, args)
        if f is not None and f.kind == 'fn':
            self.stats['calls_inlined'] += 1
            tsub = self.bind_generics(f, callee, args, st)
            self.push_frame(st, f, args, destp, ret_bb, tsub)
            return None
        names = [name]
        gen = generic_slice_name(name)
        if gen != name:
            names.append(gen)
        for nm in names:
            for pat, fn in self.models:
                mm = pat.match(nm)
                if mm:
                    outs = fn(self, st, callee, args, mm)
                    if outs is None:
                        continue
                    self.stats['calls_modelled'] += 1
                    self.used_models.add(pat.pattern)
                    return self.finish_model_call(st, fr, outs, destp, ret_bb)
        raise Inconclusive('no body and no model for callee: ' + callee + '   [in ' + fr.fn.name + ']')

    def bind_generics(self, f, callee, args, st):
        return None

    def dynamic_dispatch(self, st, fr, callee, name, args):
        """`<T as Trait>::m(recv, ..)` with T a generic parameter: dispatch on the runtime receiver type."""
        if not args or not name.startswith('<') or '>::' not in name:
            return None
        inner, item = name[1:name.rindex('>::')], name[name.rindex('>::') + 3:]
        k = _find_top_as(inner)
        if k < 0:
            return None
        x, trait = inner[:k].strip(), strip_generics(inner[k + 4:].strip())
        xb = x.lstrip('&')
        if xb.startswith('mut '): xb = xb[4:]
        if not (re.match(r'^[A-Z]\w*$', xb) or xb.startswith('impl ') or xb.startswith('<')):
            return None      # not a generic parameter / impl Trait / associated-type projection

        class _M:
            def group(self, i): return {2: trait, 3: item}[i]
        m = _M()
        tn = self.type_name_of(st, args[0])
        if tn is None:
            return None
        tr = m.group(2).split('::')[-1]
        raw2 = None
        cs = callee.strip()
        if cs.startswith('<') and '>::' in cs:
            inner_raw = cs[1:cs.rindex('>::')]
            kk = _find_top_as(inner_raw)
            if kk >= 0:
                raw2 = f'<{tn} as {inner_raw[kk + 4:]}>::{m.group(3)}'
        cands = self._resolve_names(f'<{tn} as {m.group(2)}>::{m.group(3)}', fr.fn.crate, raw2)
        if not cands:
            return None
        if len(cands) == 1:
            return cands[0]
        return self._pick_overload(raw2 or f'<{tn} as {m.group(2)}>::{m.group(3)}', cands, args, st)

    def finish_model_call(self, st, fr, outs, destp, ret_bb):
        fid = fr.fid
        alts = []
        for o in outs:
            cond, val = o[0], o[1]
            eff = o[2] if len(o) > 2 else None
            def k(s2, val=val, eff=eff):
                if isinstance(val, Panic):
                    s2.result = ('panic', str(val)); return
                if eff is not None:
                    val2 = eff(s2)
                    if val2 is not None:
                        val = val2
                if destp is not None:
                    self.write_place(s2, fid, destp[0], destp[1], val)
                if ret_bb is None:
                    s2.result = ('diverge', None); return
                self.jump(s2, s2.fmap[fid], ret_bb)
            alts.append((cond, k))
        return self.branch(st, alts)

    def call_value(self, st, fnv, args, pc_extra=()):
        """Run a closure / fn item to completion from (a clone of) st.  Returns [(cond_delta, Outcome)]."""
        if isinstance(fnv, Ref):
            fnv = self.deref(st, fnv)
        if isinstance(fnv, Closure):
            f, a = fnv.fn, [fnv] + list(args)
        elif isinstance(fnv, FnItem):
            nm = strip_generics(fnv.path)
            for pat, fn in self.overrides:
                mm = pat.match(nm)
                if mm:
                    outs = fn(self, st, fnv.path, list(args), mm)
                    if outs is not None:
                        self.used_models.add('override:' + pat.pattern)
                        return self._model_outs_to_outcomes(st, outs)
            cur = fnv.crate or (st.frames[-1].fn.crate if st.frames else None)
            f = self.resolve(fnv.path, cur, args, st)
            if f is None and cur is None:
                for cr in self.crates:
                    f = self.resolve(fnv.path, cr, args, st)
                    if f is not None: break
            a = list(args)
            if f is None:
                # function item naming a modelled function: wrap through the model table
                return self.call_model_direct(st, fnv.path, args)
        else:
            raise ValueError('call of ' + repr(fnv))
        base = len(st.pc)
        outs = self.run_func(f, a, pc_extra, st=st)
        self.stats['paths'] -= len(outs)
        return [(z3.And(*o.pc[base:]) if len(o.pc) > base else TRUE, o) for o in outs]

    def _model_outs_to_outcomes(self, st, outs):
        res = []
        for o in outs:
            c = z3.simplify(o[0]) if not isinstance(o[0], bool) else z3.BoolVal(o[0])
            if z3.is_false(c):
                continue
            s2 = st.clone()
            val = o[1]
            if isinstance(val, Panic):
                res.append((c, Outcome(s2.pc + [c], 'panic', str(val), s2)))
            else:
                if len(o) > 2 and o[2] is not None:
                    v2 = o[2](s2)
                    if v2 is not None: val = v2
                res.append((c, Outcome(s2.pc + [c], 'ret', val, s2)))
        return res

    def call_model_direct(self, st, path, args):
        name = strip_generics(path)
        for nm in (name, generic_slice_name(name)):
            for pat, fn in self.models:
                mm = pat.match(nm)
                if mm:
                    outs = fn(self, st, path, args, mm)
                    if outs is None:
                        continue
                    self.used_models.add(pat.pattern)
                    return self._model_outs_to_outcomes(st, outs)
        raise Inconclusive('no model for function value ' + path)


class SymOrdering:
    """std::cmp::Ordering with a symbolic value (-1/0/1 as BV8)"""
    __slots__ = ('v',)

    def __init__(self, v):
        self.v = z3.simplify(v)

    def __repr__(self):
        return f'Ordering({self.v})'


# enums of third-party crates that harnesses construct by hand (declaration order of the crate's source)
FOREIGN_ENUMS = {'serde_json::Value': ['Null', 'Bool', 'Number', 'String', 'Array', 'Object'],
                 'serde_json::value::Value': ['Null', 'Bool', 'Number', 'String', 'Array', 'Object']}

BUILTIN_ENUMS = {
    'Option': ['None', 'Some'], 'Result': ['Ok', 'Err'], 'ControlFlow': ['Continue', 'Break'],
    'Ordering': ['Less', 'Equal', 'Greater'], 'Cow': ['Borrowed', 'Owned'], 'Bound': ['Included', 'Excluded', 'Unbounded'],
    'Entry': ['Vacant', 'Occupied'], 'IpAddr': ['V4', 'V6'],
}


def generic_slice_name(name):
    """`<impl [some::Type]>` / `[some::Type; 3]` -> `<impl [T]>` / `[T; 3]` so that the slice models written for `[T]` apply"""
    def rep(m):
        inner = m.group(1)
        if inner in ('u8', 'T'):
            return m.group(0)
        mm = re.match(r'^(.*); (\d+)$', inner)
        if mm:
            return f'[T; {mm.group(2)}]'
        return '[T]'
    out, i, n = [], 0, len(name)
    while i < n:
        if name[i] == '[':
            d, j = 0, i
            while j < n:
                if name[j] == '[': d += 1
                elif name[j] == ']':
                    d -= 1
                    if d == 0: break
                j += 1
            class _M:
                def __init__(s_, a, b): s_.a, s_.b = a, b
                def group(s_, k): return s_.b if k else s_.a
            out.append(rep(_M(name[i:j + 1], name[i + 1:j])))
            i = j + 1
        else:
            out.append(name[i]); i += 1
    return ''.join(out)


def type_last(x):
    """last path segment of a (generic-stripped) type text, ignoring reference sigils"""
    x = x.strip()
    while x.startswith('&'):
        x = x[1:].lstrip()
        if x.startswith('mut '): x = x[4:]
        if x.startswith("'"):
            x = x.split(' ', 1)[1] if ' ' in x else x
    if x.startswith('['):
        return x
    return x.split('::')[-1]


def cmp_ty(t):
    """canonical text of a type for impl matching: no module paths, lifetimes, spaces"""
    t = re.sub(r"'\w+\s*", '', t)
    t = re.sub(r'\b(?:[a-z_][a-z0-9_]*::)+', '', t)
    t = re.sub(r'\bmut ', 'mut~', t)
    t = t.replace(' ', '').replace('mut~', 'mut ')
    # lifetime-only argument lists (`Iter<'_>`) and leading / trailing holes left by removed lifetimes
    t = t.replace('<,', '<').replace(',>', '>').replace('<>', '')
    return t


def ty_unifies(pattern, actual):
    """does `actual` match `pattern`, where single capital letters in pattern are type variables?"""
    rx = re.sub(r'(?<![A-Za-z0-9_])[A-Z](?![A-Za-z0-9_])', '\x00', pattern)
    rx = re.escape(rx).replace('\x00', '.+').replace('\\\x00', '.+')
    rx = rx.replace(re.escape('\x00'), '.+')
    try:
        return re.fullmatch(rx, actual) is not None
    except re.error:
        return True


def is_generic_ty(t):
    """mentions a single-capital-letter (or short all-caps) type parameter"""
    return bool(re.search(r'(?<![A-Za-z0-9_])[A-Z](?![A-Za-z0-9_])', t))


def norm_ty(t):
    """normalise a type text: drop module paths and lifetimes"""
    t = re.sub(r"'\w+ ?", '', t)
    t = re.sub(r'\b(?:[a-z_][a-z0-9_]*::)+', '', t)
    return t.strip()


def _find_top_as(inner):
    d = 0
    for j, c in enumerate(inner):
        if c == '<': d += 1
        elif c == '>' and inner[j - 1] != '-': d -= 1
        elif d == 0 and inner.startswith(' as ', j): return j
    return -1


def balanced(s):
    d = 0
    for c in s:
        if c in '([': d += 1
        elif c in ')]': d -= 1
        if d < 0: return False
    return d == 0


def split_assign(s):
    d = 0
    i, n = 0, len(s)
    while i < n:
        c = s[i]
        if c == '"':
            j = i + 1
            while j < n and s[j] != '"':
                if s[j] == '\\': j += 1
                j += 1
            i = j + 1; continue
        if c in '([': d += 1
        elif c in ')]': d -= 1
        elif c == '=' and d == 0 and s[i - 1] == ' ' and s[i + 1] == ' ':
            return s[:i - 1], s[i + 2:]
        i += 1
    raise ValueError('assign? ' + s)


def _parse_place(s, i):
    """recursive-descent parser of MIR place syntax; returns ((local, proj), next index)"""
    n = len(s)
    if s[i] == '(':
        if s[i + 1] == '*':
            (l, p), j = _parse_place(s, i + 2)
            assert s[j] == ')', s
            res, j = (l, p + [('deref',)]), j + 1
        else:
            (l, p), j = _parse_place(s, i + 1)
            if s.startswith(' as ', j):
                k = s.index(')', j)
                res, j = (l, p + [('downcast', s[j + 4:k])]), k + 1
            elif s[j] == '.':
                m = re.match(r'\.(\d+): ', s[j:])
                fld = int(m.group(1))
                # skip the type up to the matching ')'
                d, k = 0, j + m.end()
                while k < n:
                    c = s[k]
                    if c in '([{': d += 1
                    elif c in ')]}':
                        if d == 0 and c == ')': break
                        d -= 1
                    elif c == '<': d += 1
                    elif c == '>' and s[k - 1] != '-': d -= 1
                    k += 1
                res, j = (l, p + [('field', fld)]), k + 1
            elif s[j] == ')':
                res, j = (l, p), j + 1
            else:
                raise ValueError(f'place? {s!r} at {j}')
    elif s[i] == '*':
        (l, p), j = _parse_place(s, i + 1)
        res = (l, p + [('deref',)])
    elif s[i] == '_':
        m = re.match(r'_(\d+)', s[i:])
        res, j = (int(m.group(1)), []), i + m.end()
    else:
        raise ValueError(f'place? {s!r} at {i}')
    # suffixes
    l, p = res
    while j < n and s[j] == '[':
        k = s.index(']', j)
        body = s[j + 1:k]
        m = re.match(r'^_(\d+)$', body)
        if m:
            p = p + [('index', int(m.group(1)))]
        else:
            m = re.match(r'^(-?)(\d+) of (\d+)$', body)
            if m:
                p = p + [('cindex', int(m.group(2)), bool(m.group(1)))]
            else:
                m = re.match(r'^(\d+):(-?)(\d*)$', body)
                if not m:
                    raise ValueError('place index? ' + s)
                p = p + [('subslice', int(m.group(1)), int(m.group(3) or 0), bool(m.group(2)) or m.group(3) == '')]
        j = k + 1
    return (l, p), j


def utf8_wf(s, maxlen):
    """well-formed UTF-8 constraints over the first maxlen bytes of Str s (exact: RFC 3629 table 3-7)"""
    need = z3.BitVecVal(0, 2)
    lo = z3.BitVecVal(0x80, 8); hi = z3.BitVecVal(0xBF, 8)
    cons = []
    for i in range(maxlen):
        b = s.at(i)
        inb = z3.ULT(bv(i), s.ln)
        lead_ok = z3.Or(z3.ULT(b, 0x80), z3.And(z3.UGE(b, 0xC2), z3.ULE(b, 0xF4)))
        cont_ok = z3.And(z3.UGE(b, lo), z3.ULE(b, hi))
        cons.append(z3.Implies(inb, z3.If(need == 0, lead_ok, cont_ok)))
        n0 = z3.If(z3.ULT(b, 0x80), z3.BitVecVal(0, 2),
             z3.If(z3.ULE(b, 0xDF), z3.BitVecVal(1, 2),
             z3.If(z3.ULE(b, 0xEF), z3.BitVecVal(2, 2), z3.BitVecVal(3, 2))))
        # second-byte ranges after E0, ED, F0, F4
        nlo = z3.If(b == 0xE0, z3.BitVecVal(0xA0, 8), z3.If(b == 0xF0, z3.BitVecVal(0x90, 8), z3.BitVecVal(0x80, 8)))
        nhi = z3.If(b == 0xED, z3.BitVecVal(0x9F, 8), z3.If(b == 0xF4, z3.BitVecVal(0x8F, 8), z3.BitVecVal(0xBF, 8)))
        is_lead = need == 0
        lo = z3.If(z3.And(inb, is_lead), nlo, z3.BitVecVal(0x80, 8))
        hi = z3.If(z3.And(inb, is_lead), nhi, z3.BitVecVal(0xBF, 8))
        need = z3.If(inb, z3.If(is_lead, n0, need - 1), need)
    cons.append(need == 0)
    return cons
