"""Models of core plumbing: Option / Result / ControlFlow / Try, conversions, clone, structural equality,
panicking entry points, Box/Arc/Rc, mem::*, Ordering."""
import re
import z3
from ..values import *
from . import model_decorator

T = TRUE


def is_some(v):
    return v.variant == 'Some'


def deep_eq(E, st, a, b):
    """structural equality (what #[derive(PartialEq)] and the std impls compute)"""
    from .str_models import str_eq
    a, b = E.deref(st, a), E.deref(st, b)
    if isinstance(a, I):
        return a.v == b.v
    if isinstance(a, SymEnum) or isinstance(b, SymEnum):
        av = a.v if isinstance(a, SymEnum) else bv(E.variant_index(a))
        bvv = b.v if isinstance(b, SymEnum) else bv(E.variant_index(b))
        return av == bvv
    if z3.is_bool(a) if not isinstance(a, (Tup, Adt, Seq, Str, Obj, Closure, Opaque, FnItem, type(None))) else False:
        return a == b
    if isinstance(a, Str) or (isinstance(a, Obj) and a.kind in ('String', 'VecU8')) or isinstance(b, Str):
        return str_eq(E, E.as_str(st, a), E.as_str(st, b))
    if isinstance(a, Tup):
        return z3.And(*[deep_eq(E, st, x, y) for x, y in zip(a.fields, b.fields)]) if a.fields else T
    if isinstance(a, Adt):
        if not isinstance(b, Adt):
            raise Inconclusive(f'deep_eq of {a!r} and {b!r}')
        if a.variant != b.variant:
            return FALSE
        return z3.And(*[deep_eq(E, st, x, y) for x, y in zip(a.fields, b.fields)]) if a.fields else T
    if isinstance(a, Seq):
        if len(a.items) != len(b.items): return FALSE
        return z3.And(*[deep_eq(E, st, x, y) for x, y in zip(a.items, b.items)]) if a.items else T
    if isinstance(a, Obj) and isinstance(b, Obj) and a.kind == b.kind == 'Vec':
        if len(a.data) != len(b.data): return FALSE
        return z3.And(*[deep_eq(E, st, x, y) for x, y in zip(a.data, b.data)]) if a.data else T
    from ..engine import SymOrdering
    if isinstance(a, SymOrdering):
        return a.v == ordering_bv(E, b)
    if isinstance(a, Obj) and hasattr(E, 'obj_eq'):
        r = E.obj_eq(st, a, b)
        if r is not None:
            return r
    raise Inconclusive(f'deep_eq of {a!r} and {b!r}')


def ordering_bv(E, v):
    from ..engine import SymOrdering
    if isinstance(v, SymOrdering):
        return v.v
    if isinstance(v, Adt):
        return z3.BitVecVal({'Less': -1, 'Equal': 0, 'Greater': 1}[v.variant], 8)
    raise ValueError('ordering? ' + repr(v))


def deep_cmp(E, st, a, b):
    """derived Ord / std Ord: BV8 -1/0/1"""
    from .str_models import str_cmp
    a, b = E.deref(st, a), E.deref(st, b)
    if isinstance(a, SymEnum) or isinstance(b, SymEnum):
        av = a.v if isinstance(a, SymEnum) else bv(E.variant_index(a))
        bvv = b.v if isinstance(b, SymEnum) else bv(E.variant_index(b))
        return z3.If(z3.ULT(av, bvv), z3.BitVecVal(-1, 8), z3.If(av == bvv, z3.BitVecVal(0, 8), z3.BitVecVal(1, 8)))
    if isinstance(a, I):
        lt = (a.v < b.v) if a.s else z3.ULT(a.v, b.v)
        return z3.If(lt, z3.BitVecVal(-1, 8), z3.If(a.v == b.v, z3.BitVecVal(0, 8), z3.BitVecVal(1, 8)))
    if isinstance(a, Str) or (isinstance(a, Obj) and a.kind == 'String'):
        return str_cmp(E, E.as_str(st, a), E.as_str(st, b))
    if isinstance(a, (Tup, Adt)):
        if isinstance(a, Adt) and a.variant != b.variant:
            ia, ib = E.variant_index(a), E.variant_index(b)
            return z3.BitVecVal(-1 if ia < ib else 1, 8)
        res = z3.BitVecVal(0, 8)
        for x, y in reversed(list(zip(a.fields, b.fields))):
            c = deep_cmp(E, st, x, y)
            res = z3.If(c == 0, res, c)
        return res
    if not isinstance(a, (Seq, Obj, Closure, Opaque, FnItem, type(None))) and z3.is_bool(a):
        return z3.If(z3.And(z3.Not(a), b), z3.BitVecVal(-1, 8), z3.If(a == b, z3.BitVecVal(0, 8), z3.BitVecVal(1, 8)))
    raise Inconclusive(f'deep_cmp of {a!r} and {b!r}')


def register(E):
    model = model_decorator(E.models)
    from ..engine import SymOrdering

    def d(st, v):
        return E.deref(st, v)

    # ---------------------------------------------------------------- panics
    @model(r'^(?:core|std)::panicking::(panic|panic_fmt|panic_display|panic_str|panic_explicit|unreachable_display|panic_nounwind|panic_const::\w+|assert_failed|panic_bounds_check|begin_panic)$|^(?:core|std)::option::(expect_failed|unwrap_failed)$|^(?:core|std)::result::unwrap_failed$|^core::str::slice_error_fail$|^core::slice::index::\w+$|^std::rt::begin_panic$|^std::rt::panic_fmt$')
    def _(E, st, callee, a, m):
        msg = ''
        for x in a:
            x = d(st, x)
            if isinstance(x, Str) and x.conc() is not None:
                msg = x.conc().decode(errors='replace'); break
        return [(T, Panic(f'explicit panic ({callee.split("::")[-1]}) {msg}'))]

    @model(r'^std::process::abort$|^core::intrinsics::abort$')
    def _(E, st, callee, a, m): return [(T, Panic('abort'))]

    @model(r'^core::hint::unreachable_unchecked$|^std::hint::unreachable_unchecked$')
    def _(E, st, callee, a, m): return [(T, Panic('unreachable_unchecked reached'))]

    # ---------------------------------------------------------------- Option
    @model(r'^(?:std|core)::option::Option::(\w+)$')
    def _(E, st, callee, a, m):
        op = m.group(1)
        v = d(st, a[0]) if a else None
        if op in ('is_some', 'is_none'):
            return [(T, z3.BoolVal(is_some(v) == (op == 'is_some')))]
        if op in ('unwrap', 'expect'):
            if is_some(v): return [(T, v.fields[0])]
            msg = ''
            if op == 'expect':
                mm = d(st, a[1]); msg = (mm.conc() or b'').decode(errors='replace') if isinstance(mm, Str) else ''
            return [(T, Panic('called `Option::' + op + '()` on a `None` value ' + msg))]
        if op == 'unwrap_unchecked':
            return [(T, v.fields[0])] if is_some(v) else [(T, Panic('unwrap_unchecked on None'))]
        if op == 'ok_or':
            return [(T, ok(v.fields[0]) if is_some(v) else err(a[1]))]
        if op == 'unwrap_or':
            return [(T, v.fields[0] if is_some(v) else a[1])]
        if op == 'unwrap_or_default':
            if is_some(v): return [(T, v.fields[0])]
            return call_path(E, st, default_path(callee), [])
        if op == 'as_ref' or op == 'as_mut':
            if not is_some(v): return [(T, NONE)]
            r = a[0]
            if isinstance(r, Ref):
                inner = v.fields[0]
                if isinstance(inner, (Str,)):
                    return [(T, some(inner))]
                return [(T, some(Ref(r.frame, r.local, r.proj + (('downcast', 'Some'), ('field', 0)))))]
            return [(T, some(v.fields[0]))]
        if op in ('as_deref', 'as_deref_mut'):
            if not is_some(v): return [(T, NONE)]
            inner = d(st, v.fields[0])
            if isinstance(inner, Obj) and inner.kind in ('String', 'VecU8'): return [(T, some(inner.data))]
            if isinstance(inner, Obj) and inner.kind == 'Vec': return [(T, some(Seq(inner.data)))]
            if isinstance(inner, Adt) and len(inner.fields) == 1 and isinstance(inner.fields[0], Str):
                # Owned identifier newtypes deref to their str-backed unsized form
                return deref_via_trait(E, st, v.fields[0], a[0])
            return [(T, some(inner))]
        if op in ('copied', 'cloned'):
            if not is_some(v): return [(T, NONE)]
            return [(T, some(d(st, v.fields[0])))]
        if op == 'take':
            def eff(st2):
                E.store(st2, a[0], NONE)
            return [(T, v, eff)]
        if op == 'replace':
            def eff(st2):
                E.store(st2, a[0], some(a[1]))
            return [(T, v, eff)]
        if op == 'insert':
            def eff(st2):
                E.store(st2, a[0], some(a[1]))
                r = a[0]
                return Ref(r.frame, r.local, r.proj + (('downcast', 'Some'), ('field', 0)))
            return [(T, None, eff)]
        if op == 'is_some_and' or op == 'is_none_or':
            if not is_some(v): return [(T, z3.BoolVal(op == 'is_none_or'))]
            return via_call(E, st, a[1], [v.fields[0]])
        if op in ('map', 'and_then', 'filter', 'inspect'):
            if not is_some(v): return [(T, NONE)]
            if op == 'map':
                return via_call(E, st, a[1], [v.fields[0]], wrap=some)
            if op == 'and_then':
                return via_call(E, st, a[1], [v.fields[0]])
            if op == 'filter':
                ref = E.root_ref(st, v.fields[0])
                outs = via_call(E, st, a[1], [ref])
                res = []
                for o in outs:
                    c, val = o[0], o[1]
                    if isinstance(val, Panic): res.append(o); continue
                    res.append((z3.And(c, val), v) + tuple(o[2:]))
                    res.append((z3.And(c, z3.Not(val)), NONE) + tuple(o[2:]))
                return res
        if op in ('unwrap_or_else', 'or_else', 'ok_or_else', 'map_or', 'map_or_else', 'get_or_insert_with'):
            if op == 'unwrap_or_else':
                return [(T, v.fields[0])] if is_some(v) else via_call(E, st, a[1], [])
            if op == 'or_else':
                return [(T, v)] if is_some(v) else via_call(E, st, a[1], [])
            if op == 'ok_or_else':
                return [(T, ok(v.fields[0]))] if is_some(v) else via_call(E, st, a[1], [], wrap=err)
            if op == 'map_or':
                return via_call(E, st, a[2], [v.fields[0]]) if is_some(v) else [(T, a[1])]
            if op == 'map_or_else':
                return via_call(E, st, a[2], [v.fields[0]]) if is_some(v) else via_call(E, st, a[1], [])
        if op == 'or':
            return [(T, v if is_some(v) else a[1])]
        if op == 'and':
            return [(T, a[1] if is_some(v) else NONE)]
        if op == 'xor':
            b = d(st, a[1])
            if is_some(v) != is_some(b): return [(T, v if is_some(v) else b)]
            return [(T, NONE)]
        if op == 'zip':
            b = d(st, a[1])
            return [(T, some(Tup([v.fields[0], b.fields[0]])) if is_some(v) and is_some(b) else NONE)]
        if op == 'ok':
            return None
        if op == 'flatten':
            return [(T, v.fields[0] if is_some(v) else NONE)]
        if op == 'into_iter' or op == 'iter':
            return [(T, Obj('SeqIter', (tuple([v.fields[0]] if is_some(v) else []), 0)))]
        if op == 'unzip':
            if is_some(v):
                t = v.fields[0]; return [(T, Tup([some(t.fields[0]), some(t.fields[1])]))]
            return [(T, Tup([NONE, NONE]))]
        if op == 'transpose':
            if not is_some(v): return [(T, ok(NONE))]
            r = v.fields[0]
            return [(T, ok(some(r.fields[0])) if r.variant == 'Ok' else err(r.fields[0]))]
        raise Inconclusive('Option::' + op + ' not modelled')

    def default_path(callee):
        from ..mirparse import turbofish
        ty = re.search(r'Option::<(.*)>::\w+$', callee)
        return '<' + ty.group(1) + ' as std::default::Default>::default' if ty else None

    def call_path(E, st, path, args):
        outs = E.call_value(st, FnItem(path), args)
        return outs_to_model(outs)

    def outs_to_model(outs, wrap=None):
        res = []
        for cond, o in outs:
            if o.kind == 'panic':
                res.append((cond, Panic(o.value)))
            elif o.kind == 'ret':
                val = wrap(o.value) if wrap else o.value
                st_after = o.st
                def eff(st2, st_after=st_after):
                    # adopt memory effects of the callee run (heap + frames it could reach through references)
                    adopt(st2, st_after)
                res.append((cond, val, eff))
            else:
                res.append((cond, Panic('diverged')))
        return res

    def adopt(st2, st_after):
        st2.heap = dict(st_after.heap)
        for fid, fr in st_after.fmap.items():
            if fid in st2.fmap:
                st2.fmap[fid].locs = dict(fr.locs)
        st2.notes = st_after.notes

    def via_call(E, st, fnv, args, wrap=None):
        return outs_to_model(E.call_value(st, fnv, args), wrap)
    E.via_call = via_call
    E.outs_to_model = outs_to_model

    @model(r'^<(?!std::|core::|alloc::)(.+) as std::ops::RangeBounds>::contains$')
    def _(E, st, callee, a, m):
        """provided RangeBounds::contains on a crate-local range type: the std default body, over the crate's own
        start_bound / end_bound; items are integers or integer newtypes (js_int)"""
        cs = callee.strip()
        inner = cs[1:cs.rindex('>::')]
        def as_int(v):
            v = d(st, v)
            while isinstance(v, Adt) and len(v.fields) == 1:
                v = d(st, v.fields[0])
            if not isinstance(v, I):
                raise Inconclusive('RangeBounds::contains on a non-integer item')
            return v
        item = as_int(a[1])
        signed = 'Int>' in inner.split(' as ')[1] and 'UInt>' not in inner.split(' as ')[1]
        lt = (lambda x, y: x < y) if signed else z3.ULT
        le = (lambda x, y: x <= y) if signed else z3.ULE
        res = []
        for c1, o1 in E.call_value(st, FnItem('<' + inner + '>::start_bound'), [a[0]]):
            if o1.kind != 'ret':
                res.append((c1, Panic(str(o1.value)))); continue
            for c2, o2 in E.call_value(o1.st, FnItem('<' + inner + '>::end_bound'), [a[0]]):
                if o2.kind != 'ret':
                    res.append((z3.And(c1, c2), Panic(str(o2.value)))); continue
                sb, eb = o1.value, o2.value
                lo = T if sb.variant == 'Unbounded' else (le if sb.variant == 'Included' else lt)(as_int(E.deref(o2.st, sb.fields[0])).v, item.v)
                hi = T if eb.variant == 'Unbounded' else (le if eb.variant == 'Included' else lt)(item.v, as_int(E.deref(o2.st, eb.fields[0])).v)
                res.append((z3.And(c1, c2), z3.And(lo, hi)))
        return res

    @model(r'^std::sync::OnceLock::(new|get|get_or_init|set)$|^std::cell::OnceCell::(new|get|get_or_init|set)$')
    def _(E, st, callee, a, m):
        """OnceLock / OnceCell as an optional value (single-threaded executions only)"""
        op = m.group(1) or m.group(2)
        if op == 'new':
            return [(T, Obj('OnceLock', None))]
        lk = d(st, a[0])
        if not (isinstance(lk, Obj) and lk.kind == 'OnceLock'):
            return None
        base = a[0]
        while isinstance(base, Ref):
            nxt = E.read_ref(st, base)
            if isinstance(nxt, Ref): base = nxt
            else: break
        if op == 'get':
            if lk.data is None: return [(T, NONE)]
            return [(T, some(E.alloc(st, lk.data)))]
        if op == 'set':
            if lk.data is not None: return [(T, err(a[1]))]
            def eff(st2): E.store(st2, a[0], Obj('OnceLock', a[1]))
            return [(T, ok(UNIT), eff)]
        if lk.data is not None:
            return [(T, E.alloc(st, lk.data))]
        res = []
        for c, o in E.call_value(st, a[1], []):
            if o.kind != 'ret':
                res.append((c, Panic(str(o.value)))); continue
            def eff(st2, o=o):
                adopt(st2, o.st)
                val = E.deref(o.st, o.value)          # by value: the closure's frame is gone after the call
                E.store(st2, a[0], Obj('OnceLock', val))
                return E.alloc(st2, val)
            res.append((c, None, eff))
        return res

    def deref_via_trait(E, st, inner_ref, orig):
        raise Inconclusive('as_deref on newtype')

    # ---------------------------------------------------------------- Result
    @model(r'^(?:std|core)::result::Result::(\w+)$')
    def _(E, st, callee, a, m):
        op = m.group(1)
        v = d(st, a[0])
        isok = v.variant == 'Ok'
        if op in ('is_ok', 'is_err'):
            return [(T, z3.BoolVal(isok == (op == 'is_ok')))]
        if op in ('unwrap', 'expect'):
            if isok: return [(T, v.fields[0])]
            return [(T, Panic('called `Result::' + op + '()` on an `Err` value'))]
        if op in ('unwrap_err', 'expect_err'):
            if not isok: return [(T, v.fields[0])]
            return [(T, Panic('called `Result::unwrap_err()` on an `Ok` value'))]
        if op == 'ok': return [(T, some(v.fields[0]) if isok else NONE)]
        if op == 'err': return [(T, NONE if isok else some(v.fields[0]))]
        if op == 'unwrap_or': return [(T, v.fields[0] if isok else a[1])]
        if op == 'unwrap_or_default':
            if isok: return [(T, v.fields[0])]
            ty = re.search(r'Result::<(.*)>::\w+$', callee)
            from ..mirparse import split_top
            t0 = split_top(ty.group(1))[0]
            return call_path(E, st, '<' + t0 + ' as std::default::Default>::default', [])
        if op == 'map':
            return via_call(E, st, a[1], [v.fields[0]], wrap=ok) if isok else [(T, v)]
        if op == 'map_err':
            return [(T, v)] if isok else via_call(E, st, a[1], [v.fields[0]], wrap=err)
        if op == 'and_then':
            return via_call(E, st, a[1], [v.fields[0]]) if isok else [(T, v)]
        if op == 'or_else':
            return [(T, v)] if isok else via_call(E, st, a[1], [v.fields[0]])
        if op == 'unwrap_or_else':
            return [(T, v.fields[0])] if isok else via_call(E, st, a[1], [v.fields[0]])
        if op == 'is_ok_and':
            return via_call(E, st, a[1], [v.fields[0]]) if isok else [(T, FALSE)]
        if op == 'is_err_and':
            return [(T, FALSE)] if isok else via_call(E, st, a[1], [v.fields[0]])
        if op == 'map_or':
            return via_call(E, st, a[2], [v.fields[0]]) if isok else [(T, a[1])]
        if op in ('as_ref', 'as_mut'):
            r = a[0]
            var = 'Ok' if isok else 'Err'
            inner = Ref(r.frame, r.local, r.proj + (('downcast', var), ('field', 0))) if isinstance(r, Ref) else v.fields[0]
            return [(T, Adt(v.ty, var, [inner]))]
        if op == 'and':
            return [(T, a[1] if isok else v)]
        if op == 'or':
            return [(T, v if isok else a[1])]
        raise Inconclusive('Result::' + op + ' not modelled')

    @model(r'^<(?:std|core)::result::Result as (?:std|core)::ops::Try>::branch$')
    def _(E, st, callee, a, m):
        v = a[0]
        if v.variant == 'Ok': return [(T, Adt('std::ops::ControlFlow', 'Continue', [v.fields[0]]))]
        return [(T, Adt('std::ops::ControlFlow', 'Break', [err(v.fields[0])]))]

    @model(r'^<(?:std|core)::option::Option as (?:std|core)::ops::Try>::branch$')
    def _(E, st, callee, a, m):
        v = a[0]
        if v.variant == 'Some': return [(T, Adt('std::ops::ControlFlow', 'Continue', [v.fields[0]]))]
        return [(T, Adt('std::ops::ControlFlow', 'Break', [NONE]))]

    @model(r'^<(?:std|core)::result::Result as (?:std|core)::ops::Try>::from_output$')
    def _(E, st, callee, a, m): return [(T, ok(a[0]))]

    @model(r'^<(?:std|core)::option::Option as (?:std|core)::ops::Try>::from_output$')
    def _(E, st, callee, a, m): return [(T, some(a[0]))]

    @model(r'^<(?:std|core)::option::Option as (?:std|core)::ops::FromResidual>::from_residual$')
    def _(E, st, callee, a, m): return [(T, NONE)]

    @model(r'^<(?:std|core)::result::Result as (?:std|core)::ops::FromResidual>::from_residual$')
    def _(E, st, callee, a, m):
        e = a[0].fields[0]
        # `?` applies From<E1> for E2: identical types -> identity, otherwise run the crate's From impl
        mm = re.match(r'^<(?:std|core)::result::Result<(.*)> as (?:std|core)::ops::FromResidual<(?:std|core)::result::Result<(?:std|core)::convert::Infallible, (.*)>>>::from_residual$', callee)
        if mm:
            from ..mirparse import split_top
            tgt = split_top(mm.group(1))
            src = mm.group(2)
            if len(tgt) == 2 and tgt[1].strip() != src.strip():
                path = f'<{tgt[1].strip()} as std::convert::From<{src.strip()}>>::from'
                try:
                    outs = E.call_value(st, FnItem(path), [e])
                    return outs_to_model(outs, wrap=err)
                except Inconclusive:
                    return [(T, err(Opaque('converted-error', e)))]
        return [(T, err(e))]

    # ---------------------------------------------------------------- conversions / clone / default
    @model(r'^<(.+) as (?:std|core)::convert::Into>::into$')
    def _(E, st, callee, a, m):
        mm = re.match(r'^<(.*) as (?:std|core)::convert::Into<(.*)>>::into$', callee.strip())
        if mm and norm(mm.group(1)) == norm(mm.group(2)):
            return [(T, a[0])]
        if mm:
            path = f'<{mm.group(2)} as std::convert::From<{mm.group(1)}>>::from'
            cur = st.frames[-1].fn.crate if st.frames else None
            f = E.resolve(path, cur, a, st)
            if f is not None:
                return outs_to_model(E.call_value(st, FnItem(path), a))
            # route to a From model
            from ..mirparse import strip_generics
            name = strip_generics(path)
            for pat, fn in E.models:
                if pat.match(name) and fn is not _:
                    r = fn(E, st, path, a, pat.match(name))
                    if r is not None:
                        return r
        return None

    def norm(t):
        return re.sub(r"'\w+ ?", '', t).strip()

    @model(r'^<(.+) as (?:std|core)::convert::From>::from$')
    def _(E, st, callee, a, m):
        mm = re.match(r'^<(.*) as (?:std|core)::convert::From<(.*)>>::from$', callee.strip())
        if mm and norm(mm.group(1)) == norm(mm.group(2)):
            return [(T, a[0])]
        x = m.group(1); y = mm.group(2).strip() if mm else ''
        if x in INT_TYPES and (y in INT_TYPES or y == 'bool'):
            return [(T, E.cast(st, d(st, a[0]), x, 'IntToInt'))]
        if x == 'std::boxed::Box' or x.startswith('std::sync::Arc') or x.startswith('std::rc::Rc'):
            return [(T, a[0])] if isinstance(a[0], (Str, Ref)) else [(T, E.alloc(st, a[0]))]
        return None

    @model(r'^<(.+) as (?:std|core)::convert::TryFrom>::try_from$|^<(.+) as (?:std|core)::convert::TryInto>::try_into$')
    def _(E, st, callee, a, m):
        mm = re.match(r'^<(.*) as (?:std|core)::convert::Try(From|Into)<(.*)>>::try_\w+$', callee.strip())
        if not mm:
            return None
        if mm.group(2) == 'From':
            dst, src = mm.group(1).strip(), mm.group(3).strip()
        else:
            src, dst = mm.group(1).strip(), mm.group(3).strip()
        if dst in INT_TYPES and src in INT_TYPES:
            v = d(st, a[0])
            dw, ds = INT_TYPES[dst]
            W = max(dw, v.w) + 1
            ext = z3.SignExt(W - v.w, v.v) if v.s else z3.ZeroExt(W - v.w, v.v)
            lo = -(1 << (dw - 1)) if ds else 0
            hi = (1 << (dw - 1)) - 1 if ds else (1 << dw) - 1
            fits = z3.And(ext >= lo, ext <= hi)
            return [(fits, ok(E.cast(st, v, dst, 'IntToInt'))), (z3.Not(fits), err(Opaque('TryFromIntError')))]
        return None

    @model(r'^<(.+) as (?:std|core)::clone::Clone>::clone$|^<(.+) as std::borrow::ToOwned>::to_owned$')
    def _(E, st, callee, a, m):
        v = d(st, a[0])
        if isinstance(v, (I, Str, Tup, Adt, Seq, Obj, Opaque, Closure, FnItem, SymOrdering)) or z3.is_bool(v):
            if isinstance(v, Str) and 'ToOwned' in callee:
                return [(T, Obj('String', v) if v.is_str else Obj('VecU8', v))]
            return [(T, deep_copy(E, st, v))]
        return None

    def deep_copy(E, st, v):
        """values are immutable python objects; a clone only needs to snapshot through heap references"""
        if isinstance(v, Ref) and v.frame == 'heap':
            return E.alloc(st, deep_copy(E, st, E.read_ref(st, v)))
        if isinstance(v, Adt):
            return Adt(v.ty, v.variant, [deep_copy(E, st, x) for x in v.fields])
        if isinstance(v, Tup):
            return Tup([deep_copy(E, st, x) for x in v.fields])
        return v
    E.deep_copy = deep_copy

    @model(r'^<(bool|u8|u16|u32|u64|usize|i8|i16|i32|i64|isize|std::string::String|&str|std::vec::Vec|std::option::Option|\(\)|char) as (?:std|core)::default::Default>::default$')
    def _(E, st, callee, a, m):
        t = m.group(1)
        if t == 'bool': return [(T, FALSE)]
        if t in INT_TYPES: return [(T, I(0, *INT_TYPES[t]))]
        if t == 'std::string::String': return [(T, Obj('String', E.const_str(b'')))]
        if t == '&str': return [(T, E.const_str(b''))]
        if t == 'std::vec::Vec': return [(T, Obj('Vec', ()))]
        if t == 'std::option::Option': return [(T, NONE)]
        return [(T, UNIT)]

    # ---------------------------------------------------------------- equality / ordering (std + derived on foreign types)
    @model(r'^<(.+) as (?:std|core)::cmp::PartialEq>::(eq|ne)$')
    def _(E, st, callee, a, m):
        e = deep_eq(E, st, a[0], a[1])
        return [(T, z3.simplify(e if m.group(2) == 'eq' else z3.Not(e)))]

    @model(r'^<(.+) as (?:std|core)::cmp::(?:Partial)?Ord>::(cmp|partial_cmp|lt|le|gt|ge|max|min)$')
    def _(E, st, callee, a, m):
        op = m.group(2)
        if m.group(1).startswith('std::cmp::Reverse'):
            return None       # Reverse<T> is ordered by T's own Ord, reversed: see the dedicated model (collections)
        def local_adts(v, depth=0):
            v = E.deref(st, v) if isinstance(v, Ref) else v
            if isinstance(v, Adt):
                root = v.ty.split('::')[0].split('<')[0]
                if root in E.crates or any(root in rs for rs in E.local_roots.values()):
                    return [v.ty]
                return [t for x in v.fields for t in local_adts(x, depth + 1)] if depth < 4 else []
            if isinstance(v, Tup):
                return [t for x in v.fields for t in local_adts(x, depth + 1)] if depth < 4 else []
            return []
        loc = local_adts(a[0])
        if loc and op in ('cmp', 'partial_cmp'):
            # a crate type reaches this library model only if no body of its Ord impl was found: its ordering may be
            # hand-written, so the structural (derived) ordering must not be assumed
            raise Inconclusive(f'ordering of crate type {loc[0]} requested but no MIR body of its Ord impl was resolved ({callee.strip()[:120]})')
        if op in ('lt', 'le', 'gt', 'ge'):
            # provided methods of PartialOrd: defined through the type's own partial_cmp when the crate has one
            tn = E.type_name_of(st, a[0])
            cur = st.frames[-1].fn.crate if st.frames else None
            f = E.resolve(f'<{tn} as std::cmp::PartialOrd>::partial_cmp', cur, None, st) if tn and '::' in tn else None
            if f is not None:
                res = []
                for o in via_call(E, st, FnItem(f'<{tn} as std::cmp::PartialOrd>::partial_cmp', cur), [a[0], a[1]]):
                    if isinstance(o[1], Panic): res.append(o); continue
                    oc = o[1]
                    if oc.variant == 'None':
                        res.append((o[0], FALSE) + tuple(o[2:])); continue
                    cv = ordering_bv(E, oc.fields[0])
                    r = {'lt': cv == -1, 'le': cv != 1, 'gt': cv == 1, 'ge': cv != -1}[op]
                    res.append((o[0], z3.simplify(r)) + tuple(o[2:]))
                return res
        c = z3.simplify(deep_cmp(E, st, a[0], a[1]))
        if op == 'cmp': return [(T, SymOrdering(c))]
        if op == 'partial_cmp': return [(T, some(SymOrdering(c)))]
        if op in ('max', 'min'):
            x, y = d(st, a[0]), d(st, a[1])
            if isinstance(x, I):
                pick_y = (c != 1) if op == 'max' else (c == 1)
                return [(T, I(z3.If(pick_y, y.v, x.v), x.w, x.s))]
            return [((c != 1) if op == 'max' else (c == 1), a[1]), ((c == 1) if op == 'max' else (c != 1), a[0])]
        r = {'lt': c == -1, 'le': c != 1, 'gt': c == 1, 'ge': c != -1}[op]
        return [(T, z3.simplify(r))]

    @model(r'^(?:std|core)::cmp::Ordering::(\w+)$')
    def _(E, st, callee, a, m):
        op = m.group(1)
        c = ordering_bv(E, d(st, a[0]))
        if op == 'reverse': return [(T, SymOrdering(-c))]
        if op == 'then':
            return [(T, SymOrdering(z3.If(c == 0, ordering_bv(E, d(st, a[1])), c)))]
        if op == 'then_with':
            outs = E.via_call(E, st, a[1], [])
            res = []
            for o in outs:
                if isinstance(o[1], Panic): res.append(o); continue
                res.append((o[0], SymOrdering(z3.If(c == 0, ordering_bv(E, o[1]), c))) + tuple(o[2:]))
            return res
        r = {'is_eq': c == 0, 'is_ne': c != 0, 'is_lt': c == -1, 'is_gt': c == 1, 'is_le': c != 1, 'is_ge': c != -1}.get(op)
        if r is not None: return [(T, z3.simplify(r))]
        raise Inconclusive('Ordering::' + op)

    @model(r'^(?:std|core)::cmp::(max|min)$|^(?:std|core)::cmp::Ord::(max|min)$')
    def _(E, st, callee, a, m):
        op = m.group(1) or m.group(2)
        x, y = d(st, a[0]), d(st, a[1])
        c = z3.simplify(deep_cmp(E, st, x, y))
        if isinstance(x, I):
            pick_y = (c != 1) if op == 'max' else (c == 1)
            return [(T, I(z3.If(pick_y, y.v, x.v), x.w, x.s))]
        return [((c != 1) if op == 'max' else (c == 1), a[1]), ((c == 1) if op == 'max' else (c != 1), a[0])]

    # ---------------------------------------------------------------- Box / Arc / Rc / mem
    @model(r'^(?:std|alloc)::boxed::Box::new$|^std::sync::Arc::new$|^std::rc::Rc::new$|^std::boxed::Box::pin$')
    def _(E, st, callee, a, m):
        return [(T, E.alloc(st, a[0]))]

    @model(r'^(?:std|alloc)::boxed::Box::new_uninit$')
    def _(E, st, callee, a, m):
        # `vec![..]` lowering of recent compilers: Box::new_uninit(), a write through ((*p).1.0.0), box_assume_init_into_vec_unsafe
        cell = Adt('std::mem::MaybeUninit', None, [UNIT, Adt('std::mem::ManuallyDrop', None, [Adt('std::mem::MaybeDangling', None, [None])])])
        return [(T, E.alloc(st, cell))]

    @model(r'^(?:std|alloc)::boxed::box_assume_init_into_vec_unsafe$')
    def _(E, st, callee, a, m):
        cell = d(st, a[0])
        arr = cell.fields[1].fields[0].fields[0]
        if not isinstance(arr, Seq):
            raise Inconclusive('box_assume_init_into_vec_unsafe on an unwritten box')
        return [(T, Obj('Vec', tuple(arr.items)))]

    @model(r'^<(?:std::boxed::Box|std::sync::Arc|std::rc::Rc) as (?:std|core)::ops::Deref(?:Mut)?>::deref(?:_mut)?$|^<(?:std::boxed::Box|std::sync::Arc|std::rc::Rc) as (?:std|core)::convert::AsRef>::as_ref$|^<(?:std::boxed::Box|std::sync::Arc|std::rc::Rc) as std::borrow::Borrow>::borrow$')
    def _(E, st, callee, a, m):
        v = a[0]
        inner = E.read_ref(st, v) if isinstance(v, Ref) else v
        return [(T, inner if isinstance(inner, (Ref, Str, Seq)) else v)]

    @model(r'^(?:std|core)::mem::(take|replace|swap|drop|forget|size_of|align_of)$')
    def _(E, st, callee, a, m):
        op = m.group(1)
        if op in ('drop', 'forget', None): return [(T, UNIT)]
        if op == 'replace':
            old = E.read_ref(st, a[0])
            def eff(st2): E.store(st2, a[0], a[1])
            return [(T, old, eff)]
        if op == 'swap':
            x, y = E.read_ref(st, a[0]), E.read_ref(st, a[1])
            def eff(st2):
                E.store(st2, a[0], y); E.store(st2, a[1], x)
            return [(T, UNIT, eff)]
        if op == 'take':
            old = E.read_ref(st, a[0])
            from ..mirparse import turbofish
            t = turbofish(callee)
            outs = call_path(E, st, '<' + t[0] + ' as std::default::Default>::default', [])
            res = []
            for o in outs:
                dv = o[1]
                def eff(st2, dv=dv, prev=o[2] if len(o) > 2 else None):
                    if prev: prev(st2)
                    E.store(st2, a[0], dv)
                res.append((o[0], old, eff))
            return res
        raise Inconclusive('mem::' + str(op))

    @model(r'^<(.+) as (?:std|core)::ops::Deref>::deref$')
    def _(E, st, callee, a, m):
        v = d(st, a[0])
        if isinstance(v, Obj) and v.kind in ('String', 'VecU8'): return [(T, v.data)]
        if isinstance(v, Obj) and v.kind == 'Vec': return [(T, Seq(v.data))]
        if isinstance(v, Adt) and v.ty.endswith('Cow'):
            inner = d(st, v.fields[0])
            return [(T, inner.data if isinstance(inner, Obj) else inner)]
        return None

    @model(r'^<(.+) as (?:std|core)::convert::AsRef>::as_ref$|^<(.+) as std::borrow::Borrow>::borrow$')
    def _(E, st, callee, a, m):
        v = d(st, a[0])
        if isinstance(v, Str): return [(T, v)]
        if isinstance(v, Obj) and v.kind in ('String', 'VecU8'):
            return [(T, v.data)]
        if isinstance(v, Obj) and v.kind == 'Vec': return [(T, Seq(v.data))]
        mm = re.match(r'^<(.*) as .*(?:AsRef|Borrow)<(.*)>>::\w+$', callee.strip())
        if mm and norm(mm.group(1).lstrip('&')) == norm(mm.group(2)):
            return [(T, a[0])]
        return None

    @model(r'^(?:std|core)::convert::identity$')
    def _(E, st, callee, a, m): return [(T, a[0])]

    @model(r'^(?:std|core)::intrinsics::(\w+)$')
    def _(E, st, callee, a, m):
        op = m.group(1)
        if op in ('likely', 'unlikely', 'black_box'): return [(T, a[0])]
        if op == 'assume': return [(T, UNIT)]
        if op in ('unreachable',): return [(T, Panic('intrinsics::unreachable'))]
        raise Inconclusive('intrinsic ' + op)

    @model(r'^(?:std|core)::hint::(black_box|assert_unchecked|must_use)$')
    def _(E, st, callee, a, m): return [(T, a[0] if a else UNIT)]

    # calls through Fn* traits (boxed closures, fn pointers, generic F)
    @model(r'^<(.+) as (?:std|core)::ops::(Fn|FnMut|FnOnce)>::(call|call_mut|call_once)$')
    def _(E, st, callee, a, m):
        tgt = d(st, a[0])
        if isinstance(tgt, (Closure, FnItem)):
            args = a[1].fields if isinstance(a[1], Tup) else [a[1]]
            return via_call(E, st, tgt, list(args))
        return None

    @model(r'^(?:std|alloc)::boxed::Box::(into_raw|from_raw|leak|into_inner|into_boxed_str|as_ref|as_mut)$|^std::sync::Arc::(into_raw|from_raw|as_ptr)$|^std::rc::Rc::(into_raw|from_raw|as_ptr)$')
    def _(E, st, callee, a, m):
        return [(T, a[0])]

    @model(r'^core::bool::<impl bool>::(then|then_some)$')
    def _(E, st, callee, a, m):
        b = d(st, a[0])
        if m.group(1) == 'then_some':
            return [(b, some(a[1])), (z3.Not(b), NONE)]
        outs = via_call(E, st, a[1], [], wrap=some)
        res = [(z3.And(b, o[0]),) + tuple(o[1:]) for o in outs]
        res.append((z3.Not(b), NONE))
        return res

    # ranges
    @model(r'^(?:std|core)::ops::RangeInclusive::(new|start|end|contains|is_empty|into_inner)$|^(?:std|core)::ops::(Range|RangeFrom|RangeTo|RangeToInclusive)::(contains|is_empty)$|^<(?:std|core)::ops::(?:Range|RangeInclusive|RangeFrom|RangeTo|RangeToInclusive) as (?:std|core)::ops::RangeBounds>::contains$')
    def _(E, st, callee, a, m):
        g = [x for x in m.groups() if x]
        op = g[-1] if g else 'contains'
        kind = 'RangeInclusive' if 'RangeInclusive' in callee and 'RangeToInclusive' not in callee else (
            'RangeToInclusive' if 'RangeToInclusive' in callee else ('RangeFrom' if 'RangeFrom' in callee else ('RangeTo' if 'RangeTo' in callee else 'Range')))
        if op == 'new':
            return [(T, Adt('std::ops::RangeInclusive', None, [a[0], a[1], FALSE]))]
        r = d(st, a[0])
        if op == 'start': return [(T, E.root_ref(st, r.fields[0]))]
        if op == 'end': return [(T, E.root_ref(st, r.fields[1]))]
        if op == 'into_inner': return [(T, Tup([r.fields[0], r.fields[1]]))]
        def cmpv(x, y, strict):
            x, y = d(st, x), d(st, y)
            if x.s: return (x.v < y.v) if strict else (x.v <= y.v)
            return z3.ULT(x.v, y.v) if strict else z3.ULE(x.v, y.v)
        if op == 'contains':
            x = a[1]
            if kind == 'RangeInclusive': c = z3.And(cmpv(r.fields[0], x, False), cmpv(x, r.fields[1], False))
            elif kind == 'Range': c = z3.And(cmpv(r.fields[0], x, False), cmpv(x, r.fields[1], True))
            elif kind == 'RangeFrom': c = cmpv(r.fields[0], x, False)
            elif kind == 'RangeTo': c = cmpv(x, r.fields[0], True)
            else: c = cmpv(x, r.fields[0], False)
            return [(T, z3.simplify(c))]
        if op == 'is_empty':
            if kind == 'RangeInclusive': return [(T, z3.simplify(z3.Not(cmpv(r.fields[0], r.fields[1], False))))]
            return [(T, z3.simplify(z3.Not(cmpv(r.fields[0], r.fields[1], True))))]
        raise Inconclusive('range op ' + op)

    # integers
    @model(r'^(?:std|core)::num::<impl (u8|u16|u32|u64|usize|i8|i16|i32|i64|isize)>::(\w+)$')
    def _(E, st, callee, a, m):
        ty, op = m.group(1), m.group(2)
        w, sg = INT_TYPES[ty]
        x = d(st, a[0])
        y = d(st, a[1]) if len(a) > 1 else None
        if op in ('checked_add', 'checked_sub', 'checked_mul'):
            t = E.binop({'checked_add': 'AddWithOverflow', 'checked_sub': 'SubWithOverflow', 'checked_mul': 'MulWithOverflow'}[op], x, y)
            return [(z3.Not(t.fields[1]), some(t.fields[0])), (t.fields[1], NONE)]
        if op in ('wrapping_add', 'wrapping_sub', 'wrapping_mul'):
            return [(T, E.binop({'wrapping_add': 'Add', 'wrapping_sub': 'Sub', 'wrapping_mul': 'Mul'}[op], x, y))]
        if op in ('saturating_add', 'saturating_sub'):
            t = E.binop('AddWithOverflow' if op == 'saturating_add' else 'SubWithOverflow', x, y)
            if sg:
                lim = z3.If(y.v < 0 if op == 'saturating_add' else y.v >= 0, z3.BitVecVal(-(1 << (w - 1)), w), z3.BitVecVal((1 << (w - 1)) - 1, w))
            else:
                lim = z3.BitVecVal((1 << w) - 1 if op == 'saturating_add' else 0, w)
            return [(T, I(z3.If(t.fields[1], lim, t.fields[0].v), w, sg))]
        if op in ('overflowing_add', 'overflowing_sub'):
            return [(T, E.binop('AddWithOverflow' if op == 'overflowing_add' else 'SubWithOverflow', x, y))]
        if op == 'min' or op == 'max':
            lt = (x.v < y.v) if sg else z3.ULT(x.v, y.v)
            return [(T, I(z3.If(lt, x.v if op == 'min' else y.v, y.v if op == 'min' else x.v), w, sg))]
        if op == 'abs':
            return [(x.v != -(1 << (w - 1)), I(z3.If(x.v < 0, -x.v, x.v), w, sg)), (x.v == -(1 << (w - 1)), Panic('attempt to negate with overflow'))]
        if op == 'unsigned_abs':
            return [(T, I(z3.If(x.v < 0, -x.v, x.v), w, False))]
        if op == 'is_power_of_two':
            return [(T, z3.And(x.v != 0, (x.v & (x.v - 1)) == 0))]
        if op == 'pow':
            e = y.conc()
            if e is None: raise Inconclusive('pow with symbolic exponent')
            r = I(1, w, sg)
            outs_ov = FALSE
            for _ in range(e):
                t = E.binop('MulWithOverflow', r, x); r = t.fields[0]; outs_ov = z3.Or(outs_ov, t.fields[1])
            return [(z3.Not(outs_ov), r), (outs_ov, Panic('attempt to multiply with overflow'))]
        return None
