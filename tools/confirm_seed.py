#!/usr/bin/env python3
"""Confirm a seeded change in a scratch worktree and record it under /verif/seeded/<name>/.
usage: confirm_seed.py <name> <property> <worktree> <outdir> <demo-dest-relative> <demo test cmd> -- <baseline cmd> [-- <baseline cmd> ...]
Checks: demo passes on the clean tree; with patch: demo fails, baseline test commands pass."""
import json, os, shutil, subprocess, sys

name, prop, wt, out, dest, demo_cmd = sys.argv[1:7]
rest = sys.argv[7:]
base_cmds, cur = [], []
for a in rest:
    if a == '--':
        if cur: base_cmds.append(' '.join(cur)); cur = []
    else:
        cur.append(a)
if cur: base_cmds.append(' '.join(cur))
env = dict(os.environ, RUSTUP_TOOLCHAIN='1.88.0', CARGO_TARGET_DIR=wt + '-target', CARGO_NET_OFFLINE='true')


def run(cmd):
    r = subprocess.run(cmd, shell=True, cwd=wt, env=env, capture_output=True, text=True)
    return r.returncode, (r.stdout + r.stderr)[-1500:]


def clean():
    subprocess.run('git checkout -- . && git clean -fdq', shell=True, cwd=wt)


clean()
log = {}
os.makedirs(os.path.dirname(os.path.join(wt, dest)), exist_ok=True)
shutil.copyfile(os.path.join(out, 'demo.rs'), os.path.join(wt, dest))
rc0, o0 = run(demo_cmd)
log['demo_clean'] = {'rc': rc0, 'tail': o0[-400:]}
rc = subprocess.run(['git', 'apply', os.path.join(out, 'patch.diff')], cwd=wt).returncode
log['apply_rc'] = rc
rc1, o1 = run(demo_cmd)
log['demo_patched'] = {'rc': rc1, 'tail': o1[-600:]}
log['baseline'] = []
okb = True
for c in base_cmds:
    r, o = run(c)
    log['baseline'].append({'cmd': c, 'rc': r, 'tail': o[-300:]})
    okb = okb and r == 0
clean()
ok = rc0 == 0 and rc == 0 and rc1 != 0 and okb
d = os.path.join('/verif/seeded', name)
os.makedirs(d, exist_ok=True)
shutil.copyfile(os.path.join(out, 'patch.diff'), os.path.join(d, 'patch.diff'))
shutil.copyfile(os.path.join(out, 'demo.rs'), os.path.join(d, 'demo.rs'))
meta = {'property': prop, 'confirmed': ok, 'needs_to_manifest': open(os.path.join(out, 'meta.txt')).read()[:3000],
        'demo_destination': dest, 'demo_cmd': demo_cmd, 'baseline_cmds': base_cmds,
        'what_i_ran': log, 'demo_notes': open(os.path.join(out, 'demo.txt')).read()[:1500]}
json.dump(meta, open(os.path.join(d, 'meta.json'), 'w'), indent=1)
print(name, 'CONFIRMED' if ok else 'NOT CONFIRMED', {k: (v['rc'] if isinstance(v, dict) else v) for k, v in log.items() if k != 'baseline'}, [b['rc'] for b in log['baseline']])
