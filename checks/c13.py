#!/usr/bin/env python3-vt
"""C13 - push ruleset edits follow placement semantics, never panic, and fail atomically.

One step from an arbitrary valid state (inductive argument instead of histories): the pre-state is a symbolic rule
list of one kind (k rules with symbolic, pairwise distinct ids; symbolic enabled/default flags; for overrides either
empty or led by `.m.rule.master`), the operation has symbolic arguments (rule id possibly present, `after`/`before`
absent / unknown / present / server-default).  Ruleset::insert / remove / set_enabled / set_actions are executed from
the MIR of ruma-common with the IndexSet model; z3 decides the post-condition; counterexamples are replayed through
the public API."""
import os, sys, re, itertools
sys.path.insert(0, os.path.dirname(os.path.abspath(__file__)))
from common import *
from mirsym.models.str_models import str_eq

os.environ.setdefault('VERIF_MAIN_MODULE', 'c13')
IDLEN = 3
KINDS = {'override': ('Override', 'push::ConditionalPushRule', 'push::NewConditionalPushRule', 'override_'),
         'underride': ('Underride', 'push::ConditionalPushRule', 'push::NewConditionalPushRule', 'underride'),
         'content': ('Content', 'push::PatternedPushRule', 'push::NewPatternedPushRule', 'content'),
         'room': ('Room', 'push::SimplePushRule', 'push::NewSimplePushRule', 'room'),
         'sender': ('Sender', 'push::SimplePushRule', 'push::NewSimplePushRule', 'sender')}


def sym_id(E, name, kind=None, anchor=False):
    """1..IDLEN printable ASCII bytes.  Room / sender rule ids are typed identifiers: there the alphabet is [a-z0-9]
    (anchors may additionally start with '.'), so that the native replay can embed them into valid room / user ids."""
    s, cons = E.sym_str(name, IDLEN, utf8=False, minlen=1)
    if kind in ('room', 'sender'):
        alnum = lambda b: z3.Or(z3.And(z3.UGE(b, 97), z3.ULE(b, 122)), z3.And(z3.UGE(b, 48), z3.ULE(b, 57)))
        cons = cons + [z3.Or(alnum(s.at(j)), z3.BoolVal(anchor and j == 0) if not (anchor and j == 0) else s.at(j) == 46) for j in range(IDLEN)]
    else:
        cons = cons + [z3.And(z3.UGE(s.at(j), 0x21), z3.ULE(s.at(j), 0x7E)) for j in range(IDLEN)]
    return s, cons


OWNED = {'room': 'identifiers::room_id::OwnedRoomId', 'sender': 'identifiers::user_id::OwnedUserId'}


def id_value(kind, rid):
    if kind in OWNED:
        return Adt(OWNED[kind], None, [rid])
    return Obj('String', rid)


def mk_rule(E, kind, rid, enabled, default, tag):
    """a rule value of the kind's element type; field order from the item index"""
    _, ty, _, _ = KINDS[kind]
    names = E.src.structs[ty]
    vals = {'actions': Obj('Vec', (Opaque('action-' + tag),)), 'default': default, 'enabled': enabled,
            'rule_id': id_value(kind, rid), 'conditions': Obj('Vec', ()), 'pattern': Obj('String', E.const_str(b'pat-' + tag.encode()))}
    return Adt(ty, None, [vals[n] for n in names])


def mk_new_rule(E, kind, rid, tag):
    var, _, nty, _ = KINDS[kind]
    names = E.src.structs[nty]
    vals = {'actions': Obj('Vec', (Opaque('action-' + tag),)), 'rule_id': id_value(kind, rid), 'conditions': Obj('Vec', ()),
            'pattern': Obj('String', E.const_str(b'pat-' + tag.encode()))}
    inner = Adt(nty, None, [vals[n] for n in names])
    return Adt('push::NewPushRule', var, [inner])


def rule_field(E, rule, name):
    names = E.src.structs[rule.ty]
    return rule.fields[names.index(name)]


def mk_ruleset(E, kind, rules):
    names = E.src.structs['push::Ruleset']
    field = KINDS[kind][3]
    return Adt('push::Ruleset', None, [E.mk_indexset(rules) if n == field else E.mk_indexset(()) for n in names])


def get_set(E, rs, kind):
    names = E.src.structs['push::Ruleset']
    return rs.fields[names.index(KINDS[kind][3])].data


def opt_str(x):
    return NONE if x is None else some(x)


def run_insert(C, job):
    kind, k, master = job
    N = IDLEN
    E = C.fresh_engine(['common'], N=8)
    E.feas_mode = 'budget'
    E.feas_timeout_ms = 400
    label = f'insert:{kind}:k={k}' + (':master' if master else '')
    cons = []
    ids, rules = [], []
    for i in range(k):
        if master and i == 0:
            rid = E.const_str(b'.m.rule.master'); cs = []
            en, de = z3.Bool(f'en{i}'), TRUE
        else:
            rid, cs = sym_id(E, f'id{i}', kind)
            en, de = z3.Bool(f'en{i}'), z3.Bool(f'def{i}')
            # server-default rules are exactly those whose id starts with '.'
            cs = cs + [de == (rid.at(0) == 46)]
        ids.append(rid); cons += cs
        rules.append(mk_rule(E, kind, rid, en, de, f'old{i}'))
    for a, b in itertools.combinations(range(k), 2):
        cons.append(z3.Not(str_eq(E, ids[a], ids[b])))
    new_id, cs = sym_id(E, 'newid', kind); cons += cs
    # anchors: each absent or a symbolic string
    modes = [(a, b) for a in ('none', 'some') for b in ('none', 'some')]
    f = E.find_method('Ruleset', 'insert')
    for am, bm in modes:
        lab = f'{label}:after={am}:before={bm}'
        extra = []
        after = before = None
        if am == 'some':
            after, cs = sym_id(E, 'after', kind, True); extra += cs
        if bm == 'some':
            before, cs = sym_id(E, 'before', kind, True); extra += cs
        allc = cons + extra
        st = E.new_state()
        rs_ref = E.root_ref(st, mk_ruleset(E, kind, rules))
        new_rule = mk_new_rule(E, kind, new_id, 'new')
        outs = E.run_func(f, [rs_ref, new_rule, opt_str(after), opt_str(before)], allc, st=st)
        C.absorb(E)
        check_insert_outcomes(C, E, lab, kind, k, master, ids, rules, new_id, after, before, outs, rs_ref, allc)
    validate_insert_model(C, E, kind, k, master, f)
    C.bounds[label] = {'rules_in_pre_state': k, 'id_bytes': IDLEN, 'master_first': master}


def validate_insert_model(C, E, kind, k, master, f):
    """interpreter (concrete data, IndexSet model) vs native build: validates translator and models"""
    alpha = 'abc' if kind in ('room', 'sender') else 'ab./'
    for _ in range(4):
        pool = ['a', 'b', 'c', 'ab', 'ba', 'bb', 'ca'] if kind in ('room', 'sender') else ['a', 'b', 'c', 'ab', 'a/', 'bb', 'x']
        C.rng.shuffle(pool)
        pre_ids = (['.m.rule.master'] if master else []) + pool[:k - (1 if master else 0)]
        pre = [{'id': i, 'enabled': C.rng.random() < 0.5, 'default': i.startswith('.')} for i in pre_ids]
        new_id = C.rng.choice(pre_ids[1 if master else 0:] + pool[k:k + 2] or ['n'])
        anc = [None, None] + pre_ids + ['zz', '.m.rule.master']
        after, before = C.rng.choice(anc), C.rng.choice(anc)
        rules = [mk_rule(E, kind, E.const_str(r['id'].encode()), z3.BoolVal(r['enabled']), z3.BoolVal(r['default']), f'v{j}') for j, r in enumerate(pre)]
        st = E.new_state()
        rs_ref = E.root_ref(st, mk_ruleset(E, kind, rules))
        outs = E.run_func(f, [rs_ref, mk_new_rule(E, kind, E.const_str(new_id.encode()), 'new'),
                              opt_str(E.const_str(after.encode()) if after is not None else None),
                              opt_str(E.const_str(before.encode()) if before is not None else None)], st=st)
        vec = {'op': 'c13:insert', 'kind': kind, 'pre': pre, 'new_id': new_id, 'after': after, 'before': before}
        res = C.native(vec)
        C.model_validation += 1
        if len(outs) != 1:
            raise Broken(f'model validation: {len(outs)} paths on concrete data {vec}')
        o = outs[0]
        if o.kind == 'panic':
            same = res.get('r') == 'panic'
        elif o.value.variant == 'Err':
            same = res.get('r') == 'err' and res.get('e') == o.value.fields[0].variant
        else:
            post = get_set(E, E.read_ref(o.st, rs_ref), kind)
            pids = [E.as_str(o.st, rule_field(E, r, 'rule_id')).conc().decode() for r in post]
            same = res.get('r') == 'ok' and res.get('ids') == pids
        if not same:
            raise Broken(f'model validation failed for Ruleset::insert: interpreter {o.kind} {o.value!r} vs native {res} on {vec}')


def idx_of(E, ids, x):
    """(present, index term) of string x among ids (python list of Str)"""
    present = z3.Or(*[str_eq(E, i, x) for i in ids]) if ids else z3.BoolVal(False)
    idx = z3.BitVecVal(len(ids), 8)
    for j in range(len(ids) - 1, -1, -1):
        idx = z3.If(str_eq(E, ids[j], x), z3.BitVecVal(j, 8), idx)
    return present, idx


def native_insert(C, kind, model, ids, rules, new_id, after, before, E):
    pre = []
    for rid, r in zip(ids, rules):
        en = rule_field(E, r, 'enabled'); de = rule_field(E, r, 'default')
        pre.append({'id': model_bytes(model, rid).decode('latin1'), 'enabled': z3.is_true(model.eval(en, model_completion=True)),
                    'default': z3.is_true(model.eval(de, model_completion=True))})
    vec = {'op': 'c13:insert', 'kind': kind, 'pre': pre, 'new_id': model_bytes(model, new_id).decode('latin1'),
           'after': model_bytes(model, after).decode('latin1') if after is not None else None,
           'before': model_bytes(model, before).decode('latin1') if before is not None else None}
    res = C.native(vec)
    vec['native'] = res
    return vec, res


def spec_insert(pre, new_id, after, before, kind):
    """reference semantics of Ruleset::insert from its documentation / the property statement, on concrete data.
    returns ('err', name) or ('ok', [ids in order], {id: enabled})"""
    ids = [r['id'] for r in pre]
    if new_id.startswith('.'): return ('err', 'ServerDefaultRuleId')
    if '/' in new_id or '\\' in new_id: return ('err', 'InvalidRuleId')
    if (after is not None and after.startswith('.')) or (before is not None and before.startswith('.')):
        return ('err', 'RelativeToServerDefaultRule')
    if after is not None and after not in ids: return ('err', 'UnknownRuleId')
    if before is not None and before not in ids: return ('err', 'UnknownRuleId')
    if after is not None and before is not None and ids.index(before) <= ids.index(after):
        return ('err', 'BeforeHigherThanAfter')
    enabled = {r['id']: r['enabled'] for r in pre}
    existed = new_id in ids
    if not existed:
        enabled[new_id] = True
    if existed and after is None and before is None:
        return ('ok', ids, enabled)
    rest = [i for i in ids if i != new_id]
    if before is not None:
        if before == new_id: return ('ok', ids, enabled)
        pos = rest.index(before)
    elif after is not None:
        if after == new_id: return ('ok', ids, enabled)
        pos = rest.index(after) + 1
    else:
        # `.m.rule.master` stays the most important override rule: a new override rule goes to the second place at most
        pos = min(1, len(rest)) if kind == 'override' else 0
    return ('ok', rest[:pos] + [new_id] + rest[pos:], enabled)


def check_insert_outcomes(C, E, lab, kind, k, master, ids, rules, new_id, after, before, outs, rs_ref, allc):
    """build, per path, the violation condition against the documented semantics; decide; replay"""
    bad = []
    for o in outs:
        if o.kind == 'panic':
            bad.append(('panic', o.cond(), str(o.value)))
            continue
        if o.kind != 'ret':
            bad.append(('diverge', o.cond(), str(o.kind))); continue
        post = get_set(E, E.read_ref(o.st, rs_ref), kind)
        post_ids = [E.as_str(o.st, rule_field(E, r, 'rule_id')) for r in post]
        pre_is_post = len(post) == len(rules) and all(p is q for p, q in zip(post, rules))
        if o.value.variant == 'Err':
            if not pre_is_post:
                bad.append(('non-atomic error', o.cond(), f'returns {o.value.fields[0]} but the rule list was modified'))
            continue
        # Ok: ids unique, placement
        conds = []
        n = len(post)
        for a, b in itertools.combinations(range(n), 2):
            conds.append(z3.Not(str_eq(E, post_ids[a], post_ids[b])))
        pres_new, pos_new = idx_of(E, post_ids, new_id)
        conds.append(pres_new)
        was, old_pos = idx_of(E, ids, new_id)
        # every old rule other than the replaced one is still there, relative order unchanged
        old_positions = []
        for j, rid in enumerate(ids):
            pj, qj = idx_of(E, post_ids, rid)
            conds.append(pj)
            old_positions.append(qj)
        for a, b in itertools.combinations(range(len(ids)), 2):
            na, nb = z3.Not(str_eq(E, ids[a], new_id)), z3.Not(str_eq(E, ids[b], new_id))
            conds.append(z3.Implies(z3.And(na, nb), z3.ULT(old_positions[a], old_positions[b])))
        conds.append(z3.BoolVal(n == len(ids)) == was if n in (len(ids), len(ids) + 1) else z3.BoolVal(False))
        if after is not None:
            pa, qa = idx_of(E, post_ids, after)
            if before is None:
                conds.append(z3.Implies(z3.Not(str_eq(E, after, new_id)), z3.And(pa, pos_new == qa + 1)))
        if before is not None:
            pb, qb = idx_of(E, post_ids, before)
            conds.append(z3.Implies(z3.Not(str_eq(E, before, new_id)), z3.And(pb, pos_new + 1 == qb)))
        if after is None and before is None:
            want_new = z3.BitVecVal(min(1, len(ids)) if kind == 'override' else 0, 8)
            conds.append(z3.If(was, pos_new == old_pos, pos_new == want_new))
        # the inserted rule: enabled flag preserved on replacement
        for idx_p, r in enumerate(post):
            is_new = str_eq(E, post_ids[idx_p], new_id)
            en_post = rule_field(E, r, 'enabled')
            for j, old in enumerate(rules):
                conds.append(z3.Implies(z3.And(is_new, str_eq(E, ids[j], new_id)), en_post == rule_field(E, old, 'enabled')))
            conds.append(z3.Implies(z3.And(is_new, z3.Not(was)), en_post))
            # untouched rules keep their flags (same object) unless they are the replaced one
        bad.append(('placement', z3.And(o.cond(), z3.Not(z3.And(*conds))), 'placement / uniqueness / enabled-flag post-condition'))
        # arguments that must have been rejected
        must_err = z3.Or(new_id.at(0) == 46,
                         z3.Or(*[z3.And(z3.ULT(bv(j), new_id.ln), z3.Or(new_id.at(j) == 47, new_id.at(j) == 92)) for j in range(IDLEN)]))
        for anc in (after, before):
            if anc is not None:
                must_err = z3.Or(must_err, anc.at(0) == 46, z3.Not(idx_of(E, ids, anc)[0]))
        if after is not None and before is not None:
            _, ia = idx_of(E, ids, after); _, ib = idx_of(E, ids, before)
            must_err = z3.Or(must_err, z3.ULE(ib, ia))
        bad.append(('accepted invalid arguments', z3.And(o.cond(), must_err), 'an operation that must fail returned Ok'))
    # group by class, decide each class with one query (+ role exclusions for listed findings)
    by = {}
    for cls, cond, what in bad:
        by.setdefault(cls, []).append((cond, what))
    for cls, lst in by.items():
        fs = allc + [z3.Or(*[c for c, _ in lst])]
        role = f'insert-{cls.replace(" ", "-")}'
        r, m = C.solve(f'{lab}: no {cls}', fs)
        if r == 'sat':
            vec, res = native_insert(C, kind, m, ids, rules, new_id, after, before, E)
            want = spec_insert(vec['pre'], vec['new_id'], vec['after'], vec['before'], kind)
            if native_matches_spec(res, want):
                raise Broken(f'{lab}: model for {cls} does not reproduce natively: {vec} (spec {want})')
            desc = f'{lab}: {cls}: pre={[r["id"] for r in vec["pre"]]} insert {vec["new_id"]!r} after={vec["after"]!r} before={vec["before"]!r} -> native {res}, documented semantics {want}'
            frole = classify_finding(res, want)
            if C.is_known(frole):
                C.report_known(frole, desc[:300])
            else:
                C.report_violation(desc, vec)
            C.samples.append({'query': lab, 'class': cls, 'counterexample': vec, 'spec': want})


def native_matches_spec(res, want):
    if res.get('r') == 'panic':
        return False
    if want[0] == 'err':
        return res.get('r') == 'err' and res.get('e') == want[1] and res.get('unchanged') is True
    return res.get('r') == 'ok' and res.get('ids') == want[1] and all(res.get('enabled', {}).get(k) == v for k, v in want[2].items())


def classify_finding(res, want):
    if res.get('r') == 'panic':
        return 'insert-panics'
    if res.get('r') == 'err' and res.get('unchanged') is False:
        return 'insert-error-not-atomic'
    return 'insert-wrong-placement'


def run_other(C, job):
    """remove / set_enabled / set_actions: one step from an arbitrary state of one kind"""
    kind, k = job
    E = C.fresh_engine(['common'], N=8)
    E.feas_mode = 'budget'
    cons, ids, rules = [], [], []
    for i in range(k):
        rid, cs = sym_id(E, f'id{i}', kind)
        en, de = z3.Bool(f'en{i}'), z3.Bool(f'def{i}')
        ids.append(rid); cons += cs + [de == (rid.at(0) == 46)]
        rules.append(mk_rule(E, kind, rid, en, de, f'old{i}'))
    for a, b in itertools.combinations(range(k), 2):
        cons.append(z3.Not(str_eq(E, ids[a], ids[b])))
    target, cs = sym_id(E, 'target', kind); cons += cs
    rk = Adt('push::RuleKind', KINDS[kind][0], [])
    for op in ('remove', 'set_enabled', 'set_actions'):
        lab = f'{op}:{kind}:k={k}'
        st = E.new_state()
        rs_ref = E.root_ref(st, mk_ruleset(E, kind, rules))
        f = E.find_method('Ruleset', op)
        flag = z3.Bool('new_enabled')
        new_actions = Obj('Vec', (Opaque('action-set'),))
        args = [rs_ref, rk, target] + ([flag] if op == 'set_enabled' else [new_actions] if op == 'set_actions' else [])
        outs = E.run_func(f, args, cons, st=st)
        C.absorb(E)
        bad = []
        pres, pos = idx_of(E, ids, target)
        for o in outs:
            if o.kind != 'ret':
                bad.append(z3.And(o.cond())); continue
            post = get_set(E, E.read_ref(o.st, rs_ref), kind)
            post_ids = [E.as_str(o.st, rule_field(E, r, 'rule_id')) for r in post]
            same = len(post) == len(rules) and all(p is q for p, q in zip(post, rules))
            if o.value.variant == 'Err':
                okc = z3.BoolVal(same)
                if op == 'remove':
                    # errors only for unknown or server-default rules
                    isdef = z3.Or(*[z3.And(str_eq(E, ids[j], target), rule_field(E, rules[j], 'default')) for j in range(k)]) if k else z3.BoolVal(False)
                    okc = z3.And(okc, z3.Or(z3.Not(pres), isdef))
                else:
                    okc = z3.And(okc, z3.Not(pres))
                bad.append(z3.And(o.cond(), z3.Not(okc))); continue
            conds = [pres]
            if op == 'remove':
                conds.append(z3.BoolVal(len(post) == k - 1))
                # the removed rule was not a server default; the others keep order and identity
                for j in range(k):
                    conds.append(z3.Implies(str_eq(E, ids[j], target), z3.Not(rule_field(E, rules[j], 'default'))))
                    if len(post) == k - 1:
                        rest = [r for i2, r in enumerate(rules) if i2 != j]
                        conds.append(z3.Implies(str_eq(E, ids[j], target), z3.BoolVal(all(p is q for p, q in zip(post, rest)))))
            else:
                conds.append(z3.BoolVal(len(post) == k))
                if len(post) == k:
                    for j in range(k):
                        hit = str_eq(E, ids[j], target)
                        r = post[j]
                        conds.append(str_eq(E, post_ids[j], ids[j]))
                        if op == 'set_enabled':
                            conds.append(z3.If(hit, rule_field(E, r, 'enabled') == flag, z3.BoolVal(r is rules[j])))
                            conds.append(z3.BoolVal(rule_field(E, r, 'actions') is rule_field(E, rules[j], 'actions')))
                        else:
                            conds.append(z3.If(hit, z3.BoolVal(rule_field(E, r, 'actions') is new_actions), z3.BoolVal(r is rules[j])))
                            conds.append(rule_field(E, r, 'enabled') == rule_field(E, rules[j], 'enabled'))
                        conds.append(rule_field(E, r, 'default') == rule_field(E, rules[j], 'default'))
            bad.append(z3.And(o.cond(), z3.Not(z3.And(*conds))))
        r, m = C.solve(f'{lab}: post-condition (atomic errors, only the addressed rule changes, order kept)', cons + [z3.Or(*bad)])
        if r == 'sat':
            pre = [{'id': model_bytes(m, rid).decode('latin1'), 'enabled': z3.is_true(m.eval(rule_field(E, rr, 'enabled'), model_completion=True)),
                    'default': z3.is_true(m.eval(rule_field(E, rr, 'default'), model_completion=True))} for rid, rr in zip(ids, rules)]
            vec = {'op': 'c13:' + op, 'kind': kind, 'pre': pre, 'target': model_bytes(m, target).decode('latin1'),
                   'flag': z3.is_true(m.eval(flag, model_completion=True))}
            res = C.native(vec); vec['native'] = res
            want = spec_other(op, pre, vec['target'], vec['flag'])
            if res.get('r') != 'panic' and {k2: res.get(k2) for k2 in want} == want:
                raise Broken(f'{lab}: model does not reproduce natively: {vec} (spec {want})')
            C.report_violation(f'{lab}: native {res}, documented semantics {want}: {vec}', vec)
        C.bounds[lab] = {'rules_in_pre_state': k, 'id_bytes': IDLEN}


def spec_other(op, pre, target, flag):
    ids = [r['id'] for r in pre]
    if target not in ids:
        return {'r': 'err', 'unchanged': True}
    r = pre[ids.index(target)]
    if op == 'remove':
        if r['default']:
            return {'r': 'err', 'unchanged': True}
        return {'r': 'ok', 'ids': [i for i in ids if i != target]}
    if op == 'set_enabled':
        en = {x['id']: x['enabled'] for x in pre}; en[target] = flag
        return {'r': 'ok', 'ids': ids, 'enabled': en}
    return {'r': 'ok', 'ids': ids, 'changed_actions': [target]}


def body(C):
    C.engine(['common'], N=8)
    C.build_replayer(['common'])
    kmax = int(os.environ.get('VERIF_K', '3' if C.tier == 'quick' else '4'))
    jobs = []
    for kind in KINDS:
        for k in range(0, kmax + 1):
            jobs.append((run_insert, (kind, k, False)))
            if kind == 'override' and k >= 1:
                jobs.append((run_insert, (kind, k, True)))
        for k in range(0, min(kmax, 3) + 1):
            jobs.append((run_other, (kind, k)))
    only = os.environ.get('VERIF_ONLY')
    if only:
        jobs = [j for j in jobs if only in repr(j[1])]
    C.assumptions += [
        f'one operation from an arbitrary valid state of one rule kind with at most {kmax} rules; rule ids are arbitrary strings of 1..{IDLEN} printable ASCII bytes '
        '(enough for equality, the `.` server-default prefix and the `/` `\\\\` checks); server-default rules are exactly those whose id starts with `.`',
        'override pre-states are empty, arbitrary, or led by `.m.rule.master`; the default position of a new override rule is checked only in the master-led and empty states',
        'since every operation re-establishes the invariant (pairwise distinct ids), the one-step claim covers histories of any length over such states',
        'IndexSet is a library model (ordered list, documented replace_full / move_index / shift_remove semantics); element equality/equivalence runs the crate\'s own impls',
        'actions / conditions / patterns are opaque values',
    ]
    parallel_map(C, jobs, None)


if __name__ == '__main__':
    run_check('C13', body)
