//! C01: number admission into canonical JSON (ruma-owned kernel), all 64-bit patterns.
use js_int::Int;
use ruma_common::canonical_json::{CanonicalJsonError, CanonicalJsonValue};
use serde_json::{Number, Value as JsonValue};

const MAX: i64 = (1i64 << 53) - 1;

/// every i64: admitted iff |n| <= 2^53-1, value preserved in both directions
#[kani::proof]
#[kani::unwind(2)]
fn c01_i64_admission() {
    let n: i64 = kani::any();
    let r = CanonicalJsonValue::try_from(JsonValue::Number(Number::from(n)));
    let in_range = n >= -MAX && n <= MAX;
    match &r {
        Ok(CanonicalJsonValue::Integer(i)) => {
            assert!(in_range, "out-of-range integer admitted");
            assert!(i64::from(*i) == n, "integer altered");
            // and back
            let back = JsonValue::from(CanonicalJsonValue::Integer(*i));
            match &back {
                JsonValue::Number(m) => assert!(m.as_i64() == Some(n), "integer altered on the way back"),
                _ => panic!("integer became a non-number"),
            }
            std::mem::forget(back);
        }
        Ok(_) => panic!("number became a non-integer"),
        Err(_) => assert!(!in_range, "in-range integer rejected"),
    }
    // drop glue of the recursive value types is not the subject (and explodes in CBMC)
    std::mem::forget(r);
}

/// every u64: admitted iff n <= 2^53-1
#[kani::proof]
#[kani::unwind(2)]
fn c01_u64_admission() {
    let n: u64 = kani::any();
    let r = CanonicalJsonValue::try_from(JsonValue::Number(Number::from(n)));
    let in_range = n <= MAX as u64;
    match &r {
        Ok(CanonicalJsonValue::Integer(i)) => {
            assert!(in_range, "out-of-range integer admitted");
            assert!(i64::from(*i) as u64 == n, "integer altered");
        }
        Ok(_) => panic!("number became a non-integer"),
        Err(_) => assert!(!in_range, "in-range integer rejected"),
    }
    std::mem::forget(r);
}

/// every finite f64 bit pattern (fractions, exponents, -0.0, integral floats): never admitted
#[kani::proof]
#[kani::unwind(2)]
fn c01_f64_rejected() {
    let bits: u64 = kani::any();
    let f = f64::from_bits(bits);
    if let Some(num) = Number::from_f64(f) {
        let r = CanonicalJsonValue::try_from(JsonValue::Number(num));
        assert!(r.is_err(), "float representation admitted");
        std::mem::forget(r);
    }
}

/// non-number scalars are passed through unchanged
#[kani::proof]
#[kani::unwind(2)]
fn c01_scalars() {
    let b: bool = kani::any();
    let r1 = CanonicalJsonValue::try_from(JsonValue::Bool(b));
    assert!(matches!(&r1, Ok(CanonicalJsonValue::Bool(x)) if *x == b));
    let r2 = CanonicalJsonValue::try_from(JsonValue::Null);
    assert!(matches!(&r2, Ok(CanonicalJsonValue::Null)));
    let r3 = JsonValue::from(CanonicalJsonValue::Bool(b));
    assert!(matches!(&r3, JsonValue::Bool(x) if *x == b));
    let r4 = JsonValue::from(CanonicalJsonValue::Null);
    assert!(matches!(&r4, JsonValue::Null));
    std::mem::forget((r1, r2, r3, r4));
}

/// reachability witness: both outcomes of the admission are reachable (guards against a vacuous harness)
#[kani::proof]
#[kani::unwind(2)]
fn c01_witness() {
    let n: i64 = kani::any();
    let r = CanonicalJsonValue::try_from(JsonValue::Number(Number::from(n)));
    kani::cover!(r.is_ok(), "some integer is admitted");
    kani::cover!(r.is_err(), "some integer is rejected");
    std::mem::forget(r);
}
