"""Formatting: opaque unless formatting is the subject.  `format!` of string-like arguments is modelled as
concatenation (needed by the identifier constructors and URI Display impls)."""
import re, os, sys
import z3
from ..values import *
from . import model_decorator

T = TRUE


def register(E):
    model = model_decorator(E.models)

    def d(st, v):
        return E.deref(st, v)

    def parse_template(tb):
        """format_args! template of this toolchain: n<0x80 = literal of n bytes follows, 0xC0 = next argument with the
        default format spec, 0x00 = end.  Anything else (width/precision/flags) is not modelled."""
        pieces, i = [], 0
        while i < len(tb):
            c = tb[i]
            if c == 0:
                break
            if c < 0x80:
                pieces.append(('lit', tb[i + 1:i + 1 + c])); i += 1 + c
            elif c == 0xC0:
                pieces.append(('arg',)); i += 1
            else:
                raise Inconclusive('format template with explicit format spec: ' + repr(tb))
        return pieces

    @model(r'^(?:std|core)::fmt::Arguments::(new|new_const|new_v1|new_v1_formatted|from_str|from_str_nonconst)$')
    def _(E, st, callee, a, m):
        op = m.group(1)
        if op in ('from_str', 'from_str_nonconst', 'new_const'):
            s0 = d(st, a[0])
            if isinstance(s0, Str):
                return [(T, Obj('FmtArgs', ((('litstr', s0),), ())))]
            if isinstance(s0, Seq) and len(s0.items) == 1:
                return [(T, Obj('FmtArgs', ((('litstr', d(st, s0.items[0])),), ())))]
        if op == 'new' and len(a) == 2:
            tpl = d(st, a[0])
            tb = tpl.conc() if isinstance(tpl, Str) else None
            if tb is not None:
                try:
                    pieces = parse_template(tb)
                except Inconclusive:
                    return [(T, Obj('FmtArgs', (None, ())))]
                args = d(st, a[1])
                items = args.items if isinstance(args, Seq) else ()
                return [(T, Obj('FmtArgs', (tuple(pieces), tuple(d(st, x) for x in items))))]
        return [(T, Obj('FmtArgs', (None, ())))]

    @model(r'^(?:std|core)::fmt::rt::Argument::(new_display|new_debug|new_lower_hex|new_upper_hex)$')
    def _(E, st, callee, a, m):
        return [(T, Obj('FmtArg', (m.group(1), a[0])))]

    def render_value(E, st, kind, vref):
        """[(cond, Str, state)] textual rendering of one Display argument"""
        from .str_models import concat
        v = d(st, vref)
        if kind != 'new_display':
            raise Inconclusive('formatting with ' + kind + ' is not modelled')
        if isinstance(v, Str):
            return [(T, v, st)]
        if isinstance(v, Obj) and v.kind == 'String':
            return [(T, v.data, st)]
        if isinstance(v, Adt) and v.ty.endswith('Cow'):
            return [(T, E.as_str(st, v), st)]
        if isinstance(v, I):
            c = v.conc()
            if c is None:
                sv = z3.simplify(v.v)
                if z3.is_bv_value(sv):
                    c = sv.as_signed_long() if v.s else sv.as_long()
            if c is None and not (v.w == 32 and not v.s):
                # small counters (sums of 0/1 terms): one outcome per value the term can take, decided syntactically
                hi = getattr(E, 'fmt_int_max', 0)
                if hi:
                    return [(v.v == k, E.const_str(str(k).encode()), st) for k in range(hi + 1)] + \
                           [(z3.UGT(v.v, hi), Panic('OUT-OF-MODEL: formatting an integer above the harness bound'), st)]
            if c is None:
                raise Inconclusive('formatting a symbolic integer ' + str(z3.simplify(v.v))[:300])
            txt = chr(c) if v.w == 32 and not v.s else str(c)
            return [(T, E.const_str(txt.encode()), st)]
        if isinstance(v, (Adt, Obj)):
            tn = E.type_name_of(st, v)
            path = '<' + tn + ' as std::fmt::Display>::fmt'
            fm = E.root_ref(st, Obj('StrFormatter', (E.const_str(b''),)))
            arg = vref if isinstance(vref, Ref) else E.root_ref(st, v)
            # &&T arguments: pass a reference to the value itself
            while isinstance(arg, Ref) and isinstance(E.read_ref(st, arg), Ref):
                arg = E.read_ref(st, arg)
            outs = E.call_value(st, FnItem(path), [arg, fm])
            res = []
            for cond, o in outs:
                if o.kind != 'ret':
                    raise Inconclusive('Display impl panics: ' + str(o.value))
                res.append((cond, E.read_ref(o.st, fm).data[0], o.st))
            return res
        raise Inconclusive('formatting of ' + repr(v))

    def render_args(E, st, fa):
        """[(cond, Str, state)] for a FmtArgs object"""
        from .str_models import concat
        pieces, args = fa.data
        if pieces is None:
            raise Inconclusive('formatting output needed but the template is not modelled')
        acc = [(T, [], st)]
        k = 0
        for p in pieces:
            if p[0] == 'lit':
                acc = [(c, parts + [E.const_str(bytes(p[1]))], s0) for c, parts, s0 in acc]
            elif p[0] == 'litstr':
                acc = [(c, parts + [p[1]], s0) for c, parts, s0 in acc]
            else:
                arg = args[k]; k += 1
                nxt = []
                for c, parts, s0 in acc:
                    for c2, sv, s2 in render_value(E, s0, arg.data[0], arg.data[1]):
                        nxt.append((z3.simplify(z3.And(c, c2)), parts + [sv], s2))
                acc = nxt
        return [(c, concat(E, parts), s0) for c, parts, s0 in acc]
    E.render_args = render_args

    def adopt_eff(s_after, extra=None):
        def eff(st2):
            st2.heap = dict(s_after.heap)
            st2.notes = s_after.notes
            for fid, fr in s_after.fmap.items():
                if fid in st2.fmap: st2.fmap[fid].locs = dict(fr.locs)
            if extra: return extra(st2)
        return eff

    @model(r'^(?:std|core)::fmt::Formatter::(write_str|write_fmt|debug_\w+|pad|write_char|pad_integral|alternate)$|^<std::fmt::Formatter as std::fmt::Write>::(write_str|write_fmt|write_char)$|^<std::string::String as std::fmt::Write>::(write_str|write_fmt|write_char)$')
    def _(E, st, callee, a, m):
        op = [g for g in m.groups() if g][0]
        f = d(st, a[0])
        is_sf = isinstance(f, Obj) and f.kind == 'StrFormatter'
        is_string = isinstance(f, Obj) and f.kind == 'String'
        if (is_sf or is_string) and op in ('write_str', 'pad', 'write_char', 'write_fmt'):
            from .str_models import concat
            cur = f.data[0] if is_sf else f.data
            def mk(piece):
                joined = concat(E, [cur, piece])
                return Obj('StrFormatter', (joined,)) if is_sf else Obj('String', joined)
            if op == 'write_fmt':
                res = []
                for c, sv, s_after in render_args(E, st, d(st, a[1])):
                    new = mk(sv)
                    res.append((c, ok(UNIT), adopt_eff(s_after, lambda st2, new=new: E.store(st2, a[0], new))))
                return res
            if op == 'write_char':
                c = d(st, a[1]).conc()
                if c is None: raise Inconclusive('write_char symbolic')
                piece = E.const_str(chr(c).encode())
            else:
                piece = E.as_str(st, a[1])
            new = mk(piece)
            def eff(st2): E.store(st2, a[0], new)
            return [(T, ok(UNIT), eff)]
        if op == 'alternate': return [(T, FALSE)]
        return [(T, ok(UNIT))]

    @model(r'^(?:std|alloc)::fmt::format$|^std::fmt::format::format_inner$')
    def _(E, st, callee, a, m):
        fa = d(st, a[0])
        if isinstance(fa, Obj) and fa.kind == 'FmtArgs' and fa.data[0] is not None:
            try:
                res = []
                for c, sv, s_after in render_args(E, st, fa):
                    res.append((c, Obj('String', sv), adopt_eff(s_after)))
                return res
            except Inconclusive as e:
                if os.environ.get('VERIF_DEBUG'):
                    print('[debug] opaque format:', e, file=sys.stderr)
        st.note(('opaque-format', callee))
        return [(T, Obj('String', Str(E.fresh('fmt_bytes', z3.ArraySort(BV64, BV8)), bv(0), E.fresh_bv('fmt_len'), True, E.N)))]

    @model(r'^<(.+) as std::string::ToString>::to_string$')
    def _(E, st, callee, a, m):
        v = d(st, a[0])
        if isinstance(v, Str): return [(T, Obj('String', v))]
        if isinstance(v, Obj) and v.kind == 'String': return [(T, v)]
        # run the type's Display impl against a string-collecting formatter
        path = '<' + m.group(1) + ' as std::fmt::Display>::fmt'
        cur = st.frames[-1].fn.crate if st.frames else None
        f = E.resolve(path, cur, None, st)
        if f is None:
            return None
        fm = E.root_ref(st, Obj('StrFormatter', (E.const_str(b''),)))
        outs = E.call_value(st, FnItem(path), [a[0], fm])
        res = []
        for cond, o in outs:
            if o.kind != 'ret':
                res.append((cond, Panic(str(o.value)))); continue
            s_after = o.st
            val = Obj('String', E.read_ref(s_after, fm).data[0])
            def eff(st2, s_after=s_after):
                st2.heap = dict(s_after.heap)
                st2.notes = s_after.notes
                for fid, fr in s_after.fmap.items():
                    if fid in st2.fmap: st2.fmap[fid].locs = dict(fr.locs)
            res.append((cond, val, eff))
        return res

    @model(r'^<(&?str|std::string::String) as std::fmt::(Display|Debug)>::fmt$')
    def _(E, st, callee, a, m):
        f = d(st, a[1])
        if isinstance(f, Obj) and f.kind == 'StrFormatter' and m.group(2) == 'Display':
            from .str_models import concat
            new = Obj('StrFormatter', (concat(E, [f.data[0], E.as_str(st, a[0])]),))
            def eff(st2): E.store(st2, a[1], new)
            return [(T, ok(UNIT), eff)]
        return [(T, ok(UNIT))]

    @model(r'^<(.+) as std::fmt::(Display|Debug|LowerHex|UpperHex)>::fmt$')
    def _(E, st, callee, a, m):
        f = d(st, a[1])
        if isinstance(f, Obj) and f.kind == 'StrFormatter':
            raise Inconclusive('Display output of ' + m.group(1) + ' needed but not modelled')
        return [(T, ok(UNIT))]

    @model(r'^<(.+) as std::hash::Hash>::hash$|^std::hash::Hash::hash$')
    def _(E, st, callee, a, m):
        return [(T, UNIT)]

