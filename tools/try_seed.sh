#!/bin/bash
# apply a seeded patch to /repo, run a check, undo. usage: try_seed.sh <patch> <check-id> [tier]
patch="$1"; id="$2"; tier="${3:-quick}"
cd /verif
git -C /repo apply "$patch" || { echo "APPLY FAILED $patch"; exit 9; }
./check "$id" --tier "$tier" 2>&1 | grep -E "VIOLATION|INCONCLUSIVE|KNOWN-FINDING|exit=" | cut -c1-300 | head -8
git -C /repo checkout -- .
