#!/usr/bin/env python3-vt
"""C07 (ordering kernel) and C06 (its independence of hash iteration order) - lexicographical_topological_sort.

The exposed topological sort is executed from the MIR of ruma-state-res on every DAG over up to K nodes (every edge set
consistent with some topological labelling, every assignment of the identifiers to the nodes), with symbolic power level
and timestamp per node, and - the HashMap / HashSet iteration orders being unspecified - with *every* iteration order of
every hash container it walks (one symbolic order index per iteration).  z3 decides, per path, that the emitted sequence
  * contains every node exactly once, dependencies first,
  * and at every step emits, among the nodes whose dependencies are all emitted, the one with the greatest power level,
    then the earliest timestamp, then the smallest event id.
Because the answer is a function of the graph and the keys only, it does not depend on the iteration orders (C06, for this
kernel).  BinaryHeap is a library model (pop = maximum by the element's Ord, which is the crate's TieBreaker::cmp).
Outside the claim: resolve() as a whole (conflict separation, auth-chain difference, iterative auth checks, mainline ordering)."""
import os, sys, re, itertools
sys.path.insert(0, os.path.dirname(os.path.abspath(__file__)))
from common import *
from authsym import mk_int, INT_MAX

KEYS = ['idval', 'common', 'stateres']
PID = os.environ.get('VERIF_PID', 'C07')
os.environ.setdefault('VERIF_MAIN_MODULE', 'c07')


def dags(n):
    """edge sets over nodes 0..n-1 with edges i -> j (i depends on j) only for j < i: every DAG up to relabelling"""
    pairs = [(i, j) for i in range(n) for j in range(i)]
    for r in range(len(pairs) + 1):
        for es in itertools.combinations(pairs, r):
            yield es


def run_sort(C, job):
    n, shapes = job
    E = C.fresh_engine(KEYS, N=8)
    E.feas_mode = 'budget'; E.feas_timeout_ms = 500
    E.hash_any_order = True
    E.loop_bound = 64
    ident = lambda E_, st, c, a, m: [(TRUE, a[0])]
    E.overrides.insert(0, (re.compile(r'^<Id as std::borrow::Borrow>::borrow$'), ident))
    E.overrides.insert(0, (re.compile(r'^<Id as std::clone::Clone>::clone$'), lambda E_, st, c, a, m: [(TRUE, E_.deref(st, a[0]))]))

    def id_cmp(E_, st, c, a, m):
        x, y = E_.as_str(st, a[0]).conc(), E_.as_str(st, a[1]).conc()
        return [(TRUE, Adt('std::cmp::Ordering', 'Less' if x < y else ('Greater' if x > y else 'Equal'), []))]
    E.overrides.insert(0, (re.compile(r'^<&?Id as std::cmp::Ord>::cmp$'), id_cmp))
    def fn_call(E_, st, callee, a, m):
        tgt = E_.deref(st, a[0])
        if isinstance(tgt, Obj) and tgt.kind == 'PyFn':
            args = a[1].fields if isinstance(a[1], Tup) else [a[1]]
            return tgt.data(E_, st, list(args))
        return None
    E.overrides.insert(0, (re.compile(r'^<.+ as (?:std|core)::ops::(?:Fn|FnMut|FnOnce)>::call(?:_mut|_once)?$'), fn_call))
    f = E.find_func('lexicographical_topological_sort')
    names = [b'$a', b'$b', b'$c', b'$d'][:n]
    pl = [z3.BitVec(f'pl{i}', 64) for i in range(n)]
    ts = [z3.BitVec(f'ts{i}', 64) for i in range(n)]
    cons = []
    for i in range(n):
        cons += [pl[i] >= -INT_MAX, pl[i] <= INT_MAX, z3.ULE(ts[i], INT_MAX)]
    npaths = nq = 0
    for edges, perm in shapes:
        ids = [E.const_str(names[perm[i]]) for i in range(n)]      # node i carries identifier names[perm[i]]
        label = f'n={n} edges={list(edges)} ids={[names[perm[i]].decode() for i in range(n)]}'

        def key_fn(E_, st, args, ids=ids):
            s = E_.as_str(st, args[0]).conc()
            i = [k for k in range(n) if ids[k].conc() == s][0]
            st.note(('key', i))
            return [(TRUE, ok(Tup([mk_int(pl[i]), Adt('ruma_common::time::MilliSecondsSinceUnixEpoch', None, [Adt('js_int::UInt', None, [I(ts[i], 64)])])])))]
        graph = E.mk_map('HashMap', [(ids[i], Obj('HSet', tuple(ids[j] for (a, j) in edges if a == i))) for i in range(n)])
        st = E.new_state()
        del E.axioms[:]
        outs = E.run_func(f, [E.root_ref(st, graph), Obj('PyFn', key_fn)], cons, st=st)
        C.absorb(E)
        npaths += len(outs)
        deps = {i: {j for (a, j) in edges if a == i} for i in range(n)}

        def less(x, y):     # x is emitted before y among ready nodes
            nx, ny = names[perm[x]], names[perm[y]]
            return z3.Or(pl[x] > pl[y], z3.And(pl[x] == pl[y], z3.Or(z3.ULT(ts[x], ts[y]), z3.And(ts[x] == ts[y], z3.BoolVal(nx < ny)))))
        bad = []
        for o in outs:
            if o.kind != 'ret' or o.value.variant != 'Ok':
                bad.append(o.cond()); continue
            seq = [E.as_str(o.st, x).conc() for x in E.deref(o.st, o.value.fields[0]).data]
            idx = [[k for k in range(n) if names[perm[k]] == s_][0] for s_ in seq]
            if sorted(idx) != list(range(n)):
                bad.append(o.cond()); continue
            okc, done, structural = [], set(), True
            for k, x in enumerate(idx):
                if not deps[x] <= done:
                    structural = False; break
                ready = [y for y in range(n) if y not in done and y != x and deps[y] <= done]
                okc += [less(x, y) for y in ready]
                done.add(x)
            bad.append(o.cond() if not structural else z3.And(o.cond(), z3.Not(z3.And(*okc)) if okc else z3.BoolVal(False)))
        r, m = C.solve_split(f'topological sort, {label}: every node once, dependencies first, ready node with greatest power level / earliest ts / smallest id; all hash iteration orders',
                             cons + list(E.axioms), bad, chunk=32)
        nq += 1
        if r == 'sat':
            ev = lambda t: m.eval(t, model_completion=True).as_long()
            sg = lambda x: x - (1 << 64) if x >= (1 << 63) else x
            vec = {'op': 'c07:toposort', 'nodes': [{'id': names[perm[i]].decode() + ':x', 'pl': sg(ev(pl[i])), 'ts': ev(ts[i]), 'deps': [names[perm[j]].decode() + ':x' for j in deps[i]]} for i in range(n)]}
            res = C.native(vec); vec['native'] = res
            want = expected_order(vec['nodes'])
            vec['spec'] = want
            if res.get('r') == 'ok' and res.get('order') != want:
                C.report_violation(f'lexicographical_topological_sort emits {res.get("order")}, the specified order is {want}: {vec["nodes"]}', vec)
                C.samples.append({'counterexample': vec})
                return
            raise Broken(f'{label}: model does not reproduce natively: {vec}')
    C.bounds[f'toposort:n={n}:{shapes[0][0]}..'] = {'shapes': len(shapes), 'paths': npaths}
    # model validation: one concrete instance through the native build (run repeatedly there: fresh hasher seeds)
    edges, perm = shapes[-1]
    nodes = [{'id': names[perm[i]].decode() + ':x', 'pl': (i * 7) % 3, 'ts': (i * 5) % 2, 'deps': [names[perm[j]].decode() + ':x' for (a, j) in edges if a == i]} for i in range(n)]
    res = C.native({'op': 'c07:toposort', 'nodes': nodes, 'repeat': 16})
    C.model_validation += 1
    if res.get('r') != 'ok' or res.get('order') != expected_order(nodes) or not res.get('stable', True):
        raise Broken(f'toposort validation instance disagrees natively: {res} vs {expected_order(nodes)}')
    C.samples.append({'toposort': f'n={n}', 'shapes': len(shapes), 'example_order': res.get('order')})


def expected_order(nodes):
    done, out = set(), []
    byid = {x['id']: x for x in nodes}
    while len(out) < len(nodes):
        ready = [x for x in nodes if x['id'] not in done and set(x['deps']) <= done]
        x = min(ready, key=lambda x: (-x['pl'], x['ts'], x['id']))
        out.append(x['id']); done.add(x['id'])
    return out


def body(C):
    C.engine(KEYS, N=8)
    C.build_replayer(['stateres'])
    K = 4 if C.tier == 'thorough' else 3
    jobs = []
    for n in range(1, K + 1):
        shapes = [(es, perm) for es in dags(n) for perm in itertools.permutations(range(n))]
        if n == K and C.tier == 'quick':
            pass
        per = max(1, len(shapes) // 12)
        for i in range(0, len(shapes), per):
            jobs.append((run_sort, (n, shapes[i:i + per])))
    C.assumptions += [
        f'every DAG over at most {K} nodes (edges only towards lower-numbered nodes, every assignment of the identifiers $a..$d to the nodes), power level and timestamp per node symbolic (JSON integer range)',
        'HashMap / HashSet iteration: every order of every container walked is explored (symbolic order index); BinaryHeap is a library model (pop = maximum by the crate\'s Ord impl); tracing disabled',
        'outside the claim: resolve() as a whole - conflict separation, auth-chain difference, reverse_topological_power_sort\'s graph construction and sender power levels, iterative_auth_check, mainline_sort; room histories; threads',
    ]
    parallel_map(C, jobs, None)


if __name__ == '__main__':
    run_check(PID, body)
