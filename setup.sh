#!/bin/bash
# offline setup: nothing to fetch; warm the MIR/rustdoc/replayer build caches so that the first check is faster.
set -u
cd "$(dirname "$0")"
export CARGO_NET_OFFLINE=true
mkdir -p .cache/mir evidence
python3-vt -c "import z3; print('z3', z3.get_version_string())" || exit 1
tools/mirdump.sh ruma-identifiers-validation .cache/mir/idval.mir "" || exit 1
exit 0
