#!/usr/bin/env python3-vt
"""C06 - determinism / independence of hash iteration order, for the order-sensitive kernels that are within reach.

Runs the harnesses of checks/c07.py under *every* iteration order of every HashMap / HashSet walked (one symbolic order index per
iteration): lexicographical_topological_sort (every DAG up to the bound, symbolic power levels and timestamps: the emitted order
is a function of the graph and the keys), separate (the unconflicted / conflicted split of 1-3 state sets, compared as maps) and
get_auth_chain_diff (1-3 chains, compared as a set) - hence the same result for every hasher seed, thread and call - and
get_power_level_for_sender, which reverse_topological_power_sort calls per graph node in HashMap order with a shared creator cache:
the level of an event is the same whether the cache is empty or was filled by an event visited before (symbolic world of C08).  The native
replays call the real functions 16 times per instance (fresh RandomState seeds per map).  resolve() as a whole and argument permutations of state sets / auth chains are
outside the claim (see DESIGN.md)."""
import os, sys
sys.path.insert(0, os.path.dirname(os.path.abspath(__file__)))
os.environ['VERIF_PID'] = 'C06'
os.environ.setdefault('VERIF_MAIN_MODULE', 'c07')
from common import run_check
import c07

if __name__ == '__main__':
    run_check('C06', c07.body)
