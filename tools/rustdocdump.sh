#!/bin/bash
# Regenerate the rustdoc-JSON item index (enum variant order, struct field order, impl spans) of a ruma crate
# from /repo's current working tree.  usage: rustdocdump.sh <crate> <out.json> [features]
set -euo pipefail
crate="$1"; out="$(realpath -m "$2")"; feats="${3:-}"
repo="${VERIF_REPO:-/repo}"
tgt="${VERIF_CACHE:-/verif/.cache}/mir-target"
mkdir -p "$tgt" "$(dirname "$out")"
export CARGO_NET_OFFLINE=true CARGO_TARGET_DIR="$tgt" RUSTFLAGS="--cfg ruma_verif ${VERIF_EXTRA_RUSTFLAGS:-}" RUSTDOCFLAGS="--cfg ruma_verif ${VERIF_EXTRA_RUSTFLAGS:-}"
cd "$repo/crates/$crate"
fa=()
[ -n "$feats" ] && fa=(--features "$feats")
cname="${crate//-/_}"
rm -f "$tgt/doc/$cname.json"
cargo +nightly rustdoc --offline --lib "${fa[@]}" -- -Zunstable-options --output-format json --document-private-items --document-hidden-items > "$out.log" 2>&1 || { cat "$out.log" >&2; exit 3; }
cp "$tgt/doc/$cname.json" "$out"
