#!/usr/bin/env python3-vt
"""C01 - canonical JSON: the ruma-owned kernel (number admission and value preservation) decided by Kani/CBMC
over the compiled code for every 64-bit integer and every f64 bit pattern."""
import os, sys
sys.path.insert(0, os.path.dirname(os.path.abspath(__file__)))
from common import *
from kani_run import kani_check

HARNESSES = [
    ('c01_i64_admission', 'CanonicalJsonValue::try_from(JsonValue::Number(i64)) and back: admitted iff |n| <= 2^53-1, value preserved', 'all 2^64 i64 values'),
    ('c01_u64_admission', 'CanonicalJsonValue::try_from(JsonValue::Number(u64)): admitted iff n <= 2^53-1', 'all 2^64 u64 values'),
    ('c01_f64_rejected', 'float-represented numbers (fractions, exponents, -0.0, integral floats) are never admitted', 'all 2^64 f64 bit patterns'),
    ('c01_scalars', 'bool / null pass through unchanged in both directions', 'all values'),
    ('c01_witness', 'reachability witness: both admission outcomes reachable', 'all i64'),
]


def body(C):
    C.assumptions += [
        'decided over the compiled code of ruma-common + serde_json + js_int by Kani 0.68 / CBMC (no library models)',
        'outside the claim: the bytes produced by serde_json\'s compact formatter (escaping, no whitespace), serde_json\'s parser '
        '(duplicate keys, escape spellings), String: Ord = code-point order, and recursive containers (arrays/objects)',
        'drop glue of the recursive value types is skipped with mem::forget in the harnesses',
    ]
    kani_check(C, HARNESSES, timeout_s=900)


if __name__ == '__main__':
    run_check('C01', body)
