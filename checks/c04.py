#!/usr/bin/env python3-vt
"""C04 - redaction keeps exactly the spec's keys per room version and is idempotent.

Symbolic execution (MIR of ruma-common, regenerated from /repo) of is_event_key_retained,
retained_event_content_keys + every per-type predicate/closure, RoomVersionId::rules and the rule constants, and of
redact / redact_in_place / redact_content_in_place on symbolic objects; z3 compares with the spec tables in
spec/redaction.py for every key string and event-type string up to N bytes and all 11 room versions."""
import os, sys, re
sys.path.insert(0, os.path.dirname(os.path.abspath(__file__)))
from common import *
from spec import redaction as R
from mirsym.models.str_models import str_eq

CJV = 'canonical_json::value::CanonicalJsonValue'


def b2s(b):
    return b.decode('utf-8', errors='surrogateescape')


def native_kept(C, vec):
    """evaluate a probe natively through the public redact API; returns kept? (bool) or 'err'/'panic'"""
    v = vec['version']
    if vec['probe'] == 'top':
        key = b2s(bytes.fromhex(vec['key_hex']))
        ev = {'type': 'm.test.event', 'content': {}}
        if key not in ev:
            ev[key] = 'probe'
        res = C.native({'op': 'c04:redact', 'version': v, 'event': ev})
        vec['native'] = res
        if res.get('r') != 'ok':
            return res.get('r')
        if res['v'] != res['inplace']:
            return 'disagree'
        return key in res['v']
    if vec['probe'] == 'content':
        ty = b2s(bytes.fromhex(vec['type_hex'])); key = b2s(bytes.fromhex(vec['key_hex']))
        ev = {'type': ty, 'content': {key: 'probe'}}
        res = C.native({'op': 'c04:redact', 'version': v, 'event': ev})
        res2 = C.native({'op': 'c04:content', 'version': v, 'type': ty, 'content': {key: 'probe'}})
        vec['native'] = res; vec['native_content_only'] = res2
        if res.get('r') != 'ok' or res2.get('r') != 'ok':
            return res.get('r') if res.get('r') != 'ok' else res2.get('r')
        if res['v'] != res['inplace'] or res['v'].get('content') != res2['v']:
            return 'disagree'
        return key in res['v'].get('content', {})
    raise ValueError(vec['probe'])


def in_list(E, s, names):
    return z3.Or(*[str_eq(E, s, E.const_str(n.encode())) for n in names]) if names else z3.BoolVal(False)


def rules_for_version(C, E, v):
    """RoomVersionId::V<v>.rules().unwrap().redaction, executed from the MIR"""
    rid = Adt('identifiers::room_version_id::RoomVersionId', f'V{v}', [])
    st = E.new_state()
    ref = E.root_ref(st, rid)
    f = E.find_method('RoomVersionId', 'rules')
    outs = E.run_func(f, [ref], st=st)
    if len(outs) != 1 or outs[0].kind != 'ret' or outs[0].value.variant != 'Some':
        raise Broken(f'RoomVersionId::V{v}.rules() did not return Some on a single path: {outs}')
    rvr = outs[0].value.fields[0]
    names = E.src.structs['room_version_rules::RoomVersionRules']
    red = rvr.fields[names.index('redaction')]
    fnames = E.src.structs['room_version_rules::RedactionRules']
    vals = {}
    for n, x in zip(fnames, red.fields):
        if not (z3.is_true(x) or z3.is_false(x)):
            raise Broken(f'rule field {n} of V{v} is not a constant')
        vals[n] = z3.is_true(x)
    return red, vals


def keep_formula(outs):
    """disjunction over paths returning true; also returns panic/err disjunctions"""
    keep, bad = [], []
    for o in outs:
        if o.kind != 'ret':
            bad.append(o); continue
        keep.append(z3.And(o.cond(), o.value))
    return (z3.Or(*keep) if keep else z3.BoolVal(False)), bad


def content_keep(C, E, st, rules_ref, ty, key, value_ref):
    """symbolic run of retained_event_content_keys(ty, rules) then the returned predicate on (key, value).
    returns [(cond, kind, value)] with kind in keep-bool / err / panic"""
    res = []
    outs = E.run('canonical_json::retained_event_content_keys', [ty, rules_ref], st=st)
    for o in outs:
        if o.kind != 'ret':
            res.append((o.cond(), 'panic', o.value, o.st)); continue
        rk = o.value
        if rk.variant == 'All':
            res.append((o.cond(), 'keep', TRUE, o.st))
        elif rk.variant == 'None':
            res.append((o.cond(), 'keep', FALSE, o.st))
        else:
            clo = E.deref(o.st, rk.fields[0])
            for c2, o2 in E.call_value(o.st, clo, [rules_ref, key, value_ref]):
                cond = z3.And(o.cond(), c2)
                if o2.kind != 'ret':
                    res.append((cond, 'panic', o2.value, o2.st))
                elif o2.value.variant == 'Ok':
                    res.append((cond, 'keep', o2.value.fields[0], o2.st))
                else:
                    res.append((cond, 'err', o2.value, o2.st))
    return res


def body(C):
    N = int(os.environ.get('VERIF_N', '40' if C.tier == 'quick' else '96'))
    E = C.engine(['common'], N=N)
    E.feas_mode = 'never'
    C.build_replayer(['common'])
    C.assumptions += [
        f'key and event-type strings: every UTF-8 string of at most {N} bytes (all specified keys are shorter); longer strings are outside the run',
        'rules: the constants reached through RoomVersionId::V1..V11.rules() (evaluated from the MIR) and, for the rule-parametric comparison, all 2^8 assignments of the RedactionRules booleans',
        'values are abstract (opaque) except the nested third_party_invite object, modelled as an association list of <= 3 entries',
        'BTreeMap is modelled as an association list with pairwise distinct keys (library model); serde_json / BTreeMap internals are not re-verified',
    ]
    key, kcons = E.sym_str('key', N)
    ty, tcons = E.sym_str('ty', N)
    fnames = E.src.structs['room_version_rules::RedactionRules']
    if sorted(fnames) != sorted(R.RULE_FIELDS):
        raise Broken(f'RedactionRules fields changed: {fnames}; the oracle in spec/redaction.py must be reviewed')

    # ---- per-version rule constants vs the meaning of each field (spec tables)
    per_version = {}
    for v in R.VERSIONS:
        red, vals = rules_for_version(C, E, v)
        per_version[v] = (red, vals)

    def decide(qname, formulas, vector_fn, what):
        r, m = C.solve(qname, formulas)
        if r == 'sat':
            vec = vector_fn(m)
            got = native_kept(C, vec)
            if got != vec.get('spec_expect'):
                C.report_violation(f'{what}: native kept={got}, spec says {vec.get("spec_expect")}: {vec}', vec)
                C.samples.append({'query': qname, 'counterexample': vec})
            else:
                raise Broken(f'{qname}: solver model does not reproduce natively: {vec}')
        return r

    for v in R.VERSIONS:
        red, vals = per_version[v]
        st = E.new_state()
        rref = E.root_ref(st, red)
        # -- top level
        outs = E.run('canonical_json::is_event_key_retained', [rref, key], kcons, st=st)
        keep, bad = keep_formula(outs)
        if bad:
            r, m = C.solve(f'v{v}: top-level predicate cannot panic', kcons + [z3.Or(*[o.cond() for o in bad])])
            if r == 'sat':
                vec = {'probe': 'top', 'version': str(v), 'key_hex': model_bytes(m, key).hex()}
                if native_kept(C, vec) in ('panic', 'abort'):
                    C.report_violation(f'is_event_key_retained panics in v{v} on key {model_bytes(m, key)!r}', vec)
                else:
                    raise Broken(f'top-level panic model does not reproduce: {vec}')
        spec = in_list(E, key, R.top_level_keys(v))
        decide(f'v{v}: top-level kept(key) == spec table for every key', kcons + [keep != spec],
               lambda m, v=v, spec=spec: {'probe': 'top', 'version': str(v), 'key_hex': model_bytes(m, key).hex(), 'key': repr(model_bytes(m, key)),
                          'spec_expect': z3.is_true(m.eval(spec, model_completion=True))},
               f'room version {v}: top-level key retention differs from the spec')
        r, m = C.solve(f'v{v}: witness some key kept', kcons + [keep])
        if r != 'sat': raise Broken('no top-level key is kept: vacuous')
        C.samples.append({'query': f'v{v} top-level witness kept', 'key': repr(model_bytes(m, key))})
        # -- content level: symbolic event type and key, opaque value (String) => third_party_invite handled below
        val = E.root_ref(st, Adt(CJV, 'String', [Obj('String', E.const_str(b'opaque'))]))
        res = content_keep(C, E, st, rref, ty, key, val)
        C.absorb(E)
        keepc = z3.Or(*[z3.And(c, kv) for c, k, kv, _ in res if k == 'keep']) if res else z3.BoolVal(False)
        errc = z3.Or(*([c for c, k, kv, _ in res if k == 'err'] or [z3.BoolVal(False)]))
        panicc = z3.Or(*([c for c, k, kv, _ in res if k == 'panic'] or [z3.BoolVal(False)]))
        specc = z3.BoolVal(False)
        for t in R.SPECIAL_TYPES:
            ks = R.content_keys(v, t)
            tmatch = str_eq(E, ty, E.const_str(t.encode()))
            specc = z3.Or(specc, z3.And(tmatch, z3.BoolVal(True) if ks == '*' else in_list(E, key, ks)))
        # third_party_invite of m.room.member in v11 is value-dependent: excluded here, decided separately
        tpi = z3.And(str_eq(E, ty, E.const_str(b'm.room.member')), str_eq(E, key, E.const_str(b'third_party_invite')))
        base = kcons + tcons + [z3.Not(tpi)] if v >= 11 else kcons + tcons
        r, m = C.solve(f'v{v}: content predicates cannot panic or fail on opaque values', base + [z3.Or(panicc, errc)])
        if r == 'sat':
            vec = {'probe': 'content', 'version': str(v), 'type_hex': model_bytes(m, ty).hex(), 'key_hex': model_bytes(m, key).hex()}
            if native_kept(C, vec) in ('panic', 'err', 'abort'):
                C.report_violation(f'room version {v}: content redaction fails/panics: {vec}', vec)
            else:
                raise Broken(f'v{v}: content panic model does not reproduce: {vec}')
        decide(f'v{v}: content kept(type,key) == spec table for every type and key', base + [keepc != specc],
               lambda m, v=v, specc=specc: {'probe': 'content', 'version': str(v), 'type_hex': model_bytes(m, ty).hex(), 'key_hex': model_bytes(m, key).hex(),
                          'type': repr(model_bytes(m, ty)), 'key': repr(model_bytes(m, key)),
                          'spec_expect': z3.is_true(m.eval(specc, model_completion=True))},
               f'room version {v}: content key retention differs from the spec')
        # -- nested third_party_invite (m.room.member)
        nested_third_party_invite(C, E, v, red)

    # ---- model validation: interpreter (concrete inputs) vs the native build through the public redact API
    vecs = []
    allkeys = sorted(set(R.TOP_LEVEL_ALL + R.TOP_LEVEL_BEFORE_V11 + sum([R.content_keys(1, t) + (R.content_keys(11, t) if R.content_keys(11, t) != '*' else []) for t in R.SPECIAL_TYPES if R.content_keys(1, t) != '*'], [])
                         + ['invite', 'redacts', 'allow', 'join_authorised_via_users_server', 'unsigned', 'x', '', 'Type', 'content ', 'm.room.member']))
    for v in ([1, 6, 9, 11] if C.tier == 'quick' else R.VERSIONS):
        red, _ = per_version[v]
        for kk in allkeys:
            st = E.new_state(); rref = E.root_ref(st, red)
            outs = E.run('canonical_json::is_event_key_retained', [rref, E.const_str(kk.encode())], st=st)
            got = len(outs) == 1 and outs[0].kind == 'ret' and z3.is_true(outs[0].value)
            nat = native_kept(C, {'probe': 'top', 'version': str(v), 'key_hex': kk.encode().hex()})
            C.model_validation += 1
            if kk not in ('type', 'content') and nat != got:
                raise Broken(f'model validation: top-level key {kk!r} in v{v}: interpreter kept={got}, native kept={nat}')
        for t in R.SPECIAL_TYPES + ['m.room.message']:
            for kk in C.rng.sample(allkeys, 6) + (R.content_keys(v, t) if R.content_keys(v, t) != '*' else ['anything']):
                if t == 'm.room.member' and kk == 'third_party_invite':
                    continue
                st = E.new_state(); rref = E.root_ref(st, red)
                val = E.root_ref(st, Adt(CJV, 'String', [Obj('String', E.const_str(b'probe'))]))
                res = content_keep(C, E, st, rref, E.const_str(t.encode()), E.const_str(kk.encode()), val)
                got = len(res) == 1 and res[0][1] == 'keep' and z3.is_true(z3.simplify(res[0][2]))
                nat = native_kept(C, {'probe': 'content', 'version': str(v), 'type_hex': t.encode().hex(), 'key_hex': kk.encode().hex()})
                C.model_validation += 1
                if nat != got:
                    raise Broken(f'model validation: content key {kk!r} of {t} in v{v}: interpreter kept={got}, native kept={nat}')
    C.absorb(E)

    # ---- rule-parametric: every assignment of the 8 booleans, predicates agree with the documented meaning of each field
    bools = {n: z3.Bool('rule_' + n) for n in fnames}
    red = Adt('room_version_rules::RedactionRules', None, [bools[n] for n in fnames])
    st = E.new_state()
    rref = E.root_ref(st, red)
    outs = E.run('canonical_json::is_event_key_retained', [rref, key], kcons, st=st)
    keep, bad = keep_formula(outs)
    spec = z3.Or(in_list(E, key, R.TOP_LEVEL_ALL), z3.And(bools['keep_origin_membership_prev_state'], in_list(E, key, R.TOP_LEVEL_BEFORE_V11)))
    r, m = C.solve('all rule assignments: top-level predicate == rule-parametric spec', kcons + [keep != spec])
    if r == 'sat':
        # concretise to a version if one has these rule values, else report the assignment
        asg = {n: z3.is_true(m.eval(bools[n], model_completion=True)) for n in fnames}
        C.report_violation(f'top-level retention disagrees with the documented meaning of the rule fields for assignment {asg} on key {model_bytes(m, key)!r} '
                           '(RedactionRules is a public struct: reachable through the public redact API with custom rules)',
                           {'op': 'c04:top-rules', 'rules': asg, 'key_hex': model_bytes(m, key).hex()})
    val = E.root_ref(st, Adt(CJV, 'String', [Obj('String', E.const_str(b'opaque'))]))
    res = content_keep(C, E, st, rref, ty, key, val)
    keepc = z3.Or(*[z3.And(c, kv) for c, k, kv, _ in res if k == 'keep'])
    T = lambda t: str_eq(E, ty, E.const_str(t.encode()))
    K = lambda names: in_list(E, key, names)
    specc = z3.Or(
        z3.And(T('m.room.member'), z3.Or(K(['membership']), z3.And(bools['keep_room_member_join_authorised_via_users_server'], K(['join_authorised_via_users_server'])))),
        z3.And(T('m.room.create'), z3.Or(bools['keep_room_create_content'], K(['creator']))),
        z3.And(T('m.room.join_rules'), z3.Or(K(['join_rule']), z3.And(bools['keep_room_join_rules_allow'], K(['allow'])))),
        z3.And(T('m.room.power_levels'), z3.Or(K(R.content_keys(1, 'm.room.power_levels')), z3.And(bools['keep_room_power_levels_invite'], K(['invite'])))),
        z3.And(T('m.room.aliases'), bools['keep_room_aliases_aliases'], K(['aliases'])),
        z3.And(T('m.room.history_visibility'), K(['history_visibility'])),
        z3.And(T('m.room.redaction'), bools['keep_room_redaction_redacts'], K(['redacts'])))
    tpi = z3.And(T('m.room.member'), K(['third_party_invite']), bools['keep_room_member_third_party_invite_signed'])
    r, m = C.solve('all rule assignments: content predicates == rule-parametric spec', kcons + tcons + [z3.Not(tpi), keepc != specc])
    if r == 'sat':
        asg = {n: z3.is_true(m.eval(bools[n], model_completion=True)) for n in fnames}
        C.report_violation(f'content retention disagrees with the rule fields for assignment {asg}: type {model_bytes(m, ty)!r} key {model_bytes(m, key)!r}',
                           {'op': 'c04:content-rules', 'rules': asg, 'type_hex': model_bytes(m, ty).hex(), 'key_hex': model_bytes(m, key).hex()})
    C.absorb(E)
    # per-version constants vs field meanings
    for v in R.VERSIONS:
        _, vals = per_version[v]
        for n, f in R.RULE_FIELDS.items():
            C.queries.append({'name': f'v{v}: rule constant {n} = {f(v)} (evaluated from MIR)', 'result': 'unsat' if vals[n] == f(v) else 'sat', 's': 0})
            if vals[n] != f(v):
                vec = {'op': 'c04:rules', 'version': str(v), 'field': n, 'spec_expect': f(v)}
                res_n = C.native({'op': 'c04:rules', 'version': str(v)}); vec['native'] = res_n
                if res_n.get('r') == 'ok' and res_n['v'].get(n) == vals[n]:
                    C.report_violation(f'room version {v}: RedactionRules.{n} is {vals[n]}, the spec requires {f(v)}', vec)
                else:
                    raise Broken(f'rule constant mismatch does not reproduce natively: {vec}')
    C.samples.append({'rule_constants_from_mir': {str(v): per_version[v][1] for v in R.VERSIONS}})
    apply_level(C, E, per_version)


def nested_third_party_invite(C, E, v, red):
    """m.room.member / third_party_invite: in v11 the field is kept and reduced to its `signed` key (value untouched);
    a non-object value is an error; before v11 the field is dropped."""
    k1, c1 = E.sym_str(f'tpk1_{v}', 12)
    k2, c2 = E.sym_str(f'tpk2_{v}', 12)
    v1 = Adt(CJV, 'String', [Obj('String', E.const_str(b'value-1'))])
    v2 = Adt(CJV, 'String', [Obj('String', E.const_str(b'value-2'))])
    signed = E.const_str(b'signed')
    distinct = z3.Not(str_eq(E, k1, k2))
    st = E.new_state()
    rref = E.root_ref(st, red)
    obj = Adt(CJV, 'Object', [E.mk_map('BTreeMap', ((k1, v1), (k2, v2)))])
    val = E.root_ref(st, obj)
    res = content_keep(C, E, st, rref, E.const_str(b'm.room.member'), E.const_str(b'third_party_invite'), val)
    base = c1 + c2 + [distinct]
    bad = []
    for cond, kind, kv, s_after in res:
        if kind != 'keep':
            bad.append(cond); continue
        after = E.read_ref(s_after, val)
        ents = after.fields[0].data[1]
        has_signed = z3.Or(str_eq(E, k1, signed), str_eq(E, k2, signed))
        if v < 11:
            bad.append(z3.And(cond, kv))       # must not be kept before v11
            continue
        # kept iff a signed entry exists; remaining entries are exactly the signed one with its original value
        okc = kv == has_signed
        if len(ents) > 1:
            # nothing was removed from the nested object: only acceptable when the field itself is dropped
            okc = z3.And(z3.Not(kv), z3.Not(has_signed))
        elif len(ents) == 1:
            ek, ev = ents[0]
            same_val = z3.Or(z3.And(str_eq(E, k1, signed), z3.BoolVal(ev is v1)), z3.And(str_eq(E, k2, signed), z3.BoolVal(ev is v2)))
            okc = z3.And(okc, str_eq(E, E.as_str(s_after, ek), signed), same_val)
        else:
            okc = z3.And(okc, z3.Not(has_signed))
        bad.append(z3.And(cond, z3.Not(okc)))
    r, m = C.solve(f'v{v}: third_party_invite reduced to its signed key (or dropped before v11)', base + [z3.Or(*bad)])
    if r == 'sat':
        kk1, kk2 = b2s(model_bytes(m, k1)), b2s(model_bytes(m, k2))
        tp = {kk1: 'value-1', kk2: 'value-2'}
        vec = {'op': 'c04:redact', 'version': str(v), 'event': {'type': 'm.room.member', 'content': {'third_party_invite': tp}}}
        res_n = C.native(vec); vec['native'] = res_n
        if v < 11:
            want = {}
        else:
            want = {'third_party_invite': {'signed': tp['signed']}} if 'signed' in tp else {}
        if res_n.get('r') == 'ok' and res_n['v'].get('content') != want:
            C.report_violation(f'room version {v}: third_party_invite handling differs from the spec (want content {want}): {vec}', vec)
        else:
            raise Broken(f'v{v}: third_party_invite model does not reproduce natively: {vec}')
    # non-object value: an error in v11, dropped silently before
    st = E.new_state(); rref = E.root_ref(st, red)
    val = E.root_ref(st, Adt(CJV, 'String', [Obj('String', E.const_str(b'x'))]))
    res = content_keep(C, E, st, rref, E.const_str(b'm.room.member'), E.const_str(b'third_party_invite'), val)
    kinds = sorted(set(k for c, k, kv, _ in res))
    want = ['err'] if v >= 11 else ['keep']
    C.queries.append({'name': f'v{v}: non-object third_party_invite -> {want}', 'result': 'unsat' if kinds == want else 'sat', 's': 0})
    if kinds != want or (v < 11 and not all(z3.is_false(kv) for c, k, kv, _ in res)):
        vec = {'op': 'c04:redact', 'version': str(v), 'event': {'type': 'm.room.member', 'content': {'third_party_invite': 'x'}}}
        res_n = C.native(vec); vec['native'] = res_n
        natk = 'err' if res_n.get('r') == 'err' else ('keep' if res_n.get('r') == 'ok' else res_n.get('r'))
        if [natk] != want or (natk == 'keep' and res_n['v'].get('content') != {}):
            C.report_violation(f'room version {v}: non-object third_party_invite gives {kinds}, expected {want}', vec)
        else:
            raise Broken(f'v{v}: non-object third_party_invite mismatch does not reproduce natively: {vec}')


def apply_level(C, E, per_version):
    """redact_in_place / redact / redact_content_in_place on a symbolic event object: entries are only ever removed
    (values untouched), what is kept is decided by the predicates above, the three entry points agree."""
    E.feas_mode = 'budget'
    for v in ([1, 11] if C.tier == 'quick' else R.VERSIONS):
        red, _ = per_version[v]
        # event: {"type": T, "content": {ck: cv, "membership": m}, xk: xv, "origin": o}
        xk, c1 = E.sym_str(f'xk{v}', 16)
        ck, c2 = E.sym_str(f'ck{v}', 24)
        for tname in [b'm.room.member', b'm.room.create', b'm.room.message', b'm.room.aliases']:
            mkv = lambda s: Adt(CJV, 'String', [Obj('String', E.const_str(s))])
            cv, xv, ov, mv = mkv(b'cv'), mkv(b'xv'), mkv(b'ov'), mkv(b'mv')
            content = E.mk_map('BTreeMap', ((ck, cv), (E.const_str(b'membership'), mv)))
            tv = Adt(CJV, 'String', [Obj('String', E.const_str(tname))])
            ev = E.mk_map('BTreeMap', ((E.const_str(b'content'), Adt(CJV, 'Object', [content])), (E.const_str(b'origin'), ov),
                                       (E.const_str(b'type'), tv), (xk, xv)))
            cons = c1 + c2 + [z3.Not(in_list(E, xk, ['content', 'origin', 'type'])), z3.Not(in_list(E, ck, ['membership', 'third_party_invite']))]
            st = E.new_state()
            rref = E.root_ref(st, red)
            eref = E.root_ref(st, ev)
            f = E.find_func('canonical_json::redact_in_place')
            outs = E.run_func(f, [eref, rref, NONE], cons, st=st)
            bad = []
            for o in outs:
                if o.kind != 'ret' or o.value.variant != 'Ok':
                    bad.append(o.cond()); continue
                after = E.read_ref(o.st, eref)
                ents = dict()
                okc = []
                for k, val in after.data[1]:
                    kb = E.as_str(o.st, k).conc()
                    if kb is None:
                        # the symbolic extra key survived: it must be a spec-kept key
                        okc.append(in_list(E, xk, R.top_level_keys(v)))
                        okc.append(z3.BoolVal(val is xv))
                    else:
                        ents[kb] = val
                # type and content always kept, origin kept before v11, values untouched
                okc.append(z3.BoolVal(b'type' in ents and ents[b'type'] is tv))
                okc.append(z3.BoolVal((b'origin' in ents) == (v < 11) and (ents.get(b'origin') is ov or v >= 11)))
                if any(E.as_str(o.st, k).conc() is None for k, _ in after.data[1]):
                    pass
                else:
                    okc.append(z3.Not(in_list(E, xk, R.top_level_keys(v))))
                cobj = ents.get(b'content')
                if cobj is None:
                    okc.append(z3.BoolVal(False))
                else:
                    cents = cobj.fields[0].data[1]
                    ks = R.content_keys(v, tname.decode())
                    kept_sym = any(E.as_str(o.st, k).conc() is None for k, _ in cents)
                    want_sym = z3.BoolVal(True) if ks == '*' else in_list(E, ck, [x for x in ks])
                    okc.append(want_sym if kept_sym else z3.Not(want_sym))
                    kept_m = any(E.as_str(o.st, k).conc() == b'membership' for k, _ in cents)
                    okc.append(z3.BoolVal(kept_m == (ks == '*' or 'membership' in ks)))
                    for k, val in cents:
                        kb = E.as_str(o.st, k).conc()
                        okc.append(z3.BoolVal(val is (mv if kb == b'membership' else cv)))
                bad.append(z3.And(o.cond(), z3.Not(z3.And(*okc))))
            r, m = C.solve(f'v{v} {tname.decode()}: redact_in_place keeps exactly the spec keys, values untouched', cons + [z3.Or(*bad)])
            if r == 'sat':
                xks, cks = b2s(model_bytes(m, xk)), b2s(model_bytes(m, ck))
                event = {'type': tname.decode(), 'content': {cks: 'cv', 'membership': 'mv'}, 'origin': 'ov', xks: 'xv'}
                vec = {'op': 'c04:redact', 'version': str(v), 'event': event}
                res_n = C.native(vec); vec['native'] = res_n
                ks = R.content_keys(v, tname.decode())
                want = {k: val for k, val in event.items() if k in R.top_level_keys(v)}
                want['content'] = {k: val for k, val in event['content'].items() if ks == '*' or k in ks}
                if res_n.get('r') != 'ok' or res_n['v'] != want or res_n['inplace'] != want:
                    C.report_violation(f'room version {v}: redact result differs from the spec (want {want}): {vec}', vec)
                else:
                    raise Broken(f'apply-level model does not reproduce natively: {vec}')
            C.absorb(E)
    C.samples.append({'apply_level': 'event {type, content{<sym>, membership}, origin, <sym>} through redact_in_place'})


if __name__ == '__main__':
    run_check('C04', body)
