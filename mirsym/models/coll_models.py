"""Models of Vec / slices / iterators over concrete-length sequences (elements may be symbolic)."""
import re
import z3
from ..values import *
from . import model_decorator

T = TRUE


def register(E):
    model = model_decorator(E.models)
    register_maps(E)
    register_indexset(E)

    def d(st, v):
        return E.deref(st, v)

    def items_of(st, v):
        v = d(st, v)
        if isinstance(v, Seq): return v.items
        if isinstance(v, Obj) and v.kind == 'Vec': return v.data
        raise Inconclusive('not a sequence: ' + repr(v))
    E.items_of = items_of

    @model(r'^std::vec::Vec::(new|with_capacity)$')
    def _(E, st, callee, a, m): return [(T, Obj('Vec', ()))]

    @model(r'^std::vec::Vec::push$')
    def _(E, st, callee, a, m):
        v = d(st, a[0])
        if v.kind == 'VecU8':
            raise Inconclusive('Vec<u8>::push')
        new = Obj('Vec', v.data + (a[1],))
        def eff(st2): E.store(st2, a[0], new)
        return [(T, UNIT, eff)]

    @model(r'^std::vec::Vec::pop$')
    def _(E, st, callee, a, m):
        v = d(st, a[0])
        if not v.data: return [(T, NONE)]
        def eff(st2): E.store(st2, a[0], Obj('Vec', v.data[:-1]))
        return [(T, some(v.data[-1]), eff)]

    @model(r'^std::slice::<impl \[T\]>::to_vec$|^core::slice::<impl \[T\]>::to_vec$|^std::slice::<impl \[T\]>::into_vec$')
    def _(E, st, callee, a, m):
        v = d(st, a[0])
        if isinstance(v, Str): return [(T, Obj('VecU8', v))]
        return [(T, Obj('Vec', tuple(items_of(st, v))))]

    @model(r'^<std::vec::Vec as std::ops::Deref>::deref$|^std::vec::Vec::as_slice$|^<std::vec::Vec as std::convert::AsRef>::as_ref$|^<std::vec::Vec as std::ops::DerefMut>::deref_mut$')
    def _(E, st, callee, a, m):
        v = d(st, a[0])
        if v.kind == 'VecU8': return [(T, v.data)]
        return [(T, Seq(v.data))]

    @model(r'^core::slice::<impl \[T\]>::(iter|iter_mut)$|^<&std::vec::Vec as std::iter::IntoIterator>::into_iter$|^<&\[T\] as std::iter::IntoIterator>::into_iter$|^<&\[T; \d+\] as std::iter::IntoIterator>::into_iter$')
    def _(E, st, callee, a, m):
        v = d(st, a[0])
        if isinstance(v, Str):
            return [(T, Obj('ByteRefIter', (v,)))]
        its = items_of(st, v)
        # iterate by reference: elements are addressed through the owner when it is a place
        refs = []
        r = a[0]
        base = r
        while isinstance(base, Ref):
            nxt = E.read_ref(st, base)
            if isinstance(nxt, Ref): base = nxt
            else: break
        for i, x in enumerate(its):
            if isinstance(x, (Str,)):
                refs.append(x)
            elif isinstance(base, Ref) and isinstance(E.read_ref(st, base), Seq):
                refs.append(Ref(base.frame, base.local, base.proj + (('cindex', i, False),)))
            else:
                refs.append(E.alloc(st, x) if not isinstance(x, Ref) else x)
        return [(T, Obj('SeqIter', (tuple(refs), 0)))]

    @model(r'^<std::vec::Vec as std::iter::IntoIterator>::into_iter$|^<\[T; \d+\] as std::iter::IntoIterator>::into_iter$|^<std::vec::IntoIter as std::iter::IntoIterator>::into_iter$|^<(.+) as std::iter::IntoIterator>::into_iter$')
    def _(E, st, callee, a, m):
        v = d(st, a[0])
        if isinstance(v, Obj) and v.kind in ('Set', 'HSet'):
            return hash_orders(E, v.kind == 'HSet', tuple(v.data), lambda items: Obj('SeqIter', (tuple(items), 0)))
        if isinstance(v, Obj) and v.kind in ('SeqIter', 'Bytes', 'Chars', 'ByteRefIter', 'CharIndices') or isinstance(v, Obj) and v.kind.endswith('Iter'):
            return [(T, v)]
        if isinstance(v, (Seq,)) or isinstance(v, Obj) and v.kind == 'Vec':
            return [(T, Obj('SeqIter', (tuple(items_of(st, v)), 0)))]
        if isinstance(v, Adt) and v.ty.endswith('Option'):
            return [(T, Obj('SeqIter', (tuple(v.fields[:1]) if v.variant == 'Some' else (), 0)))]
        return None

    def hash_orders(E, hashed, items, mk):
        """iteration over a hash container: under E.hash_any_order every order is a separate outcome (selected by a fresh
        symbolic index, so the harness can quantify over the orders); otherwise list order"""
        import itertools as _it
        if not (hashed and getattr(E, 'hash_any_order', False)) or len(items) < 2:
            return [(T, mk(items))]
        perms = list(_it.permutations(items))
        sel = E.fresh_bv('hash_order')
        E.axioms.append(z3.ULT(sel, len(perms)))
        return [(sel == i, mk(p)) for i, p in enumerate(perms)]
    E.hash_orders = hash_orders

    @model(r'^std::collections::(BTreeSet|HashSet)::(new|insert|remove|len|is_empty|contains|iter)$|^<std::collections::(BTreeSet|HashSet) as std::default::Default>::(default)$')
    def _(E, st, callee, a, m):
        """sets as duplicate-free lists (BTreeSet: insertion order, harnesses that depend on its order say so; HashSet: see hash_orders)"""
        from .core_models import deep_eq
        which = m.group(1) or m.group(3)
        op = m.group(2) or m.group(4)
        kind = 'HSet' if which == 'HashSet' else 'Set'
        if op in ('new', 'default'):
            return [(T, Obj(kind, ()))]
        v = d(st, a[0])
        if not (isinstance(v, Obj) and v.kind in ('Set', 'HSet')):
            return None
        if op == 'len': return [(T, I(len(v.data), 64))]
        if op == 'is_empty': return [(T, z3.BoolVal(len(v.data) == 0))]
        if op == 'iter':
            return hash_orders(E, v.kind == 'HSet', tuple(v.data), lambda items: Obj('SeqIter', (tuple(items), 0)))
        eqs = [z3.simplify(deep_eq(E, st, x, a[1])) for x in v.data]
        anyeq = z3.simplify(z3.Or(*eqs)) if eqs else FALSE
        if op == 'contains':
            return [(T, anyeq)]
        if op == 'remove':
            outs, before = [], T
            for i, e in enumerate(eqs):
                c = z3.simplify(z3.And(before, e)); before = z3.simplify(z3.And(before, z3.Not(e)))
                if z3.is_false(c): continue
                def eff(st2, i=i): E.store(st2, a[0], Obj(v.kind, tuple(v.data[:i]) + tuple(v.data[i + 1:])))
                outs.append((c, T, eff))
            if not z3.is_false(before): outs.append((before, FALSE))
            return outs
        def eff(st2):
            E.store(st2, a[0], Obj(v.kind, tuple(v.data) + (a[1],)))
        return [(anyeq, FALSE), (z3.simplify(z3.Not(anyeq)), T, eff)]

    # ---- BinaryHeap as a list; pop extracts the maximum by the element type's Ord (crate code for local types)
    def ord_cmp(E, st, ty, x, y):
        """[(cond, is_greater(x, y) as z3 Bool, state)]"""
        res = []
        # std's BinaryHeap sifts with `<=` / `>=`, i.e. through PartialOrd::partial_cmp of the element type (not Ord::cmp)
        for c, o in E.call_value(st, FnItem('<' + ty + ' as std::cmp::PartialOrd>::partial_cmp'), [E.root_ref(st, x), E.root_ref(st, y)]):
            if o.kind != 'ret':
                raise Inconclusive('partial_cmp panics inside BinaryHeap: ' + str(o.value))
            v = o.value
            if isinstance(v, Adt) and v.ty.endswith('Option'):
                if v.variant != 'Some':
                    raise Inconclusive('BinaryHeap over a partially ordered element (partial_cmp returned None)')
                v = v.fields[0]
            if isinstance(v, Adt):
                g = z3.BoolVal(v.variant == 'Greater')
            elif hasattr(v, 'v'):
                g = v.v == 1
            else:
                raise Inconclusive('BinaryHeap: unsupported Ordering value ' + repr(v))
            res.append((c, g, o.st))
        return res

    @model(r'^std::collections::BinaryHeap::(new|push|pop|len|is_empty|peek)$|^<std::collections::BinaryHeap as std::convert::From>::(from)$')
    def _(E, st, callee, a, m):
        from ..mirparse import turbofish
        op = m.group(1) or m.group(2)
        if op == 'new':
            return [(T, Obj('Heap', ()))]
        if op == 'from':
            return [(T, Obj('Heap', tuple(items_of(st, a[0]))))]
        h = d(st, a[0])
        if op == 'len': return [(T, I(len(h.data), 64))]
        if op == 'is_empty': return [(T, z3.BoolVal(len(h.data) == 0))]
        if op == 'push':
            def eff(st2): E.store(st2, a[0], Obj('Heap', tuple(h.data) + (a[1],)))
            return [(T, UNIT, eff)]
        if not h.data:
            return [(T, NONE)]
        mt = re.search(r'BinaryHeap::<(.*)>::(?:pop|peek)$', callee.strip())
        if not mt:
            raise Inconclusive('BinaryHeap element type unknown: ' + callee)
        ty = mt.group(1)
        # maximum by successive comparisons: [(cond, index of the current maximum, state)]
        cur = [(T, 0, st)]
        for j in range(1, len(h.data)):
            nxt = []
            for c, bi, s_ in cur:
                for c2, g, s2 in ord_cmp(E, s_, ty, h.data[j], h.data[bi]):
                    cg, cl = z3.simplify(z3.And(c, c2, g)), z3.simplify(z3.And(c, c2, z3.Not(g)))
                    if not z3.is_false(cg): nxt.append((cg, j, s2))
                    if not z3.is_false(cl): nxt.append((cl, bi, s2))
            cur = nxt
        outs = []
        for c, bi, s_after in cur:
            def eff(st2, bi=bi, s_after=s_after):
                st2.heap = dict(s_after.heap); st2.notes = s_after.notes
                for fid, fr in s_after.fmap.items():
                    if fid in st2.fmap: st2.fmap[fid].locs = dict(fr.locs)
                if op == 'pop':
                    E.store(st2, a[0], Obj('Heap', tuple(h.data[:bi]) + tuple(h.data[bi + 1:])))
                return some(h.data[bi]) if op == 'pop' else some(E.root_ref(st2, h.data[bi]))
            outs.append((c, None, eff))
        return outs

    @model(r'^<std::cmp::Reverse as std::cmp::Ord>::cmp$|^<std::cmp::Reverse as std::cmp::PartialOrd>::partial_cmp$')
    def _(E, st, callee, a, m):
        mt = re.search(r'^<std::cmp::Reverse<(.*)> as std::cmp::(Ord|PartialOrd)', callee.strip())
        if not mt:
            return None
        x, y = d(st, a[0]), d(st, a[1])
        item = 'cmp' if mt.group(2) == 'Ord' else 'partial_cmp'
        return E.outs_to_model(E.call_value(st, FnItem('<' + mt.group(1) + ' as std::cmp::' + mt.group(2) + '>::' + item), [E.root_ref(st, y.fields[0]), E.root_ref(st, x.fields[0])]))

    @model(r'^<std::ops::(Range|RangeInclusive) as std::iter::(?:Iterator|DoubleEndedIterator|IntoIterator)>::(rev|into_iter|map|filter|find|any|all|position|count|filter_map|next)$')
    def _(E, st, callee, a, m):
        """integer ranges with concrete bounds become an explicit sequence (symbolic bounds: one outcome per value up to the
        engine's loop bound would be needed - not modelled)"""
        r = d(st, a[0])
        lo, hi = d(st, r.fields[0]), d(st, r.fields[1])
        lc, hc = lo.conc(), hi.conc()
        if lc is None or hc is None:
            raise Inconclusive('iteration over an integer range with symbolic bounds')
        if m.group(1) == 'RangeInclusive': hc += 1
        items = tuple(I(k, lo.w, lo.s) for k in range(lc, max(lc, hc)))
        op = m.group(2)
        if op == 'into_iter':
            return [(T, Obj('SeqIter', (items, 0)))]
        if op == 'rev':
            return [(T, Obj('SeqIter', (items[::-1], 0)))]
        if op == 'next':
            raise Inconclusive('Range::next on a place (use a for loop model)')
        tmp = E.root_ref(st, Obj('SeqIter', (items, 0)))
        return E.seq_iter_op(E, st, callee, [tmp] + list(a[1:]), op)

    @model(r'^std::collections::(?:HashMap|BTreeMap)::entry$')
    def _(E, st, callee, a, m):
        return [(T, Obj('MapEntry', (a[0], a[1])))]

    @model(r'^std::collections::(?:hash_map|btree_map)::Entry::and_modify$')
    def _(E, st, callee, a, m):
        ent = d(st, a[0])
        mref, key = ent.data
        mp = d(st, mref)
        kind, ents = mp.data
        from .core_models import deep_eq
        base = mref
        while isinstance(base, Ref):
            nxt = E.read_ref(st, base)
            if isinstance(nxt, Ref): base = nxt
            else: break
        outs, before = [], T
        for i, (k, v) in enumerate(ents):
            e = z3.simplify(deep_eq(E, st, k, key))
            c = z3.simplify(z3.And(before, e)); before = z3.simplify(z3.And(before, z3.Not(e)))
            if z3.is_false(c): continue
            for c1, o in E.call_value(st, a[1], [Ref(base.frame, base.local, base.proj + (('mapval', i),))]):
                if o.kind != 'ret':
                    raise Inconclusive('and_modify closure panics: ' + str(o.value))
                outs.append((z3.simplify(z3.And(c, c1)), ent, (lambda st2, s_after=o.st: adopt_state(st2, s_after))))
        if not z3.is_false(before):
            outs.append((before, ent))
        return outs

    @model(r'^std::collections::(?:hash_map|btree_map)::Entry::(or_insert_with|or_insert|or_default)$')
    def _(E, st, callee, a, m):
        ent = d(st, a[0])
        mref, key = ent.data
        mp = d(st, mref)
        kind, ents = mp.data
        from .core_models import deep_eq
        base = mref
        while isinstance(base, Ref):
            nxt = E.read_ref(st, base)
            if isinstance(nxt, Ref): base = nxt
            else: break
        op = m.group(1)
        outs, before = [], T
        for i, (k, v) in enumerate(ents):
            e = z3.simplify(deep_eq(E, st, k, key))
            c = z3.simplify(z3.And(before, e)); before = z3.simplify(z3.And(before, z3.Not(e)))
            if z3.is_false(c): continue
            outs.append((c, Ref(base.frame, base.local, base.proj + (('mapval', i),))))
        if z3.is_false(before):
            return outs
        if op == 'or_insert':
            vals = [(T, a[1], None)]
        elif op == 'or_insert_with':
            vals = [(c, o.value, o.st) for c, o in E.call_value(st, a[1], []) if o.kind == 'ret']
        else:
            from ..mirparse import split_top
            mt = re.search(r'Entry::<(.*)>::or_default$', callee.strip())
            vty = split_top(mt.group(1))[-1].strip() if mt else None
            if vty is None:
                raise Inconclusive('Entry::or_default: value type unknown')
            vals = [(c, o.value, o.st) for c, o in E.call_value(st, FnItem('<' + vty + ' as std::default::Default>::default'), []) if o.kind == 'ret']
        for c, val, s_after in vals:
            def eff(st2, val=val, s_after=s_after):
                if s_after is not None:
                    st2.heap = dict(s_after.heap); st2.notes = s_after.notes
                    for fid, fr in s_after.fmap.items():
                        if fid in st2.fmap: st2.fmap[fid].locs = dict(fr.locs)
                E.store(st2, mref, E.mk_map(kind, tuple(ents) + ((key, val),)))
                return Ref(base.frame, base.local, base.proj + (('mapval', len(ents)),))
            outs.append((z3.simplify(z3.And(before, c)), None, eff))
        return outs

    @model(r'^<(?:std::slice::Iter|std::slice::IterMut|std::vec::IntoIter|std::option::IntoIter|std::option::Iter|std::array::IntoIter|std::collections::btree_set::IntoIter|std::collections::btree_set::Iter|std::collections::hash_set::IntoIter|std::collections::hash_set::Iter|std::collections::hash_map::Iter|std::collections::hash_map::IntoIter|std::collections::hash_map::Keys|std::collections::btree_map::Iter|std::collections::btree_map::IntoIter|serde_json::map::IntoIter|serde_json::map::Iter|std::iter::Flatten|std::iter::Inspect) as std::iter::Iterator>::(\w+)$')
    def _(E, st, callee, a, m):
        return seq_iter_op(E, st, callee, a, m.group(1))

    def seq_iter_op(E, st, callee, a, op):
        it = d(st, a[0])
        if it.kind != 'SeqIter':
            return None
        items, pos = it.data
        rest = items[pos:]
        if op == 'next':
            if not rest: return [(T, NONE)]
            def eff(st2): E.store(st2, a[0], Obj('SeqIter', (items, pos + 1)))
            return [(T, some(rest[0]), eff)]
        if op == 'count': return [(T, I(len(rest), 64))]
        if op == 'len': return [(T, I(len(rest), 64))]
        if op in ('any', 'all', 'find', 'position'):
            # sequentially apply the closure: fold into nested outcomes
            return fold_pred(E, st, a[1], rest, op)
        if op == 'rev':
            return [(T, Obj('SeqIter', (tuple(reversed(rest)), 0)))]
        if op == 'copied' or op == 'cloned':
            return [(T, Obj('SeqIter', (tuple(d(st, x) for x in rest), 0)))]
        if op == 'enumerate':
            return [(T, Obj('SeqIter', (tuple(Tup([I(i, 64), x]) for i, x in enumerate(rest)), 0)))]
        if op == 'collect':
            return collect(E, st, callee, rest)
        if op == 'size_hint':
            return [(T, Tup([I(len(rest), 64), some(I(len(rest), 64))]))]
        if op == 'last':
            return [(T, some(rest[-1]) if rest else NONE)]
        if op == 'nth':
            n = d(st, a[1]).conc()
            if n is None: raise Inconclusive('nth symbolic')
            return [(T, some(rest[n]) if n < len(rest) else NONE)]
        if op == 'skip':
            n = d(st, a[1]).conc()
            return [(T, Obj('SeqIter', (tuple(rest[n:]), 0)))]
        if op == 'take':
            n = d(st, a[1]).conc()
            return [(T, Obj('SeqIter', (tuple(rest[:n]), 0)))]
        if op == 'peekable':
            return [(T, Obj('SeqIter', (tuple(rest), 0)))]
        if op == 'inspect':
            # eager: the closure's side effects (counters) happen now; the order relative to consumption is not observable
            cur = [(T, st)]
            for x in rest:
                nxt = []
                for c0, s0 in cur:
                    for c1, o in E.call_value(s0, a[1], [E.root_ref(s0, x) if not isinstance(x, Ref) else E.root_ref(s0, x)]):
                        if o.kind != 'ret':
                            raise Inconclusive('inspect closure panics: ' + str(o.value))
                        nxt.append((z3.simplify(z3.And(c0, c1)), o.st))
                cur = nxt
            out = []
            for c, s_after in cur:
                out.append((c, Obj('SeqIter', (tuple(rest), 0)), (lambda st2, s_after=s_after: adopt_state(st2, s_after))))
            return out
        if op == 'flatten':
            # eager: every element is itself iterable; hash sets contribute one outcome per iteration order
            acc = [(T, ())]
            for x in rest:
                xv = d(st, x)
                if isinstance(xv, Obj) and xv.kind in ('Set', 'HSet'):
                    alts = E.hash_orders(E, xv.kind == 'HSet', tuple(xv.data), lambda items: tuple(items))
                elif isinstance(xv, Obj) and xv.kind == 'Map':
                    kind_, ents_ = xv.data
                    base = x
                    while isinstance(base, Ref):
                        nx = E.read_ref(st, base)
                        if isinstance(nx, Ref): base = nx
                        else: break
                    if isinstance(base, Ref):
                        its_ = tuple(Tup([k if isinstance(k, Str) else Ref(base.frame, base.local, base.proj + (('mapkey', i),)), Ref(base.frame, base.local, base.proj + (('mapval', i),))]) for i, (k, v) in enumerate(ents_))
                    else:
                        its_ = tuple(Tup([k, v]) for k, v in ents_)
                    alts = E.hash_orders(E, kind_ == 'HashMap', its_, lambda items: tuple(items))
                elif isinstance(xv, Obj) and xv.kind == 'SeqIter':
                    alts = [(T, tuple(xv.data[0][xv.data[1]:]))]
                elif isinstance(xv, (Seq,)) or isinstance(xv, Obj) and xv.kind == 'Vec':
                    alts = [(T, tuple(items_of(st, xv)))]
                elif isinstance(xv, Adt) and xv.ty.endswith('Option'):
                    alts = [(T, tuple(xv.fields[:1]) if xv.variant == 'Some' else ())]
                else:
                    raise Inconclusive('flatten over ' + repr(xv))
                acc = [(z3.simplify(z3.And(c0, c1)), vals + more) for c0, vals in acc for c1, more in alts]
            return [(c, Obj('SeqIter', (vals, 0))) for c, vals in acc]
        if op in ('map', 'filter', 'filter_map', 'flat_map', 'for_each', 'fold', 'try_fold', 'chain', 'zip', 'max_by_key', 'min_by_key', 'sum', 'max', 'min'):
            return lazy_adaptor(E, st, callee, a, op, rest)
        raise Inconclusive('SeqIter::' + op)
    E.seq_iter_op = seq_iter_op

    def fold_pred(E, st, clo, rest, op):
        """any/all/find/position over a concrete-length sequence with a possibly symbolic predicate"""
        results = []   # (cond, value)
        def rec(st_cur, i, pre):
            if i == len(rest):
                v = {'any': FALSE, 'all': T, 'find': NONE, 'position': NONE}[op]
                results.append((pre, v, st_cur)); return
            x = rest[i]
            arg = x
            if op == 'find':
                arg = E.root_ref(st_cur, x)
            outs = E.call_value(st_cur, clo, [arg])
            for cond, o in outs:
                if o.kind != 'ret':
                    results.append((z3.And(pre, cond), Panic(str(o.value)), o.st)); continue
                r = o.value
                c_true, c_false = z3.simplify(z3.And(pre, cond, r)), z3.simplify(z3.And(pre, cond, z3.Not(r)))
                hit = {'any': T, 'all': None, 'find': some(x), 'position': some(I(i, 64))}[op]
                if op == 'all':
                    if not z3.is_false(c_false): results.append((c_false, FALSE, o.st))
                    if not z3.is_false(c_true): rec(o.st, i + 1, c_true)
                else:
                    if not z3.is_false(c_true): results.append((c_true, hit, o.st))
                    if not z3.is_false(c_false): rec(o.st, i + 1, c_false)
        rec(st, 0, T)
        out = []
        for c, v, s_after in results:
            def eff(st2, s_after=s_after):
                st2.heap = dict(s_after.heap)
                st2.notes = s_after.notes
                for fid, fr in s_after.fmap.items():
                    if fid in st2.fmap: st2.fmap[fid].locs = dict(fr.locs)
            out.append((c, v, eff))
        return out
    E.fold_pred = fold_pred

    @model(r'^<(?!std::|core::|alloc::)(.+) as std::iter::Iterator>::(find|any|all)$')
    def _(E, st, callee, a, m):
        """provided Iterator methods on a crate-local iterator: the std default bodies (a loop over `next`), run on the
        crate's own `next`; bounded by the engine's loop bound"""
        op = m.group(2)
        cs = callee.strip()
        inner = cs[1:cs.rindex('>::')]
        nxt = FnItem('<' + inner + '>::next')
        clo = a[1]
        results = []
        bound = E.loop_bound or 64

        def rec(st_cur, n, pre):
            if n > bound:
                raise Inconclusive(f'provided Iterator::{op} over a crate iterator: more than {bound} items')
            for c1, o in E.call_value(st_cur, nxt, [a[0]]):
                p1 = z3.simplify(z3.And(pre, c1))
                if z3.is_false(p1): continue
                if o.kind != 'ret':
                    results.append((p1, Panic(str(o.value)), o.st)); continue
                item = o.value
                if item.variant == 'None':
                    results.append((p1, {'find': NONE, 'any': FALSE, 'all': T}[op], o.st)); continue
                x = item.fields[0]
                arg = E.root_ref(o.st, x) if op == 'find' else x
                for c2, o2 in E.call_value(o.st, clo, [arg]):
                    p2 = z3.simplify(z3.And(p1, c2))
                    if z3.is_false(p2): continue
                    if o2.kind != 'ret':
                        results.append((p2, Panic(str(o2.value)), o2.st)); continue
                    r = o2.value
                    ct, cf = z3.simplify(z3.And(p2, r)), z3.simplify(z3.And(p2, z3.Not(r)))
                    stop_c, stop_v, go_c = (ct, some(x), cf) if op == 'find' else (ct, T, cf) if op == 'any' else (cf, FALSE, ct)
                    if not z3.is_false(stop_c): results.append((stop_c, stop_v, o2.st))
                    if not z3.is_false(go_c) and E.feasible(list(st.pc) + [go_c]): rec(o2.st, n + 1, go_c)
        rec(st, 0, T)
        out = []
        for c, v, s_after in results:
            def eff(st2, s_after=s_after):
                st2.heap = dict(s_after.heap)
                for fid, fr in s_after.fmap.items():
                    if fid in st2.fmap: st2.fmap[fid].locs = dict(fr.locs)
                st2.notes = s_after.notes
            out.append((c, v, eff))
        return out

    def adopt_state(st2, s_after):
        st2.heap = dict(s_after.heap)
        st2.notes = s_after.notes
        for fid, fr in s_after.fmap.items():
            if fid in st2.fmap: st2.fmap[fid].locs = dict(fr.locs)

    def flat_map_now(E, st, rest, clo):
        """apply the closure to every element (concrete count), concatenate the iterators it returns"""
        acc = [(T, (), st)]
        for x in rest:
            nxt = []
            for c0, vals, s0 in acc:
                for cond, o in E.call_value(s0, clo, [x]):
                    cc = z3.simplify(z3.And(c0, cond))
                    if z3.is_false(cc): continue
                    if o.kind != 'ret':
                        raise Inconclusive('flat_map closure panics: ' + str(o.value))
                    sub_it = d(o.st, o.value)
                    if isinstance(sub_it, Obj) and sub_it.kind == 'SeqIter':
                        more = sub_it.data[0][sub_it.data[1]:]
                    elif isinstance(sub_it, Adt) and sub_it.ty.endswith('Option'):
                        more = tuple(sub_it.fields[:1]) if sub_it.variant == 'Some' else ()
                    elif isinstance(sub_it, (Seq,)) or isinstance(sub_it, Obj) and sub_it.kind == 'Vec':
                        more = tuple(items_of(o.st, sub_it))
                    else:
                        raise Inconclusive('flat_map over ' + repr(sub_it))
                    nxt.append((cc, vals + tuple(more), o.st))
            acc = nxt
        return acc

    def lazy_adaptor(E, st, callee, a, op, rest):
        if op == 'flat_map':
            res = []
            for c, vals, s_after in flat_map_now(E, st, rest, a[1]):
                res.append((c, Obj('SeqIter', (tuple(vals), 0)), (lambda st2, s_after=s_after: adopt_state(st2, s_after))))
            return res
        if op == 'map':
            return [(T, Obj('MapIter', (tuple(rest), a[1])))]
        if op == 'filter':
            return [(T, Obj('FilterIter', (tuple(rest), a[1])))]
        if op == 'filter_map':
            return [(T, Obj('FilterMapIter', (tuple(rest), a[1])))]
        if op == 'chain':
            other = d(st, a[1])
            if isinstance(other, Obj) and other.kind == 'SeqIter':
                return [(T, Obj('SeqIter', (tuple(rest) + tuple(other.data[0][other.data[1]:]), 0)))]
        if op == 'zip':
            other = d(st, a[1])
            if isinstance(other, Obj) and other.kind == 'SeqIter':
                o = other.data[0][other.data[1]:]
                return [(T, Obj('SeqIter', (tuple(Tup([x, y]) for x, y in zip(rest, o)), 0)))]
        raise Inconclusive('iterator adaptor ' + op)

    def collect(E, st, callee, rest):
        from ..mirparse import turbofish
        t = turbofish(callee)
        tgt = t[0] if t else ''
        if tgt.startswith('std::vec::Vec'):
            return [(T, Obj('Vec', tuple(rest)))]
        if tgt.startswith('std::collections::BTreeSet') or tgt.startswith('std::collections::HashSet'):
            # de-duplicate by (possibly symbolic) equality: fork on each comparison
            from .core_models import deep_eq
            acc = [(T, ())]
            for x in rest:
                nxt = []
                for c0, kept in acc:
                    dup = z3.simplify(z3.Or(*[deep_eq(E, st, x, y) for y in kept])) if kept else FALSE
                    cd, cn = z3.simplify(z3.And(c0, dup)), z3.simplify(z3.And(c0, z3.Not(dup)))
                    if not z3.is_false(cd): nxt.append((cd, kept))
                    if not z3.is_false(cn): nxt.append((cn, kept + (x,)))
                acc = nxt
            return [(c, Obj('Set', kept)) for c, kept in acc]
        if tgt.startswith('std::result::Result'):
            # Result<C, E>: FromIterator<Result<A, E>>: first Err wins, otherwise the inner collection
            inner = tgt[len('std::result::Result<'):-1]
            from ..mirparse import split_top
            inner_ty = split_top(inner)[0]
            vals = []
            for x in rest:
                x = d(st, x)
                if x.variant == 'Err':
                    return [(T, x)]
                vals.append(x.fields[0])
            sub = collect(E, st, 'collect::<' + inner_ty + '>', vals)
            return [(c, ok(v)) + tuple(r) for (c, v, *r) in sub]
        if tgt.startswith('std::collections::BTreeMap') or tgt.startswith('std::collections::HashMap'):
            ents = []
            for t in rest:
                t = d(st, t)
                ents.append((t.fields[0], t.fields[1]))
            return [(T, E.mk_map('BTreeMap', ents))]
        if tgt.startswith('std::string::String'):
            from .str_models import concat
            parts = []
            for x in rest:
                x = d(st, x)
                if isinstance(x, I):
                    c = x.conc()
                    if c is None: raise Inconclusive('collect symbolic chars')
                    parts.append(E.const_str(chr(c).encode()))
                else:
                    parts.append(E.as_str(st, x))
            return [(T, Obj('String', concat(E, parts)))]
        raise Inconclusive('collect into ' + tgt)
    E.collect = collect

    @model(r'^<(.+) as std::iter::Iterator>::(\w+)$')
    def _(E, st, callee, a, m):
        it = d(st, a[0])
        if isinstance(it, Obj) and it.kind == 'SeqIter':
            return seq_iter_op(E, st, callee, a, m.group(2))
        if isinstance(it, Obj) and it.kind in ('MapIter', 'FilterIter', 'FilterMapIter'):
            return adaptor_op(E, st, callee, a, m.group(2), it)
        return None

    def adaptor_op(E, st, callee, a, op, it):
        items, clo = it.data
        # materialise by running the closure over every element (concrete length); outcomes multiply
        def materialise(st0):
            acc = [(T, (), st0)]
            for x in items:
                nxt = []
                for c0, vals, s0 in acc:
                    arg = x
                    if it.kind == 'FilterIter':
                        arg = E.root_ref(s0, x)
                    for cond, o in E.call_value(s0, clo, [arg]):
                        cc = z3.simplify(z3.And(c0, cond))
                        if o.kind != 'ret':
                            nxt.append((cc, Panic(str(o.value)), o.st)); continue
                        if it.kind == 'MapIter':
                            nxt.append((cc, vals + (o.value,), o.st))
                        elif it.kind == 'FilterIter':
                            ct, cf = z3.simplify(z3.And(cc, o.value)), z3.simplify(z3.And(cc, z3.Not(o.value)))
                            if not z3.is_false(ct): nxt.append((ct, vals + (x,), o.st))
                            if not z3.is_false(cf): nxt.append((cf, vals, o.st))
                        else:
                            r = o.value
                            nxt.append((cc, vals + ((r.fields[0],) if r.variant == 'Some' else ()), o.st))
                acc = []
                for e in nxt:
                    if isinstance(e[1], Panic):
                        done.append(e)
                    else:
                        acc.append(e)
            return acc
        done = []
        acc = materialise(st)
        res = []
        for c, vals, s_after in acc + done:
            def eff(st2, s_after=s_after):
                st2.heap = dict(s_after.heap)
                st2.notes = s_after.notes
                for fid, fr in s_after.fmap.items():
                    if fid in st2.fmap: st2.fmap[fid].locs = dict(fr.locs)
            if isinstance(vals, Panic):
                res.append((c, vals)); continue
            if op == 'collect':
                for co in E.collect(E, s_after, callee, vals):
                    res.append((z3.simplify(z3.And(c, co[0])), co[1], eff))
            elif op in ('count',):
                res.append((c, I(len(vals), 64), eff))
            else:
                # turn into a plain SeqIter and re-dispatch the op
                def eff2(st2, s_after=s_after, vals=vals):
                    st2.heap = dict(s_after.heap)
                    st2.notes = s_after.notes
                    for fid, fr in s_after.fmap.items():
                        if fid in st2.fmap: st2.fmap[fid].locs = dict(fr.locs)
                    E.store(st2, a[0], Obj('SeqIter', (tuple(vals), 0))) if isinstance(a[0], Ref) else None
                if op == 'next' and isinstance(a[0], Ref):
                    if vals:
                        def eff3(st2, s_after=s_after, vals=vals):
                            st2.heap = dict(s_after.heap)
                            st2.notes = s_after.notes
                            for fid, fr in s_after.fmap.items():
                                if fid in st2.fmap: st2.fmap[fid].locs = dict(fr.locs)
                            E.store(st2, a[0], Obj('SeqIter', (tuple(vals), 1)))
                        res.append((c, some(vals[0]), eff3))
                    else:
                        res.append((c, NONE, eff2))
                elif op in ('cloned', 'copied', 'peekable', 'fuse', 'into_iter'):
                    # by-value views of the materialised sequence (values are immutable in this model)
                    res.append((c, Obj('SeqIter', (tuple(E.deref(s_after, x) if isinstance(x, Ref) and op in ('cloned', 'copied') else x for x in vals), 0)), eff))
                else:
                    raise Inconclusive('adaptor op ' + op)
        return res

    @model(r'^(?:core|std)::slice::<impl \[T\]>::(first|last|get|contains|concat|join)$')
    def _(E, st, callee, a, m):
        op = m.group(1)
        v = d(st, a[0])
        if isinstance(v, Str):
            return None
        its = items_of(st, v)
        if op == 'first': return [(T, some(its[0]) if its else NONE)]
        if op == 'last': return [(T, some(its[-1]) if its else NONE)]
        if op == 'get':
            i = d(st, a[1]).conc()
            if i is None: raise Inconclusive('slice.get(symbolic)')
            return [(T, some(its[i]) if i < len(its) else NONE)]
        if op == 'contains':
            from .core_models import deep_eq
            return [(T, z3.Or(*[deep_eq(E, st, x, a[1]) for x in its]) if its else FALSE)]
        if op == 'concat':
            from .str_models import concat
            parts = [E.as_str(st, x) for x in its]
            return [(T, Obj('String', concat(E, parts) if parts else E.const_str(b'')))]
        raise Inconclusive('slice::' + op)

    @model(r'^<\[T\] as std::ops::Index>::index$|^<std::vec::Vec as std::ops::Index>::index$')
    def _(E, st, callee, a, m):
        its = items_of(st, a[0])
        i = d(st, a[1]).conc()
        if i is None: raise Inconclusive('index symbolic')
        if i >= len(its): return [(T, Panic('index out of bounds'))]
        return [(T, its[i])]


def register_maps(E):
    """BTreeMap / HashMap as association lists with a concrete number of entries (keys/values may be symbolic).
    Obj('Map', (kind, entries)) ; entries: tuple of (key, value).  Keys are assumed pairwise distinct by construction
    (insert replaces on equality).  Iteration order = list order: harnesses that depend on order constrain it."""
    model = model_decorator(E.models)
    from .core_models import deep_eq

    def d(st, v):
        return E.deref(st, v)

    MAPS = r'(?:std::collections::BTreeMap|std::collections::HashMap|std::collections::btree_map::BTreeMap|indexmap::IndexMap|serde_json::Map)'

    def mk(kind, entries):
        return Obj('Map', (kind, tuple(entries)))
    E.mk_map = mk

    def key_eq(st, a, b):
        return z3.simplify(deep_eq(E, st, a, b))

    @model(r'^' + MAPS + r'::(new|with_capacity|default)$|^<' + MAPS + r' as std::default::Default>::default$')
    def _(E, st, callee, a, m):
        kind = 'HashMap' if 'HashMap' in callee else 'BTreeMap'
        return [(T, mk(kind, ()))]

    @model(r'^' + MAPS + r'::(len|is_empty|clear)$')
    def _(E, st, callee, a, m):
        mp = d(st, a[0]); op = m.group(1)
        kind, ents = mp.data
        if op == 'len': return [(T, I(len(ents), 64))]
        if op == 'is_empty': return [(T, z3.BoolVal(len(ents) == 0))]
        def eff(st2): E.store(st2, a[0], mk(kind, ()))
        return [(T, UNIT, eff)]

    def lookup(st, mp_ref, key, want):
        """fork over which entry (if any) equals key; want in get/get_mut/contains_key/remove"""
        mp = d(st, mp_ref)
        kind, ents = mp.data
        outs = []
        none_before = T
        for i, (k, v) in enumerate(ents):
            eq = key_eq(st, k, key)
            cond = z3.simplify(z3.And(none_before, eq))
            none_before = z3.simplify(z3.And(none_before, z3.Not(eq)))
            if z3.is_false(cond):
                continue
            if want == 'contains_key':
                outs.append((cond, T))
            elif want in ('get', 'get_mut'):
                def eff(st2, i=i):
                    base = mp_ref
                    while isinstance(base, Ref):
                        nxt = E.read_ref(st2, base)
                        if isinstance(nxt, Ref): base = nxt
                        else: break
                    return some(Ref(base.frame, base.local, base.proj + (('mapval', i),)))
                outs.append((cond, None, eff))
            elif want == 'remove':
                def eff(st2, i=i):
                    E.store(st2, mp_ref, mk(kind, ents[:i] + ents[i + 1:]))
                outs.append((cond, some(v), eff))
            elif want == 'remove_entry':
                def eff(st2, i=i):
                    E.store(st2, mp_ref, mk(kind, ents[:i] + ents[i + 1:]))
                outs.append((cond, some(Tup([k, v])), eff))
        if not z3.is_false(none_before):
            outs.append((none_before, FALSE if want == 'contains_key' else NONE))
        return outs

    @model(r'^' + MAPS + r'::(get|get_mut|contains_key|remove|remove_entry)$')
    def _(E, st, callee, a, m):
        return lookup(st, a[0], a[1], m.group(1))

    @model(r'^' + MAPS + r'::insert$')
    def _(E, st, callee, a, m):
        mp = d(st, a[0])
        kind, ents = mp.data
        outs = []
        none_before = T
        for i, (k, v) in enumerate(ents):
            eq = key_eq(st, k, a[1])
            cond = z3.simplify(z3.And(none_before, eq))
            none_before = z3.simplify(z3.And(none_before, z3.Not(eq)))
            if z3.is_false(cond): continue
            def eff(st2, i=i, k=k):
                E.store(st2, a[0], mk(kind, ents[:i] + ((k, a[2]),) + ents[i + 1:]))
            outs.append((cond, some(v), eff))
        if not z3.is_false(none_before):
            def eff(st2):
                E.store(st2, a[0], mk(kind, ents + ((a[1], a[2]),)))
            outs.append((none_before, NONE, eff))
        return outs

    @model(r'^' + MAPS + r'::retain$')
    def _(E, st, callee, a, m):
        mp = d(st, a[0])
        kind, ents = mp.data
        # run the predicate on each entry in order; outcomes multiply
        acc = [(T, (), st)]
        panics = []
        for (k, v) in ents:
            nxt = []
            for c0, kept, s0 in acc:
                kr = E.root_ref(s0, k) if not isinstance(k, Str) else k
                vr = E.root_ref(s0, v)
                for cond, o in E.call_value(s0, a[1], [kr, vr]):
                    cc = z3.simplify(z3.And(c0, cond))
                    if o.kind != 'ret':
                        panics.append((cc, Panic(str(o.value)))); continue
                    v2 = E.read_ref(o.st, vr)
                    ct, cf = z3.simplify(z3.And(cc, o.value)), z3.simplify(z3.And(cc, z3.Not(o.value)))
                    if not z3.is_false(ct): nxt.append((ct, kept + ((k, v2),), o.st))
                    if not z3.is_false(cf): nxt.append((cf, kept, o.st))
            acc = nxt
        res = list(panics)
        for c, kept, s_after in acc:
            def eff(st2, kept=kept, s_after=s_after):
                st2.heap = dict(s_after.heap)
                st2.notes = s_after.notes
                for fid, fr in s_after.fmap.items():
                    if fid in st2.fmap: st2.fmap[fid].locs = dict(fr.locs)
                E.store(st2, a[0], mk(kind, kept))
            res.append((c, UNIT, eff))
        return res

    @model(r'^<&?(?:mut )?' + MAPS + r' as std::iter::IntoIterator>::into_iter$|^' + MAPS + r'::(iter|iter_mut|into_iter)$')
    def _(E, st, callee, a, m):
        mp = d(st, a[0])
        kind, ents = mp.data
        byref = callee.lstrip().startswith('<&') or (m.group(1) in ('iter', 'iter_mut'))
        hashed = kind == 'HashMap'
        if not byref:
            return E.hash_orders(E, hashed, tuple(Tup([k, v]) for k, v in ents), lambda items: Obj('SeqIter', (tuple(items), 0)))
        base = a[0]
        while isinstance(base, Ref):
            nxt = E.read_ref(st, base)
            if isinstance(nxt, Ref): base = nxt
            else: break
        items = []
        for i, (k, v) in enumerate(ents):
            kr = k if isinstance(k, Str) else Ref(base.frame, base.local, base.proj + (('mapkey', i),))
            items.append(Tup([kr, Ref(base.frame, base.local, base.proj + (('mapval', i),))]))
        return E.hash_orders(E, hashed, tuple(items), lambda items_: Obj('SeqIter', (tuple(items_), 0)))

    @model(r'^' + MAPS + r'::(keys|values|into_keys|into_values)$')
    def _(E, st, callee, a, m):
        mp = d(st, a[0]); kind, ents = mp.data
        op = m.group(1)
        seq = tuple(k for k, v in ents) if 'keys' in op else tuple(v for k, v in ents)
        return E.hash_orders(E, kind == 'HashMap', seq, lambda items: Obj('SeqIter', (tuple(items), 0)))

    @model(r'^<' + MAPS + r' as std::iter::FromIterator>::from_iter$')
    def _(E, st, callee, a, m):
        it = d(st, a[0])
        if isinstance(it, Seq): items = it.items
        elif isinstance(it, Obj) and it.kind == 'SeqIter': items = it.data[0][it.data[1]:]
        elif isinstance(it, Obj) and it.kind == 'Vec': items = it.data
        else: raise Inconclusive('from_iter of ' + repr(it))
        kind = 'HashMap' if 'HashMap' in callee else 'BTreeMap'
        ents = []
        for t in items:
            t = d(st, t)
            ents.append((t.fields[0], t.fields[1]))
        # assumes distinct keys (harness-built literals)
        return [(T, mk(kind, ents))]

    # projections into map entries
    old_project = E.project
    def project(st, fid, v, p):
        if p[0] == 'mapval':
            return v.data[1][p[1]][1]
        if p[0] == 'mapkey':
            return v.data[1][p[1]][0]
        return old_project(st, fid, v, p)
    E.project = project
    old_upd = E._upd
    def _upd(st, fid, v, proj, val):
        if proj and proj[0][0] == 'mapval':
            kind, ents = v.data
            i = proj[0][1]
            nv = E._upd(st, fid, ents[i][1], proj[1:], val) if len(proj) > 1 else val      # nested maps: recurse through this hook
            return mk(kind, ents[:i] + ((ents[i][0], nv),) + ents[i + 1:])
        return old_upd(st, fid, v, proj, val)
    E._upd = _upd


def register_indexset(E):
    """indexmap::IndexSet<T> as an ordered tuple of elements with pairwise non-equivalent keys.  Lookups fork per
    element on the element type's *real* equivalence code (`<Q as Equivalent<T>>::equivalent` / `<T as PartialEq>::eq`
    executed from the crate's MIR).  `move_index` panics out of bounds as documented."""
    model = model_decorator(E.models)

    def d(st, v):
        return E.deref(st, v)

    def mk(items):
        return Obj('IndexSet', tuple(items))
    E.mk_indexset = mk

    def base_ref(st, r):
        while isinstance(r, Ref):
            nxt = E.read_ref(st, r)
            if isinstance(nxt, Ref): r = nxt
            else: break
        return r

    def equiv(st, key, item, callee):
        """[(cond, bool z3, state)] : key equivalent to item, through the crate's own impls"""
        k = d(st, key)
        it = d(st, item)
        tn = E.type_name_of(st, it)
        if isinstance(k, Str):
            path = f'<str as indexmap::Equivalent<{tn}>>::equivalent'
            kk = k
        else:
            path = f'<{tn} as std::cmp::PartialEq>::eq'
            kk = key if isinstance(key, Ref) else E.root_ref(st, k)
        ir = item if isinstance(item, Ref) else E.root_ref(st, it)
        outs = E.call_value(st, FnItem(path), [kk, ir])
        res = []
        for cond, o in outs:
            if o.kind != 'ret':
                raise Inconclusive('element equivalence panics: ' + str(o.value))
            res.append((cond, o.value, o.st))
        return res

    def find(st, set_ref, key, callee):
        """[(cond, index | None, state)]: first element equivalent to key"""
        s0 = d(st, set_ref)
        items = s0.data
        res = []
        def rec(i, pre, st_cur):
            if i == len(items):
                res.append((pre, None, st_cur)); return
            for cond, b, s2 in equiv(st_cur, key, items[i], callee):
                ct = z3.simplify(z3.And(pre, cond, b)); cf = z3.simplify(z3.And(pre, cond, z3.Not(b)))
                if not z3.is_false(ct): res.append((ct, i, s2))
                if not z3.is_false(cf): rec(i + 1, cf, s2)
        rec(0, TRUE, st)
        return res

    def adopt(st2, s_after):
        st2.heap = dict(s_after.heap)
        st2.notes = s_after.notes
        for fid, fr in s_after.fmap.items():
            if fid in st2.fmap: st2.fmap[fid].locs = dict(fr.locs)

    @model(r'^indexmap::IndexSet::(new|default|with_capacity)$|^<indexmap::IndexSet as std::default::Default>::default$')
    def _(E, st, callee, a, m): return [(TRUE, mk(()))]

    @model(r'^indexmap::IndexSet::(len|is_empty|clear)$')
    def _(E, st, callee, a, m):
        s0 = d(st, a[0]); op = m.group(1)
        if op == 'len': return [(TRUE, I(len(s0.data), 64))]
        if op == 'is_empty': return [(TRUE, z3.BoolVal(len(s0.data) == 0))]
        def eff(st2): E.store(st2, a[0], mk(()))
        return [(TRUE, UNIT, eff)]

    @model(r'^indexmap::IndexSet::(get|get_index_of|contains|get_full|shift_remove|swap_remove|shift_remove_full)$')
    def _(E, st, callee, a, m):
        op = m.group(1)
        s0 = d(st, a[0])
        br = base_ref(st, a[0])
        outs = []
        for cond, idx, s_after in find(st, a[0], a[1], callee):
            if op == 'get':
                val = NONE if idx is None else some(Ref(br.frame, br.local, br.proj + (('setidx', idx),)))
                outs.append((cond, val, (lambda st2, s_after=s_after: adopt(st2, s_after))))
            elif op == 'get_index_of':
                outs.append((cond, NONE if idx is None else some(I(idx, 64)), (lambda st2, s_after=s_after: adopt(st2, s_after))))
            elif op == 'contains':
                outs.append((cond, z3.BoolVal(idx is not None), (lambda st2, s_after=s_after: adopt(st2, s_after))))
            elif op == 'get_full':
                val = NONE if idx is None else some(Tup([I(idx, 64), Ref(br.frame, br.local, br.proj + (('setidx', idx),))]))
                outs.append((cond, val, (lambda st2, s_after=s_after: adopt(st2, s_after))))
            elif op in ('shift_remove', 'swap_remove'):
                def eff(st2, idx=idx, s_after=s_after):
                    adopt(st2, s_after)
                    if idx is not None:
                        items = s0.data
                        if op == 'shift_remove':
                            E.store(st2, a[0], mk(items[:idx] + items[idx + 1:]))
                        else:
                            new = list(items); new[idx] = new[-1]; new.pop()
                            E.store(st2, a[0], mk(new))
                outs.append((cond, z3.BoolVal(idx is not None), eff))
            else:
                raise Inconclusive('IndexSet::' + op)
        return outs

    @model(r'^indexmap::IndexSet::(replace_full|replace|insert|insert_full)$')
    def _(E, st, callee, a, m):
        op = m.group(1)
        s0 = d(st, a[0])
        items = s0.data
        outs = []
        for cond, idx, s_after in find(st, a[0], a[1], callee):
            new_item = d(s_after, a[1]) if isinstance(a[1], Ref) else a[1]
            if idx is None:
                def eff(st2, s_after=s_after, new_item=new_item):
                    adopt(st2, s_after); E.store(st2, a[0], mk(items + (new_item,)))
                val = {'replace_full': Tup([I(len(items), 64), NONE]), 'replace': NONE, 'insert': TRUE,
                       'insert_full': Tup([I(len(items), 64), TRUE])}[op]
                outs.append((cond, val, eff))
            else:
                old = items[idx]
                if op in ('replace_full', 'replace'):
                    def eff(st2, s_after=s_after, idx=idx, new_item=new_item):
                        adopt(st2, s_after); E.store(st2, a[0], mk(items[:idx] + (new_item,) + items[idx + 1:]))
                    val = Tup([I(idx, 64), some(old)]) if op == 'replace_full' else some(old)
                    outs.append((cond, val, eff))
                else:
                    val = FALSE if op == 'insert' else Tup([I(idx, 64), FALSE])
                    outs.append((cond, val, (lambda st2, s_after=s_after: adopt(st2, s_after))))
        return outs

    @model(r'^indexmap::IndexSet::(move_index|swap_indices)$')
    def _(E, st, callee, a, m):
        s0 = d(st, a[0]); items = s0.data
        n = len(items)
        fr, to = d(st, a[1]), d(st, a[2])
        outs = []
        oob = z3.Or(z3.UGE(fr.v, n), z3.UGE(to.v, n))
        outs.append((oob, Panic(f'IndexSet::move_index: index out of bounds (len {n})')))
        for i in range(n):
            for j in range(n):
                cond = z3.And(fr.v == i, to.v == j)
                lst = list(items)
                if m.group(1) == 'move_index':
                    x = lst.pop(i); lst.insert(j, x)
                else:
                    lst[i], lst[j] = lst[j], lst[i]
                def eff(st2, lst=tuple(lst)): E.store(st2, a[0], mk(lst))
                outs.append((cond, UNIT, eff))
        return outs

    @model(r'^indexmap::IndexSet::(iter|first|last|get_index)$|^<&indexmap::IndexSet as std::iter::IntoIterator>::into_iter$')
    def _(E, st, callee, a, m):
        s0 = d(st, a[0]); items = s0.data
        br = base_ref(st, a[0])
        refs = [Ref(br.frame, br.local, br.proj + (('setidx', i),)) for i in range(len(items))]
        op = m.group(1) or 'iter'
        if op == 'iter': return [(TRUE, Obj('SeqIter', (tuple(refs), 0)))]
        if op == 'first': return [(TRUE, some(refs[0]) if refs else NONE)]
        if op == 'last': return [(TRUE, some(refs[-1]) if refs else NONE)]
        i = d(st, a[1]).conc()
        if i is None: raise Inconclusive('get_index symbolic')
        return [(TRUE, some(refs[i]) if i < len(refs) else NONE)]

    @model(r'^<indexmap::IndexSet as std::iter::IntoIterator>::into_iter$')
    def _(E, st, callee, a, m):
        s0 = d(st, a[0])
        return [(TRUE, Obj('SeqIter', (tuple(s0.data), 0)))]

    old_project = E.project
    def project(st, fid, v, p):
        if p[0] == 'setidx':
            return v.data[p[1]]
        return old_project(st, fid, v, p)
    E.project = project
    old_upd = E._upd
    def _upd(st, fid, v, proj, val):
        if proj and proj[0][0] == 'setidx':
            i = proj[0][1]
            nv = old_upd(st, fid, v.data[i], proj[1:], val) if len(proj) > 1 else val
            return mk(v.data[:i] + (nv,) + v.data[i + 1:])
        return old_upd(st, fid, v, proj, val)
    E._upd = _upd
