"""tracing: with no subscriber installed every event / span is disabled, so the macro bodies are dead code."""
import re
import z3
from ..values import *
from . import model_decorator

T = TRUE


def register(E):
    model = model_decorator(E.models)

    # tracing: no subscriber installed -> every event/span is disabled
    @model(r'^<tracing(?:_core)?::(?:metadata::)?Level as std::cmp::PartialOrd>::(le|lt|ge|gt)$')
    def _(E, st, callee, a, m):
        return [(T, FALSE)]

    @model(r'^tracing::level_filters::LevelFilter::current$|^tracing_core::metadata::LevelFilter::current$|^tracing::metadata::LevelFilter::current$')
    def _(E, st, callee, a, m): return [(T, Opaque('LevelFilter'))]

    @model(r'^tracing::(span::)?Span::(none|new|enter|entered|in_scope|record|is_disabled|current)$|^tracing::__macro_support::\w+$|^tracing::Span::new_disabled$')
    def _(E, st, callee, a, m):
        return [(T, Opaque('tracing'))]
