#!/bin/bash
# run every registered quick check on the current tree, sequentially; summary on stdout
cd /verif
for id in $(python3 -c "import json; print(' '.join(c['property_id'] for c in json.load(open('MANIFEST.json'))['checks']))"); do
  if [ -n "${ONLY:-}" ] && [[ " $ONLY " != *" $id "* ]]; then continue; fi
  start=$(date +%s)
  ./check $id --tier quick > /tmp/quick_$id.log 2>&1
  rc=$?
  echo "$id rc=$rc $(( $(date +%s) - start ))s $(tail -1 /tmp/quick_$id.log | cut -c1-120)"
done
