"""percent-encoding crate (percent_encode / percent_decode_str / AsciiSet) and the str splitting iterators used by
the URI code.  Byte-level definitions from the crates' documentation (WHATWG URL percent-encoding):
  encode: a byte b is written as "%XX" (upper-case hex) iff b >= 0x80 or b is in the set, else as itself;
  decode: "%" followed by two hex digits becomes that byte, every other byte is copied."""
import re
import z3
from ..values import *
from . import model_decorator
from .str_models import cap, sub, ascii_hexdigit, positions, in_window, concat, str_eq, match_at

T = TRUE


def hexval(b):
    return z3.If(z3.ULE(b, 57), b - 48, z3.If(z3.ULE(b, 70), b - 55, b - 87))


def hexdig_upper(n):
    """n: BV8 in 0..15 -> ASCII upper-case hex digit"""
    return z3.If(z3.ULT(n, 10), n + 48, n + 55)


def register(E):
    model = model_decorator(E.models)

    def d(st, v):
        return E.deref(st, v)

    # ---- AsciiSet as a python frozenset of byte values
    E.const_models = getattr(E, 'const_models', {})
    E.const_models['percent_encoding::CONTROLS'] = Obj('AsciiSet', frozenset(list(range(0x20)) + [0x7F]))
    E.const_models['percent_encoding::NON_ALPHANUMERIC'] = Obj('AsciiSet', frozenset(b for b in range(0x80) if not chr(b).isalnum()))

    @model(r'^percent_encoding::AsciiSet::(add|remove|contains|union)$')
    def _(E, st, callee, a, m):
        s0 = d(st, a[0]); op = m.group(1)
        if op == 'union':
            return [(T, Obj('AsciiSet', s0.data | d(st, a[1]).data))]
        b = d(st, a[1]).conc()
        if b is None:
            if op == 'contains':
                x = d(st, a[1]).v
                return [(T, z3.Or(*[x == k for k in sorted(s0.data)]))]
            raise Inconclusive('AsciiSet::' + op + ' with a symbolic byte')
        if op == 'add': return [(T, Obj('AsciiSet', s0.data | {b}))]
        if op == 'remove': return [(T, Obj('AsciiSet', s0.data - {b}))]
        return [(T, z3.BoolVal(b in s0.data))]

    def in_set(aset, b):
        return z3.Or(z3.UGE(b, 0x80), *[b == k for k in sorted(aset)])

    def encode(E, s, aset):
        """Str of the percent-encoded form of Str s"""
        c = s.conc()
        if c is not None:
            out = bytearray()
            for ch in c:
                out += (b'%%%02X' % ch) if (ch >= 0x80 or ch in aset) else bytes([ch])
            return E.const_str(bytes(out))
        n = cap(E, s)
        # start offset q_k of input byte k in the output, then every output position j as an if-then-else over k
        # (stores at constant indices only: cheap for the array theory)
        qs, q = [], bv(0)
        for k in range(n):
            qs.append(q)
            b = s.at(k)
            q = z3.If(in_window(k, s), z3.If(in_set(aset, b), q + 3, q + 1), q)
        total = q
        arr = z3.K(BV64, z3.BitVecVal(0, 8))
        elems = []
        for j in range(3 * n):
            e = z3.BitVecVal(0, 8)
            for k in range(min(j, n - 1), -1, -1):
                if 3 * k < j - 2 and False:
                    continue
                b = s.at(k)
                enc = in_set(aset, b)
                hi, lo = hexdig_upper(z3.LShR(b, 4)), hexdig_upper(b & 0x0F)
                at0, at1, at2 = qs[k] == j, qs[k] + 1 == j, qs[k] + 2 == j
                piece = z3.If(at0, z3.If(enc, z3.BitVecVal(37, 8), b), z3.If(at1, hi, lo))
                hit = z3.And(in_window(k, s), z3.Or(at0, z3.And(enc, z3.Or(at1, at2))))
                e = z3.If(hit, piece, e)
            e = z3.simplify(e)
            elems.append(e)
            if s.elems is None:
                arr = z3.Store(arr, bv(j), e)
        return Str(arr, bv(0), total, True, 3 * n, None, 3 * n, elems if s.elems is not None else None)

    def decode(E, s):
        """(Str decoded bytes)"""
        c = s.conc()
        if c is not None:
            out, i = bytearray(), 0
            hexd = b'0123456789abcdefABCDEF'
            while i < len(c):
                if c[i] == 37 and i + 2 < len(c) + 0 and i + 2 <= len(c) - 1 and c[i + 1] in hexd and c[i + 2] in hexd:
                    out.append(int(c[i + 1:i + 3], 16)); i += 3
                else:
                    out.append(c[i]); i += 1
            return E.const_str(bytes(out), False)
        n = cap(E, s)
        arr = z3.K(BV64, z3.BitVecVal(0, 8))
        p = bv(0)          # read pointer
        outlen = bv(0)
        elems = []
        for k in range(n):
            live = z3.ULT(p, s.ln)
            b0, b1, b2 = s.at(p), s.at(p + 1), s.at(p + 2)
            esc = z3.And(b0 == 37, z3.ULT(p + 2, s.ln), ascii_hexdigit(b1), ascii_hexdigit(b2))
            val = z3.simplify(z3.If(live, z3.If(esc, (hexval(b1) << 4) | hexval(b2), b0), z3.BitVecVal(0, 8)))
            elems.append(val)
            if s.elems is None:
                arr = z3.Store(arr, bv(k), val)
            outlen = z3.If(live, bv(k + 1), outlen)
            p = z3.If(live, z3.If(esc, p + 3, p + 1), p)
        return Str(arr, bv(0), outlen, False, n, None, n, elems if s.elems is not None else None)
    E.pct_encode, E.pct_decode = encode, decode

    @model(r'^percent_encoding::(percent_encode|utf8_percent_encode)$')
    def _(E, st, callee, a, m):
        s = E.as_str(st, a[0]); aset = d(st, a[1])
        return [(T, Obj('PercentEncode', (s, aset.data)))]

    @model(r'^<percent_encoding::PercentEncode as std::string::ToString>::to_string$|^<percent_encoding::PercentEncode as std::fmt::Display>::fmt$|^<percent_encoding::PercentEncode as std::convert::Into>::into$|^<std::borrow::Cow as std::convert::From>::from$')
    def _(E, st, callee, a, m):
        pe = d(st, a[0])
        if not (isinstance(pe, Obj) and pe.kind == 'PercentEncode'):
            return None
        enc = encode(E, pe.data[0], pe.data[1])
        if callee.strip().endswith('::fmt'):
            f = d(st, a[1])
            if isinstance(f, Obj) and f.kind == 'StrFormatter':
                new = Obj('StrFormatter', (concat(E, [f.data[0], enc]),))
                def eff(st2): E.store(st2, a[1], new)
                return [(T, ok(UNIT), eff)]
            return [(T, ok(UNIT))]
        if 'Cow' in callee:
            return [(T, Adt('std::borrow::Cow', 'Owned', [Obj('String', enc)]))]
        return [(T, Obj('String', enc))]

    @model(r'^percent_encoding::percent_decode_str$|^percent_encoding::percent_decode$')
    def _(E, st, callee, a, m):
        return [(T, Obj('PercentDecode', (E.as_str(st, a[0]),)))]

    @model(r'^percent_encoding::PercentDecode::(decode_utf8|decode_utf8_lossy)$|^<percent_encoding::PercentDecode as std::convert::Into>::into$|^<std::borrow::Cow as std::convert::From>::from$')
    def _(E, st, callee, a, m):
        pd = d(st, a[0])
        if not (isinstance(pd, Obj) and pd.kind == 'PercentDecode'):
            return None
        dec = decode(E, pd.data[0])
        if m.group(1) == 'decode_utf8':
            from ..engine import utf8_wf
            wf = z3.And(*utf8_wf(dec, cap(E, dec)))
            good = Str(dec.base, dec.off, dec.ln, True, dec.cap, dec.cbytes, dec.abs_cap, dec.elems)
            return [(wf, ok(Adt('std::borrow::Cow', 'Owned', [Obj('String', good)]))), (z3.Not(wf), err(Opaque('Utf8Error')))]
        raise Inconclusive('PercentDecode::' + str(m.group(1)))

    # ---- str::matches(pat).count(), str::split(pat)
    @model(r'^core::str::<impl str>::(matches|split|rsplit|splitn|split_terminator)$')
    def _(E, st, callee, a, m):
        s = E.as_str(st, a[0]); op = m.group(1)
        p = d(st, a[1])
        if isinstance(p, I):
            c = p.conc()
            if c is None or c >= 0x80:
                raise Inconclusive('str::' + op + ' with a symbolic / non-ASCII char')
            pat = bytes([c])
        elif isinstance(p, Str) and p.conc() is not None and len(p.conc()) >= 1:
            pat = p.conc()
        else:
            raise Inconclusive('str::' + op + ' pattern ' + repr(p))
        if op == 'matches':
            return [(T, Obj('StrMatches', (s, pat)))]
        if op == 'split':
            return [(T, Obj('StrSplit', (s, pat, False)))]
        raise Inconclusive('str::' + op)

    @model(r'^<std::str::Matches as std::iter::Iterator>::(count)$')
    def _(E, st, callee, a, m):
        it = d(st, a[0]); s, pat = it.data
        n = cap(E, s)
        if len(pat) != 1:
            raise Inconclusive('matches().count() with a multi-byte pattern')
        cnt = bv(0)
        for gd, b, _ in positions(E, s):
            cnt = cnt + z3.If(z3.And(gd, b == pat[0]), bv(1), bv(0))
        return [(T, I(cnt, 64))]

    @model(r'^<std::str::Split as std::iter::Iterator>::(next|count|last)$|^<std::str::Split as std::iter::DoubleEndedIterator>::next_back$')
    def _(E, st, callee, a, m):
        it = d(st, a[0]); s, pat, done = it.data
        op = m.group(1) or 'next_back'
        if op != 'next':
            raise Inconclusive('Split::' + op)
        if done:
            return [(T, NONE)]
        from .str_models import find_pred
        L = len(pat)
        if L == 1:
            outs = find_pred(E, s, lambda i: s.at(i) == pat[0], byte_pred=lambda b: b == pat[0])
        else:
            outs = find_pred(E, s, lambda i: match_at(E, s, i, E.const_str(pat)))
        res = []
        for cond, v in outs:
            if v.variant == 'Some':
                r = v.fields[0].v
                piece = sub(s, bv(0), r)
                rest = sub(s, r + L, s.ln - r - L)
                def eff(st2, rest=rest): E.store(st2, a[0], Obj('StrSplit', (rest, pat, False)))
                res.append((cond, some(piece), eff))
            else:
                def eff(st2): E.store(st2, a[0], Obj('StrSplit', (s, pat, True)))
                res.append((cond, some(s), eff))
        return res
