"""Run Kani proof harnesses of /verif/kani (path deps on /repo: rebuilt from the current tree on every run) and
turn the results into the common verdict plumbing."""
import os, re, subprocess, time, shutil, json
from common import *

KANI_DIR = os.path.join(VERIF, 'kani')


def run_harness(h, timeout_s, extra_args=(), rustflags='--cfg ruma_verif'):
    tgt = os.path.join(CACHE, 'kani-target')
    env = dict(os.environ, CARGO_NET_OFFLINE='true')
    env['RUSTFLAGS'] = rustflags
    cmd = ['cargo', 'kani', '--harness', h, '--target-dir', tgt] + list(extra_args)
    t = time.time()
    try:
        r = subprocess.run(cmd, cwd=KANI_DIR, env=env, capture_output=True, text=True, timeout=timeout_s)
        out = r.stdout + '\n' + r.stderr
        rc = r.returncode
    except subprocess.TimeoutExpired as e:
        out = (e.stdout or b'').decode(errors='replace') if isinstance(e.stdout, bytes) else (e.stdout or '')
        subprocess.run(['pkill', '-9', 'cbmc'])
        return {'harness': h, 'status': 'timeout', 's': round(time.time() - t, 1), 'out': out[-3000:]}
    dt = round(time.time() - t, 1)
    res = {'harness': h, 's': dt, 'rc': rc}
    m = re.search(r'^VERIFICATION:- (\w+)', out, re.M)
    res['status'] = m.group(1).lower() if m else 'error'
    res['failed_checks'] = re.findall(r'^Failed Checks: (.*)$', out, re.M)
    covers = re.findall(r'Check \d+: \S*cover\.\d+\s*\n\s*- Status: (\w+)\s*\n\s*- Description: "(.*?)"', out)
    res['covers'] = [{'status': s, 'desc': d} for s, d in covers]
    m = re.search(r'Verification Time: ([\d.]+)s', out)
    res['solver_s'] = float(m.group(1)) if m else None
    m = re.search(r'\*\* (\d+) of (\d+) failed', out)
    res['checks_total'] = int(m.group(2)) if m else None
    res['unwind_failed'] = bool(re.search(r'unwinding assertion', ' '.join(res['failed_checks'])))
    if res['status'] not in ('successful', 'failed'):
        res['out'] = out[-3000:]
    else:
        res['out'] = out[-1500:] if res['status'] == 'failed' else ''
    return res


def prepare():
    """the harness crate resolves its dependencies with /repo's lockfile"""
    import fcntl
    os.makedirs(CACHE, exist_ok=True)
    with open(os.path.join(CACHE, 'kani.lock'), 'w') as lf:
        fcntl.flock(lf, fcntl.LOCK_EX)
        shutil.copyfile(os.path.join(REPO, 'Cargo.lock'), os.path.join(KANI_DIR, 'Cargo.lock'))


def kani_check(C, harnesses, timeout_s=900, playback=True):
    """harnesses: [(name, description, bound text)].  A failed harness is a solver counterexample over the compiled
    code; it is reported as a VIOLATION after concrete playback of the counterexample (the replay file holds the
    generated unit test)."""
    prepare()
    for h, desc, bound in harnesses:
        r = run_harness(h, timeout_s)
        C.queries.append({'name': f'kani:{h}', 'result': r['status'], 's': r['s'], 'cbmc_s': r.get('solver_s'), 'checks': r.get('checks_total')})
        C.bounds[h] = bound
        C.stats['paths'] += 1
        C.stats['steps'] += r.get('checks_total') or 1
        C.stats['solver_s'] += r.get('solver_s') or 0
        C.functions[f'kani::{h}'] = desc
        if r['status'] == 'successful':
            unsat_cov = [c for c in r['covers'] if c['status'] != 'SATISFIED']
            if unsat_cov:
                C.inconclusive.append(f'{h}: reachability witness not satisfied (vacuous harness?): {unsat_cov}')
            C.samples.append({'harness': h, 'verdict': 'no assertion can fail within the bound', 'bound': bound,
                              'covers': r['covers'], 'cbmc_s': r.get('solver_s')})
            continue
        if r['status'] == 'failed':
            if r['unwind_failed'] and all('unwinding' in f for f in r['failed_checks']):
                C.inconclusive.append(f'{h}: unwinding bound too small: {r["failed_checks"]}')
                continue
            vec = {'harness': h, 'failed_checks': r['failed_checks']}
            if playback:
                pb = concrete_playback(h)
                vec['playback'] = pb
                C.native_runs += 1
                if pb.get('reproduced') is False:
                    C.inconclusive.append(f'{h}: Kani counterexample does not reproduce under concrete playback: {pb}')
                    continue
            C.report_violation(f'kani harness {h} ({desc}) fails: {r["failed_checks"]}', vec)
            C.samples.append({'harness': h, 'counterexample': vec})
            continue
        C.inconclusive.append(f'{h}: kani status {r["status"]} after {r["s"]}s: {r.get("out", "")[-600:]}')


def concrete_playback(h):
    """Replay: Kani writes the counterexample as a unit test (inplace, in a scratch copy of the harness crate) and
    `cargo kani playback` runs it against the natively compiled code (dev profile).  reproduced = the test fails."""
    scratch = os.path.join(CACHE, f'kani-playback-{os.getpid()}')
    shutil.rmtree(scratch, ignore_errors=True)
    shutil.copytree(KANI_DIR, scratch, ignore=shutil.ignore_patterns('target'))
    env = dict(os.environ, CARGO_NET_OFFLINE='true', RUSTFLAGS='--cfg ruma_verif')
    tgt = os.path.join(CACHE, 'kani-target')
    try:
        r = subprocess.run(['cargo', 'kani', '--harness', h, '--target-dir', tgt, '-Z', 'concrete-playback',
                            '--concrete-playback=inplace'], cwd=scratch, env=env, capture_output=True, text=True, timeout=1800)
        src = ''
        for f in os.listdir(os.path.join(scratch, 'src')):
            t = open(os.path.join(scratch, 'src', f)).read()
            if 'kani_concrete_playback' in t:
                src = t
        m = re.search(r'(#\[test\]\s*fn kani_concrete_playback.*?\n    }\n)', src, re.S)
        test = m.group(1) if m else ''
        if not test:
            return {'reproduced': None, 'note': 'no playback test generated'}
        env2 = dict(env, CARGO_TARGET_DIR=os.path.join(CACHE, 'kani-playback-target'))
        r2 = subprocess.run(['cargo', 'kani', 'playback', '-Z', 'concrete-playback', '--', 'kani_concrete_playback'],
                            cwd=scratch, env=env2, capture_output=True, text=True, timeout=1800)
        out = r2.stdout + r2.stderr
        failed = bool(re.search(r'test result: FAILED|panicked at', out))
        passed = bool(re.search(r'test result: ok', out)) and not failed
        return {'reproduced': True if failed else (False if passed else None), 'test': test[:2500], 'playback_tail': out[-800:]}
    finally:
        shutil.rmtree(scratch, ignore_errors=True)
