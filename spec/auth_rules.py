"""Oracle for C08: the authorization rules of the Matrix specification (Server-Server API "Authorization rules" and the
room version pages v1..v11), transcribed as one z3 predicate over the symbolic world of checks/authsym.py.
Rule numbers refer to the room version 11 text; version differences are noted where they apply.

`accepts(w, v)` returns (accept, applicable): `applicable` delimits the part of the input space the claim is about
(well-formed *state*; the incoming event may be arbitrary).  Where the specification is silent (malformed state
contents, rooms without a join-rules event) the scenario is outside the claim rather than guessed."""
import z3

MEMBERSHIPS = ['join', 'invite', 'leave', 'ban', 'knock']
JOIN_RULES = ['public', 'invite', 'knock', 'restricted', 'knock_restricted']
DEFAULTS = {'users_default': 0, 'events_default': 0, 'state_default': 50, 'ban': 50, 'redact': 50, 'kick': 50, 'invite': 0}

ASSUMPTIONS = [
    'world (authsym.py): user ids @<a-d>:<x-y>; roles sender / target / creator / create-event sender / authorising user with symbolic equalities; '
    'memberships of sender, target, authorising user and "other" in {absent, join, invite, leave, ban, knock, other string}; join rule in '
    '{public, invite, knock, restricted, knock_restricted, other string}; power-level event present or absent, each integer field absent / integer / '
    'string-typed integer with a symbolic 54-bit value; `users` entries for the four roles, `events` entries for the event type and one other type',
    'claim restricted to well-formed state (create event with its creator / m.federate fields typed correctly, state member / join-rules / power-level '
    'contents typed correctly, no string-typed power levels in state from v10, a join-rules event exists when the join rule is consulted); the incoming '
    'event content may be malformed',
    'outside the claim: m.room.member invites carrying `third_party_invite` (signature verification), m.room.create itself, error messages '
    '(an incoming m.room.power_levels event is covered by the two power_levels families)',
    'below the seam (library models): serde_json parsing of event contents, RoomPowerLevelsEvent::{get_as_int, get_as_int_map, users}, Event trait accessors, tracing',
]


def V(version):
    return {'aliases_special': version <= 5, 'redaction_special': version <= 2, 'knocking': version >= 7, 'restricted': version >= 8,
            'knock_restricted': version >= 10, 'integer_pl': version >= 10, 'create_sender': version >= 11}


def is_m(f, name):
    return z3.And(f.ok(), f.v == MEMBERSHIPS.index(name))


def is_jr(f, name):
    return z3.And(f.ok(), f.v == JOIN_RULES.index(name))


def level(w, name):
    f = w.pl['ints'][name]
    return z3.If(z3.And(w.pl_present, f.ok()), f.v, z3.BitVecVal(DEFAULTS[name], 64))


def creator_of(w, v):
    return w.create_sender if V(v)['create_sender'] else w.creator


def users_entry(w, role):
    return [e for e in w.pl['users']['entries'] if e['name'] == role][0]


def user_level(w, v, user, roles):
    """power level of `user`, a SymUser; roles: list of (role name, SymUser) with entries in the users map"""
    cr = creator_of(w, v)
    no_pl = z3.If(user.eq(cr), z3.BitVecVal(100, 64), z3.BitVecVal(0, 64))
    lvl = level(w, 'users_default')
    has_map = w.pl['users']['tag'] == 1
    for rname, ruser in reversed(roles):
        e = users_entry(w, rname)
        lvl = z3.If(z3.And(has_map, e['present'], user.eq(ruser)), e['v'], lvl)
    return z3.If(w.pl_present, lvl, no_pl)


def membership_of(w, user):
    """Field-like accessor (is membership X?) of `user` in the state, by role order sender, target, authoriser, other"""
    def has(name):
        r = is_m(w.member['other'], name)
        for role, ru in (('auth', w.authoriser), ('target', w.target), ('sender', w.sender)):
            r = z3.If(user.eq(ru), is_m(w.member[role], name), r)
        return r
    return has


def accepts(w, v):
    R = V(v)
    roles = [('sender', w.sender), ('target', w.target), ('authoriser', w.authoriser), ('creator', w.creator)]
    S, T, A = w.sender, w.target, w.authoriser
    mS, mT, mA = membership_of(w, S), membership_of(w, T), membership_of(w, A)
    plS, plT, plA = user_level(w, v, S, roles), user_level(w, v, T, roles), user_level(w, v, A, roles)
    kind = w.kind
    # ---------------- applicability (well-formed state)
    app = [w.federate.tag != 2]
    if not R['create_sender']:
        app.append(w.creator_field.ok())
    for role in ('sender', 'target', 'auth', 'other'):
        app.append(w.member[role].tag != 2)
    app.append(z3.Not(w.pl['malformed']))
    for f in w.pl['ints'].values():
        app.append(f.tag != 2)
        if R['integer_pl']:
            app.append(z3.Not(z3.And(f.ok(), f.is_str)))
    for mp in ('users', 'events', 'notifications'):
        app.append(w.pl[mp]['tag'] != 2)
        if R['integer_pl']:
            for e in w.pl[mp]['entries']:
                app.append(z3.Not(z3.And(e['present'], e['is_str'])))
    # a map has one value per key: entries of coinciding roles are the same entry
    ents = {e['name']: e for e in w.pl['users']['entries']}
    rl = dict(roles)
    names = list(ents)
    for i in range(len(names)):
        for j in range(i + 1, len(names)):
            a, b = ents[names[i]], ents[names[j]]
            same = rl[names[i]].eq(rl[names[j]])
            app.append(z3.Implies(same, z3.And(a['present'] == b['present'], a['v'] == b['v'], a['is_str'] == b['is_str'])))
    # memberships of coinciding roles are the same state entry
    mroles = [('sender', S), ('target', T), ('auth', A)]
    for i in range(3):
        for j in range(i + 1, 3):
            a, b = w.member[mroles[i][0]], w.member[mroles[j][0]]
            app.append(z3.Implies(mroles[i][1].eq(mroles[j][1]), z3.And(a.tag == b.tag, a.v == b.v)))
    app.append(w.join_rule.tag != 2)

    # ---------------- rules common to every non-create event
    # 2/3: the create event must be in the state and among the auth events
    pre = [w.create_present, w.create_in_auth]
    # 3.x: m.federate false and sender domain differs from the create event's sender domain -> reject
    pre.append(z3.Not(z3.And(w.federate.ok(), z3.Not(w.federate.v), z3.Not(S.same_server(w.create_sender)))))
    pre = z3.And(*pre)

    sk = w.state_key_kind
    has_state_key = sk != 0
    if kind == 'member':
        ok = member_rules(w, v, R, mS, mT, mA, plS, plT, plA, app)
        return z3.And(pre, ok), z3.And(*app)
    if kind == 'aliases' and R['aliases_special']:
        # v1-v5 rule 4: state_key must be the sender's server name, then allow
        return z3.And(pre, sk == 4), z3.And(*app)
    # 5: sender must be joined
    rest = [mS('join')]
    if kind == 'third_party_invite':
        # 6: allow iff sender's level >= invite level
        rest.append(plS >= level(w, 'invite'))
        return z3.And(pre, *rest), z3.And(*app)
    # 7: required power level for the event type
    ev_entry = w.pl['events']['entries'][0]
    dflt = z3.If(has_state_key, level(w, 'state_default'), level(w, 'events_default'))
    need = z3.If(z3.And(w.pl_present, w.pl['events']['tag'] == 1, ev_entry['present']), ev_entry['v'], dflt)
    rest.append(plS >= need)
    # 8: a state_key starting with '@' must be the sender
    rest.append(z3.Not(z3.And(sk == 2, z3.Not(T.eq(S)))))
    rest.append(sk != 3)
    if kind == 'power_levels':
        w.oracle = {'prefix': z3.And(pre, *rest), 'plS': plS, 'R': R}      # for the compositional split of rule 9 (see c08.py)
        rest.append(power_levels_rules(w, v, R, plS, app))
    if kind == 'redaction' and R['redaction_special']:
        # v1-v2 rule: allow if level >= redact level, or the redacted event id has the redaction's domain
        rest.append(z3.Or(plS >= level(w, 'redact'), w.redacts_same_server))
    return z3.And(pre, *rest), z3.And(*app)


def power_levels_rules(w, v, R, plS, app, cur_present=None):
    """rule 9 (m.room.power_levels): content validation, then every added / changed / removed entry is compared with
    the sender's current level.  `cur` = the power-levels event in the state, `new` = the incoming content."""
    cur, new = w.pl, w.pl_new
    conds = []
    # 9.1/9.2: well-typed content.  Malformed JSON types reject; string-typed integers are accepted before v10 only.
    valid = [z3.Not(new['malformed'])]
    for f in new['ints'].values():
        valid.append(f.tag != 2)
        if R['integer_pl']:
            valid.append(z3.Not(z3.And(f.ok(), f.is_str)))
    for mp in ('users', 'events', 'notifications'):
        valid.append(new[mp]['tag'] != 2)
        if R['integer_pl']:
            for e in new[mp]['entries']:
                valid.append(z3.Not(z3.And(new[mp]['tag'] == 1, e['present'], e['is_str'])))
    # a map has one value per key (coinciding roles share their entry)
    roles = {'sender': w.sender, 'target': w.target, 'authoriser': w.authoriser, 'creator': w.creator}
    ents = {e['name']: e for e in new['users']['entries']}
    names = list(ents)
    for i in range(len(names)):
        for j in range(i + 1, len(names)):
            x, y = ents[names[i]], ents[names[j]]
            app.append(z3.Implies(roles[names[i]].eq(roles[names[j]]), z3.And(x['present'] == y['present'], x['v'] == y['v'], x['is_str'] == y['is_str'])))
    # 9.3: no current power levels -> allow
    checks = []
    # 9.4: the seven integer properties
    for n in cur['ints']:
        c, nw = cur['ints'][n], new['ints'][n]
        same = z3.Or(z3.And(c.absent(), nw.absent()), z3.And(c.ok(), nw.ok(), c.v == nw.v))
        cv = z3.If(c.ok(), c.v, z3.BitVecVal(DEFAULTS[n], 64))
        nv = z3.If(nw.ok(), nw.v, z3.BitVecVal(DEFAULTS[n], 64))
        checks.append(z3.Or(same, z3.And(cv <= plS, nv <= plS)))

    def map_checks(which, own_entry_rule):
        cm, nm = cur[which], new[which]
        out = []
        for ce, ne in zip(cm['entries'], nm['entries']):
            cp = z3.And(cm['tag'] == 1, ce['present'])
            np_ = z3.And(nm['tag'] == 1, ne['present'])
            same = z3.Or(z3.And(z3.Not(cp), z3.Not(np_)), z3.And(cp, np_, ce['v'] == ne['v']))
            cur_bad = z3.And(cp, own_entry_rule(ce, ne))
            new_bad = z3.And(np_, ne['v'] > plS)
            out.append(z3.Or(same, z3.And(z3.Not(cur_bad), z3.Not(new_bad))))
        return out
    # 9.5 events: changed / removed entries with a current value above the sender's level, new values above it
    checks += map_checks('events', lambda ce, ne: ce['v'] > plS)
    # 9.6 (v6+) notifications
    if v >= 6:
        checks += map_checks('notifications', lambda ce, ne: ce['v'] > plS)
    # 9.7 users: other users' entries at or above the sender's level cannot be changed or removed
    def users_rule(ce, ne):
        owner = roles[ce['name']]
        return z3.And(z3.Not(owner.eq(w.sender)), ce['v'] >= plS)
    checks += map_checks('users', users_rule)
    cur_present = w.pl_present if cur_present is None else z3.BoolVal(cur_present)
    return z3.And(z3.And(*valid), z3.Or(z3.Not(cur_present), z3.And(*checks)))


def member_rules(w, v, R, mS, mT, mA, plS, plT, plA, app):
    S, T, A = w.sender, w.target, w.authoriser
    em = w.ev_membership
    sk = w.state_key_kind
    # 4.1: no state_key (or one that is not a user id), or no membership in content -> reject
    wf = z3.And(sk == 2, em.ok())
    cr = creator_of(w, v)
    jr = w.join_rule
    # the join rule is consulted for join and knock: a room without a join-rules event is outside the claim
    app.append(z3.Implies(z3.Or(is_m(em, 'join'), is_m(em, 'knock')), w.join_rules_present))
    # third-party invites are outside the claim
    app.append(z3.Implies(is_m(em, 'invite'), w.ev_tpi.absent()))
    app.append(w.ev_authorised_via.tag != 2)
    # ---- join
    first = z3.And(w.prev_only_create, T.eq(cr))
    invite_like = z3.Or(is_jr(jr, 'invite'), z3.And(z3.BoolVal(R['knocking']), is_jr(jr, 'knock')))
    restricted_like = z3.Or(z3.And(z3.BoolVal(R['restricted']), is_jr(jr, 'restricted')), z3.And(z3.BoolVal(R['knock_restricted']), is_jr(jr, 'knock_restricted')))
    in_or_invited = z3.Or(mT('join'), mT('invite'))
    via_ok = z3.And(w.ev_authorised_via.ok(), mA('join'), plA >= level(w, 'invite'))
    join = z3.Or(first,
                 z3.And(S.eq(T), z3.Not(mT('ban')),
                        z3.Or(z3.And(invite_like, in_or_invited),
                              z3.And(z3.Not(z3.And(invite_like, in_or_invited)), restricted_like, z3.Or(in_or_invited, via_ok)),
                              z3.And(z3.Not(z3.And(invite_like, in_or_invited)), z3.Not(restricted_like), is_jr(jr, 'public')))))
    # ---- invite (no third_party_invite)
    invite = z3.And(mS('join'), z3.Not(mT('join')), z3.Not(mT('ban')), plS >= level(w, 'invite'))
    # ---- leave
    self_leave = z3.Or(mS('join'), mS('invite'), z3.And(z3.BoolVal(R['knocking']), mS('knock')))
    kick = z3.And(mS('join'), z3.Not(z3.And(mT('ban'), plS < level(w, 'ban'))), plS >= level(w, 'kick'), plT < plS)
    leave = z3.If(S.eq(T), self_leave, kick)
    # ---- ban
    ban = z3.And(mS('join'), plS >= level(w, 'ban'), plT < plS)
    # ---- knock (v7+)
    knock_rule = z3.Or(is_jr(jr, 'knock'), z3.And(z3.BoolVal(R['knock_restricted']), is_jr(jr, 'knock_restricted')))
    knock = z3.And(z3.BoolVal(R['knocking']), knock_rule, S.eq(T), z3.Not(mS('ban')), z3.Not(mS('invite')), z3.Not(mS('join')))
    verdict = z3.If(is_m(em, 'join'), join, z3.If(is_m(em, 'invite'), invite, z3.If(is_m(em, 'leave'), leave, z3.If(is_m(em, 'ban'), ban,
              z3.If(is_m(em, 'knock'), knock, z3.BoolVal(False))))))
    return z3.And(wf, verdict)


# ------------------------------------------------------------------------------------------------ concretisation
def concretise(w, m, version):
    """JSON PDUs of the scenario under model m (request for the native replayer)"""
    ev = lambda t: m.eval(t, model_completion=True)
    tv = lambda t: z3.is_true(ev(t))
    iv = lambda t: ev(t).as_long()

    def sint(t):
        x = ev(t).as_long()
        return x - (1 << 64) if x >= (1 << 63) else x
    users = {n: getattr(w, n).value(m) for n in ('sender', 'target', 'creator', 'create_sender', 'authoriser')}
    state = []

    def fld(f):
        return iv(f.tag)
    if tv(w.create_present):
        c = {}
        if fld(w.creator_field) == 1: c['creator'] = users['creator']
        elif fld(w.creator_field) == 2: c['creator'] = 5
        if fld(w.federate) == 1: c['m.federate'] = tv(w.federate.v)
        elif fld(w.federate) == 2: c['m.federate'] = 'yes'
        state.append({'type': 'm.room.create', 'state_key': '', 'sender': users['create_sender'], 'content': c, 'event_id': '$c:x'})

    def mval(f):
        if fld(f) == 0: return None
        if fld(f) == 2: return {'membership': 7}
        i = iv(f.v)
        return {'membership': MEMBERSHIPS[i] if i < len(MEMBERSHIPS) else 'custom'}
    seen = set()
    for role, u in (('sender', 'sender'), ('target', 'target'), ('auth', 'authoriser')):
        if users[u] in seen: continue
        seen.add(users[u])
        c = mval(w.member[role])
        if c is not None:
            state.append({'type': 'm.room.member', 'state_key': users[u], 'sender': users[u], 'content': c, 'event_id': '$o:x'})
    if tv(w.join_rules_present):
        f = w.join_rule
        c = {}
        if fld(f) == 1:
            i = iv(f.v); c['join_rule'] = JOIN_RULES[i] if i < len(JOIN_RULES) else 'private'
        elif fld(f) == 2: c['join_rule'] = 3
        state.append({'type': 'm.room.join_rules', 'state_key': '', 'sender': users['creator'], 'content': c, 'event_id': '$o:x'})
    kind = w.kind
    etype = {'member': 'm.room.member', 'message': 'm.room.message', 'state': 'm.room.topic', 'aliases': 'm.room.aliases', 'redaction': 'm.room.redaction',
             'third_party_invite': 'm.room.third_party_invite', 'power_levels': 'm.room.power_levels', 'create': 'm.room.create'}[kind]
    if tv(w.pl_present):
        c = pl_content_json(w.pl, users, etype, tv, iv, sint)
        state.append({'type': 'm.room.power_levels', 'state_key': '', 'sender': users['creator'], 'content': c, 'event_id': '$o:x'})
    skk = iv(w.state_key_kind)
    state_key = {0: None, 1: '', 2: users['target'], 3: '@zz', 4: users['sender'].split(':')[1], 5: 'q'}[skk]
    content = {}
    if kind == 'member':
        c = mval(w.ev_membership)
        content = c or {}
        if fld(w.ev_authorised_via) == 1: content['join_authorised_via_users_server'] = users['authoriser']
        elif fld(w.ev_authorised_via) == 2: content['join_authorised_via_users_server'] = 5
        if fld(w.ev_tpi) == 1:
            tk = iv(w.ev_tpi_token) if hasattr(w, 'ev_tpi_token') else 1
            signed = {'mxid': users['target'], 'signatures': {}}
            if tk == 1: signed['token'] = 't'
            elif tk == 2: signed['token'] = 5
            content['third_party_invite'] = {'signed': signed}
        elif fld(w.ev_tpi) == 2: content['third_party_invite'] = 5
    if kind == 'power_levels':
        content = pl_content_json(w.pl_new, users, etype, tv, iv, sint)
    incoming = {'type': etype, 'sender': users['sender'], 'content': content, 'event_id': '$e:x',
                'auth_events': ['$c:x'] if tv(w.create_in_auth) else ['$o:x'],
                'prev_events': ['$c:x'] if tv(w.prev_only_create) else ['$o:x', '$c:x']}
    if state_key is not None:
        incoming['state_key'] = state_key
    if kind == 'redaction':
        incoming['redacts'] = '$z:x' if tv(w.redacts_same_server) else '$z:w'
    summary = {'version': version, 'incoming': incoming, 'state': [{k: s[k] for k in ('type', 'state_key', 'sender', 'content')} for s in state]}
    return {'op': 'c08:auth', 'version': str(version), 'incoming': incoming, 'state': state, 'summary': summary}


def pl_content_json(pl, users, etype, tv, iv, sint):
    if tv(pl['malformed']):
        return 'MALFORMED'
    c = {}
    for n, f in pl['ints'].items():
        t = iv(f.tag)
        if t == 1: c[n] = str(sint(f.v)) if tv(f.is_str) else sint(f.v)
        elif t == 2: c[n] = [1]
    for mp, keyf in (('users', lambda e: users[e['name']]), ('events', lambda e: etype if e['name'] == 'evtype' else 'm.room.name'),
                     ('notifications', lambda e: 'room')):
        tag = iv(pl[mp]['tag'])
        if tag == 2: c[mp] = 'bad'
        elif tag == 1:
            d = {}
            for e in pl[mp]['entries']:
                if tv(e['present']):
                    d[keyf(e)] = str(sint(e['v'])) if tv(e['is_str']) else sint(e['v'])
            c[mp] = d
    return c


def classify_finding(vec):
    inc = vec['incoming']
    if inc['type'] == 'm.room.member' and inc['content'].get('membership') == 'knock':
        return 'knock-under-any-join-rule'
    return 'auth-verdict-differs'


def role_formula(w, role, version):
    if role == 'knock-under-any-join-rule':
        return is_m(w.ev_membership, 'knock')
    return z3.BoolVal(False)
