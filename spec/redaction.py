"""Oracle for C04, written from the Matrix specification (Client-Server API, "Redactions", and the room version
pages v1..v11 "Redactions" sections).  Tables per room version; predicates over byte strings."""

TOP_LEVEL_ALL = ['event_id', 'type', 'room_id', 'sender', 'state_key', 'content', 'hashes', 'signatures', 'depth',
                 'prev_events', 'auth_events', 'origin_server_ts']
TOP_LEVEL_BEFORE_V11 = ['prev_state', 'membership', 'origin']        # dropped by room version 11

VERSIONS = list(range(1, 12))


def top_level_keys(v):
    return TOP_LEVEL_ALL + (TOP_LEVEL_BEFORE_V11 if v < 11 else [])


def content_keys(v, event_type):
    """kept content keys; the string '*' means every key is kept; for m.room.member in v11 `third_party_invite`
    is kept but reduced to its `signed` key (handled separately)."""
    if event_type == 'm.room.member':
        ks = ['membership']
        if v >= 9:
            ks.append('join_authorised_via_users_server')
        return ks
    if event_type == 'm.room.create':
        return '*' if v >= 11 else ['creator']
    if event_type == 'm.room.join_rules':
        return ['join_rule'] + (['allow'] if v >= 8 else [])
    if event_type == 'm.room.power_levels':
        return ['ban', 'events', 'events_default', 'kick', 'redact', 'state_default', 'users', 'users_default'] + (['invite'] if v >= 11 else [])
    if event_type == 'm.room.aliases':
        return ['aliases'] if v <= 5 else []
    if event_type == 'm.room.history_visibility':
        return ['history_visibility']
    if event_type == 'm.room.redaction':
        return ['redacts'] if v >= 11 else []
    return []


SPECIAL_TYPES = ['m.room.member', 'm.room.create', 'm.room.join_rules', 'm.room.power_levels', 'm.room.aliases',
                 'm.room.history_visibility', 'm.room.redaction']

# meaning of each RedactionRules field (from its documentation), used for the rule-parametric comparison
RULE_FIELDS = {
    'keep_room_aliases_aliases': lambda v: v <= 5,
    'keep_room_join_rules_allow': lambda v: v >= 8,
    'keep_room_member_join_authorised_via_users_server': lambda v: v >= 9,
    'keep_origin_membership_prev_state': lambda v: v < 11,
    'keep_room_create_content': lambda v: v >= 11,
    'keep_room_redaction_redacts': lambda v: v >= 11,
    'keep_room_power_levels_invite': lambda v: v >= 11,
    'keep_room_member_third_party_invite_signed': lambda v: v >= 11,
}
