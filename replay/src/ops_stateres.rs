//! entry points of ruma-state-res: auth_check on PDUs built from JSON
use std::collections::HashMap;

use ruma_common::{room_version_rules::RoomVersionRules, EventId, MilliSecondsSinceUnixEpoch, OwnedEventId, OwnedRoomId, OwnedUserId, RoomId, RoomVersionId, UserId};
use ruma_events::{StateEventType, TimelineEventType};
use ruma_state_res::{event_auth::auth_check, Event};
use serde_json::{json, value::RawValue, Value};

#[derive(Clone, Debug)]
pub struct Pdu {
    event_id: OwnedEventId,
    room_id: OwnedRoomId,
    sender: OwnedUserId,
    kind: TimelineEventType,
    content: Box<RawValue>,
    state_key: Option<String>,
    prev_events: Vec<OwnedEventId>,
    auth_events: Vec<OwnedEventId>,
    redacts: Option<OwnedEventId>,
    ts: u64,
}

impl Event for Pdu {
    type Id = OwnedEventId;
    fn event_id(&self) -> &Self::Id { &self.event_id }
    fn room_id(&self) -> &RoomId { &self.room_id }
    fn sender(&self) -> &UserId { &self.sender }
    fn origin_server_ts(&self) -> MilliSecondsSinceUnixEpoch { MilliSecondsSinceUnixEpoch(self.ts.try_into().unwrap()) }
    fn event_type(&self) -> &TimelineEventType { &self.kind }
    fn content(&self) -> &RawValue { &self.content }
    fn state_key(&self) -> Option<&str> { self.state_key.as_deref() }
    fn prev_events(&self) -> Box<dyn DoubleEndedIterator<Item = &Self::Id> + '_> { Box::new(self.prev_events.iter()) }
    fn auth_events(&self) -> Box<dyn DoubleEndedIterator<Item = &Self::Id> + '_> { Box::new(self.auth_events.iter()) }
    fn redacts(&self) -> Option<&Self::Id> { self.redacts.as_ref() }
}

fn ids(v: &Value) -> Vec<OwnedEventId> {
    v.as_array().cloned().unwrap_or_default().iter().filter_map(|x| x.as_str()).map(|s| <&EventId>::try_from(s).unwrap().to_owned()).collect()
}

pub fn pdu(v: &Value) -> Result<Pdu, String> {
    let s = |k: &str| v.get(k).and_then(|x| x.as_str()).map(|x| x.to_owned());
    Ok(Pdu {
        event_id: <&EventId>::try_from(s("event_id").unwrap_or("$x:x".into()).as_str()).map_err(|e| e.to_string())?.to_owned(),
        room_id: <&RoomId>::try_from(s("room_id").unwrap_or("!r:x".into()).as_str()).map_err(|e| e.to_string())?.to_owned(),
        sender: <&UserId>::try_from(s("sender").ok_or("missing sender")?.as_str()).map_err(|e| e.to_string())?.to_owned(),
        kind: TimelineEventType::from(s("type").ok_or("missing type")?.as_str()),
        content: RawValue::from_string(serde_json::to_string(v.get("content").unwrap_or(&json!({}))).unwrap()).unwrap(),
        state_key: s("state_key"),
        prev_events: ids(v.get("prev_events").unwrap_or(&json!([]))),
        auth_events: ids(v.get("auth_events").unwrap_or(&json!([]))),
        redacts: s("redacts").map(|x| <&EventId>::try_from(x.as_str()).unwrap().to_owned()),
        ts: v.get("origin_server_ts").and_then(|x| x.as_u64()).unwrap_or(1),
    })
}

pub fn rules(req: &Value) -> Result<RoomVersionRules, String> {
    let v = req.get("version").and_then(|x| x.as_str()).ok_or("missing version")?;
    RoomVersionId::try_from(v).map_err(|e| e.to_string())?.rules().ok_or_else(|| "unknown room version".to_owned())
}

pub fn c08(kind: &str, req: &Value) -> Result<Value, String> {
    let rules = rules(req)?;
    match kind {
        "auth" => {
            let incoming = pdu(&req["incoming"])?;
            let mut state: HashMap<(StateEventType, String), Pdu> = HashMap::new();
            for s in req["state"].as_array().cloned().unwrap_or_default() {
                let p = pdu(&s)?;
                let ty = StateEventType::from(p.kind.to_string());
                state.insert((ty, p.state_key.clone().unwrap_or_default()), p);
            }
            let reads = std::cell::RefCell::new(Vec::new());
            let res = auth_check(&rules.authorization, &incoming, |ty, key| {
                reads.borrow_mut().push(format!("{ty}|{key}"));
                state.get(&(ty.clone(), key.to_owned())).cloned()
            });
            let reads = reads.into_inner();
            Ok(match res {
                Ok(()) => json!({"r": "ok", "reads": reads}),
                Err(e) => json!({"r": "err", "e": e, "reads": reads}),
            })
        }
        "select" => {
            let incoming = pdu(&req["incoming"])?;
            match ruma_state_res::event_auth::auth_types_for_event(&incoming.kind, &incoming.sender, incoming.state_key.as_deref(), &incoming.content, &rules.authorization) {
                Ok(v) => {
                    let mut pairs: Vec<Vec<String>> = v.into_iter().map(|(t, k)| vec![t.to_string(), k]).collect();
                    pairs.sort();
                    Ok(json!({"r": "ok", "pairs": pairs}))
                }
                Err(e) => Ok(json!({"r": "err", "e": e})),
            }
        }
        _ => Err(format!("unknown c08 op {kind}")),
    }
}


/// C07: the exposed topological sort on a concrete graph (repeated: every call gets fresh hasher seeds)
pub fn toposort(req: &Value) -> Result<Value, String> {
    use std::collections::{HashMap, HashSet};
    use ruma_common::{MilliSecondsSinceUnixEpoch, OwnedEventId};
    let nodes = req["nodes"].as_array().ok_or("nodes")?;
    let rep = req["repeat"].as_u64().unwrap_or(4);
    let mut first: Option<Vec<String>> = None;
    let mut stable = true;
    for _ in 0..rep {
        let mut graph: HashMap<OwnedEventId, HashSet<OwnedEventId>> = HashMap::new();
        let mut keys: HashMap<OwnedEventId, (js_int::Int, MilliSecondsSinceUnixEpoch)> = HashMap::new();
        for n in nodes {
            let id = OwnedEventId::try_from(n["id"].as_str().unwrap_or("")).map_err(|e| e.to_string())?;
            let mut deps = HashSet::new();
            for d in n["deps"].as_array().cloned().unwrap_or_default() {
                deps.insert(OwnedEventId::try_from(d.as_str().unwrap_or("")).map_err(|e| e.to_string())?);
            }
            graph.insert(id.clone(), deps);
            keys.insert(id, (js_int::Int::try_from(n["pl"].as_i64().unwrap_or(0)).map_err(|e| e.to_string())?,
                             MilliSecondsSinceUnixEpoch(js_int::UInt::try_from(n["ts"].as_u64().unwrap_or(0)).map_err(|e| e.to_string())?)));
        }
        let r = ruma_state_res::lexicographical_topological_sort(&graph, |id| Ok(keys[id]));
        let order: Vec<String> = match r { Ok(v) => v.iter().map(|x| x.as_str().to_owned()).collect(), Err(e) => return Ok(json!({"r": "err", "e": e.to_string()})) };
        match &first { None => first = Some(order), Some(f) => if *f != order { stable = false; } }
    }
    Ok(json!({"r": "ok", "order": first, "stable": stable}))
}


/// C06: the auth chain difference on concrete sets (repeated: fresh hasher seeds per call)
pub fn auth_diff(req: &Value) -> Result<Value, String> {
    use std::collections::HashSet;
    use ruma_common::OwnedEventId;
    let rep = req["repeat"].as_u64().unwrap_or(4);
    let mut first: Option<Vec<String>> = None;
    let mut stable = true;
    for _ in 0..rep {
        let mut sets: Vec<HashSet<OwnedEventId>> = vec![];
        for s in req["sets"].as_array().cloned().unwrap_or_default() {
            let mut hs = HashSet::new();
            for d in s.as_array().cloned().unwrap_or_default() {
                hs.insert(OwnedEventId::try_from(d.as_str().unwrap_or("")).map_err(|e| e.to_string())?);
            }
            sets.push(hs);
        }
        let mut diff: Vec<String> = ruma_state_res::verif_auth_chain_diff(sets).into_iter().map(|x| x.as_str().to_owned()).collect();
        diff.sort();
        match &first { None => first = Some(diff), Some(f) => if *f != diff { stable = false; } }
    }
    Ok(json!({"r": "ok", "diff": first, "stable": stable}))
}


/// C06: the conflicted / unconflicted split on concrete state sets (repeated: fresh hasher seeds per call)
pub fn separate(req: &Value) -> Result<Value, String> {
    use ruma_common::OwnedEventId;
    use ruma_events::StateEventType;
    use ruma_state_res::StateMap;
    let rep = req["repeat"].as_u64().unwrap_or(4);
    let ty = |s: &str| match s { "RoomTopic" => StateEventType::RoomTopic, "RoomMember" => StateEventType::RoomMember, _ => StateEventType::RoomName };
    let name = |t: &StateEventType| match t { StateEventType::RoomTopic => "RoomTopic", StateEventType::RoomMember => "RoomMember", _ => "RoomName" };
    let mut first: Option<(Value, Value)> = None;
    let mut stable = true;
    for _ in 0..rep {
        let mut sets: Vec<StateMap<OwnedEventId>> = vec![];
        for s in req["sets"].as_array().cloned().unwrap_or_default() {
            let mut m = StateMap::new();
            for (k, v) in s.as_object().cloned().unwrap_or_default() {
                let (t, sk) = k.split_once('|').unwrap_or((&k, ""));
                m.insert((ty(t), sk.to_owned()), OwnedEventId::try_from(v.as_str().unwrap_or("")).map_err(|e| e.to_string())?);
            }
            sets.push(m);
        }
        let (un, co) = ruma_state_res::verif_separate(sets.iter());
        let mut unj = serde_json::Map::new();
        for ((t, sk), id) in &un { unj.insert(format!("{}|{}", name(t), sk), json!(id.as_str())); }
        let mut coj = serde_json::Map::new();
        for ((t, sk), ids) in &co { let mut v: Vec<String> = ids.iter().map(|x| x.as_str().to_owned()).collect(); v.sort(); coj.insert(format!("{}|{}", name(t), sk), json!(v)); }
        let cur = (Value::Object(unj), Value::Object(coj));
        match &first { None => first = Some(cur), Some(f) => if *f != cur { stable = false; } }
    }
    let (u, c) = first.unwrap_or((json!({}), json!({})));
    Ok(json!({"r": "ok", "unconflicted": u, "conflicted": c, "stable": stable}))
}


/// C06: sender power level of the incoming event when it is visited first (empty creator cache) and when another event of the
/// room, which cites the create event, was visited before it
pub fn creator_cache(req: &Value) -> Result<Value, String> {
    let rules = rules(req)?;
    let b = pdu(&req["incoming"])?;
    let mut a = b.clone();
    a.event_id = <&EventId>::try_from("$a:x").unwrap().to_owned();
    a.auth_events = vec![<&EventId>::try_from("$c:x").unwrap().to_owned()];
    let mut by_id: HashMap<String, Pdu> = HashMap::new();
    for s in req["state"].as_array().cloned().unwrap_or_default() {
        let mut p = pdu(&s)?;
        let id = if p.kind == TimelineEventType::RoomCreate { "$c:x" } else if p.kind == TimelineEventType::RoomPowerLevels { "$o:x" } else { continue };
        p.event_id = <&EventId>::try_from(id).unwrap().to_owned();
        by_id.insert(id.to_owned(), p);
    }
    by_id.insert(b.event_id.as_str().to_owned(), b.clone());
    by_id.insert("$a:x".to_owned(), a);
    let fetch = |id: &EventId| by_id.get(id.as_str()).cloned();
    let show = |r: &std::result::Result<js_int::Int, String>| match r { Ok(i) => json!(i64::from(*i)), Err(e) => json!(format!("err: {e}")) };
    let first = ruma_state_res::verif_sender_power_levels(&[&*b.event_id], &rules.authorization, fetch);
    let second = ruma_state_res::verif_sender_power_levels(&[<&EventId>::try_from("$a:x").unwrap(), &*b.event_id], &rules.authorization, fetch);
    Ok(json!({"r": "ok", "empty_cache": show(&first[0]), "filled_cache": show(&second[1])}))
}


/// C07: mainline ordering of three events over the fixed power-level history p0 <- p1 <- p2 (resolved), q <- p0
pub fn mainline(req: &Value) -> Result<Value, String> {
    let mk = |id: &str, ty: &str, auth: Vec<&str>, ts: u64| -> Result<Pdu, String> {
        pdu(&json!({"event_id": id, "type": ty, "sender": "@a:x", "state_key": "", "content": {}, "auth_events": auth, "origin_server_ts": ts}))
    };
    let mut by_id: HashMap<String, Pdu> = HashMap::new();
    by_id.insert("$p0:x".into(), mk("$p0:x", "m.room.power_levels", vec![], 1)?);
    by_id.insert("$p1:x".into(), mk("$p1:x", "m.room.power_levels", vec!["$p0:x"], 2)?);
    by_id.insert("$p2:x".into(), mk("$p2:x", "m.room.power_levels", vec!["$p1:x"], 3)?);
    by_id.insert("$q:x".into(), mk("$q:x", "m.room.power_levels", vec!["$p0:x"], 4)?);
    let mut to_sort: Vec<OwnedEventId> = vec![];
    for e in req["events"].as_array().cloned().unwrap_or_default() {
        let id = e["id"].as_str().unwrap_or("").to_owned();
        let auth: Vec<&str> = e["parent"].as_str().into_iter().collect();
        by_id.insert(id.clone(), mk(&id, "m.room.topic", auth, e["ts"].as_u64().unwrap_or(0))?);
        to_sort.push(<&EventId>::try_from(id.as_str()).map_err(|e| e.to_string())?.to_owned());
    }
    let resolved = <&EventId>::try_from("$p2:x").unwrap().to_owned();
    let mut first: Option<Vec<String>> = None;
    let mut stable = true;
    for _ in 0..req["repeat"].as_u64().unwrap_or(8) {
        let r = ruma_state_res::verif_mainline_sort(&to_sort, Some(resolved.clone()), |id: &EventId| by_id.get(id.as_str()).cloned());
        let order: Vec<String> = match r { Ok(v) => v.iter().map(|x| x.as_str().to_owned()).collect(), Err(e) => return Ok(json!({"r": "err", "e": e.to_string()})) };
        match &first { None => first = Some(order), Some(f) => if *f != order { stable = false; } }
    }
    Ok(json!({"r": "ok", "order": first, "stable": stable}))
}


/// C07: the graph built for one event from its auth chain restricted to the auth difference
pub fn power_graph(req: &Value) -> Result<Value, String> {
    use std::collections::HashSet;
    let mut by_id: HashMap<String, Pdu> = HashMap::new();
    for e in req["events"].as_array().cloned().unwrap_or_default() {
        let id = e["id"].as_str().unwrap_or("").to_owned();
        let auth: Vec<String> = e["auth"].as_array().cloned().unwrap_or_default().iter().filter_map(|x| x.as_str().map(str::to_owned)).collect();
        by_id.insert(id.clone(), pdu(&json!({"event_id": id, "type": "m.room.topic", "sender": "@a:x", "state_key": "", "content": {}, "auth_events": auth}))?);
    }
    let mut diff: HashSet<OwnedEventId> = HashSet::new();
    for d in req["auth_diff"].as_array().cloned().unwrap_or_default() {
        diff.insert(<&EventId>::try_from(d.as_str().unwrap_or("")).map_err(|e| e.to_string())?.to_owned());
    }
    let mut graph: HashMap<OwnedEventId, HashSet<OwnedEventId>> = HashMap::new();
    let start = <&EventId>::try_from(req["start"].as_str().unwrap_or("")).map_err(|e| e.to_string())?.to_owned();
    ruma_state_res::verif_add_event_and_auth_chain_to_graph(&mut graph, start, &diff, |id: &EventId| by_id.get(id.as_str()).cloned());
    let mut out = serde_json::Map::new();
    for (k, v) in &graph { let mut es: Vec<String> = v.iter().map(|x| x.as_str().to_owned()).collect(); es.sort(); out.insert(k.as_str().to_owned(), json!(es)); }
    Ok(json!({"r": "ok", "graph": out}))
}
