#!/usr/bin/env python3-vt
"""C10 - identifier parsing is total, lossless and accepts only the spec's grammar.

Decided by symbolic execution of the validators' MIR (ruma-identifiers-validation and the ruma-common accessors,
regenerated from /repo) over every UTF-8 string up to N bytes, z3 queries against grammar oracles written from the
spec, native replay of every counterexample.

Two levels (compositional):
  A. server_name::validate against the full server-name grammar, strings <= N_A bytes.
  B. every other validator, strings <= N_B bytes (N_B = 300 > 255 so that the length limit and the `as u8`
     separator indices are inside the bound), with the call to server_name::validate replaced by the predicate
     P(window) = "server_name::validate accepts", the same predicate the oracle uses; level A relates P to the grammar.
"""
import os, sys, re
sys.path.insert(0, os.path.dirname(os.path.abspath(__file__)))
from common import *
from validators import *
from spec import idgrammar as G

os.environ.setdefault('VERIF_MAIN_MODULE', 'c10')


def srv_uf(C, E):
    """P(window): uninterpreted predicate standing for `server_name::validate(window).is_ok()`; every application is
    registered so that solver models are refined against the native server_name::validate when concretised"""
    f = z3.Function('server_name_ok', z3.ArraySort(BV64, BV8), BV64, BV64, z3.BoolSort())

    def ref(b):
        try:
            b.decode()
        except UnicodeDecodeError:
            return False
        return C.native({'op': 'idval:server_name', 's_hex': bytes(b).hex()}).get('r') == 'ok'

    def pred(w):
        r = f(w.base, w.off, w.ln)
        E.uf_apps.append(('window', Str(w.base, w.off, w.ln, True, w.cap), r, ref, 'server_name_ok'))
        return r

    def model(E_, st, callee, a, m):
        s = E_.as_str(st, a[0])
        r = f(s.base, s.off, s.ln)
        E.uf_apps.append(('window', s, r, ref, 'server_name_ok'))
        return [(r, ok(UNIT)), (z3.Not(r), err(Adt('ruma_identifiers_validation::error::Error', 'InvalidServerName', [])))]
    return pred, model


def colon(w):
    return G.first_index(w, lambda b: b == 58)


SERVER_ROLES = {
    'server-name-empty-host': ('sound', lambda w: z3.And(z3.UGE(w.ln, 1), w.at(0) == 58), 'server name with an empty host is accepted'),
    'server-name-signed-port': ('sound', lambda w: (lambda ex, c: z3.And(ex, w.at(0) != 91, w.at(c + 1) == 43))(*colon(w)),
                                'port with a leading + is accepted'),
    'server-name-long-port': ('sound', lambda w: (lambda ex, c: z3.And(ex, w.at(0) != 91, z3.UGT(w.ln - c - 1, 5)))(*colon(w)),
                              'port of more than 5 digits is accepted'),
}


def targets(C, E, level):
    alnum = lambda b: z3.Or(G.digit(b), G.alpha(b))
    T = {}
    if level == 'A':
        ip6 = ipv6_pred(E)
        T['server_name'] = dict(fn='server_name::validate', op='idval:server_name',
                                lax=lambda w: G.server_name(w, ip6), strict=lambda w: G.server_name(w, ip6, True),
                                roles=SERVER_ROLES)
        return T
    P, Pmodel = srv_uf(C, E)
    E.overrides.append((re.compile(r'^server_name::validate$'), Pmodel))
    E.overrides.append((re.compile(r'^<VerifAnyKey as KeyName>::validate$'), lambda E_, st, callee, a, m: [(TRUE, ok(UNIT))]))
    anyname = lambda n: z3.BoolVal(True)
    T['user_id'] = dict(fn='user_id::validate', op='idval:user_id',
                        lax=lambda w: G.sigil_id(w, 64, P), strict=lambda w: G.sigil_id(w, 64, P, G.user_localpart_historical))
    T['user_id_strict'] = dict(fn='user_id::validate_strict', op='idval:user_id_strict',
                               lax=lambda w: G.sigil_id(w, 64, P, G.user_localpart_strict),
                               strict=lambda w: G.sigil_id(w, 64, P, G.user_localpart_strict))
    T['room_alias_id'] = dict(fn='room_alias_id::validate', op='idval:room_alias_id',
                              lax=lambda w: G.sigil_id(w, 35, P), strict=lambda w: G.sigil_id(w, 35, P))
    T['room_id'] = dict(fn='room_id::validate', op='idval:room_id', lax=G.room_id_lax, strict=G.room_id_lax)
    T['room_id_or_alias_id'] = dict(fn='room_id_or_alias_id::validate', op='idval:room_id_or_alias_id',
                                    lax=lambda w: z3.Or(G.room_id_lax(w), G.sigil_id(w, 35, P)),
                                    strict=lambda w: z3.Or(G.room_id_lax(w), G.sigil_id(w, 35, P)))
    T['event_id'] = dict(fn='event_id::validate', op='idval:event_id', lax=lambda w: G.event_id_lax(w, P),
                         strict=lambda w: z3.Or(G.sigil_id(w, 36, P), G.hash_id(w, 36)))
    T['mxc_uri'] = dict(fn='mxc_uri::validate', op='idval:mxc_uri', lax=lambda w: G.mxc_uri(w, P)[0],
                        strict=lambda w: z3.And(G.mxc_uri(w, P, True)[0], z3.ULE(w.ln, 255)),
                        ret_check=lambda o, w: z3.ZeroExt(56, o.value.fields[0].fields[0].v) == G.mxc_uri(w, P)[1])
    T['key_id_any'] = dict(fn='key_id::validate', op='idval:key_id_any', tsub={'K': 'VerifAnyKey'},
                           lax=lambda w: G.key_id(w, anyname)[0],
                           strict=lambda w: z3.And(G.key_id(w, anyname)[0], z3.ULE(w.ln, 255)),
                           ret_check=lambda o, w: z3.ZeroExt(56, o.value.fields[0].fields[0].v) == G.key_id(w, anyname)[1])
    small = {}
    small['room_version_id'] = dict(fn='room_version_id::validate', op='idval:room_version_id',
                                    lax=lambda w: z3.And(z3.UGE(w.ln, 1), z3.ULE(w.ln, 32), G.all_bytes(w, lambda b: z3.Or(alnum(b), b == 45, b == 46))),
                                    strict=lambda w: z3.And(z3.UGE(w.ln, 1), z3.ULE(w.ln, 32), G.all_bytes(w, lambda b: z3.Or(alnum(b), b == 45, b == 46))))
    if level == 'S':
        return small
    return T


LEVEL_OF = {'server_name': 'A', 'room_version_id': 'S'}


def sizes(tier):
    na = int(os.environ.get('VERIF_NA', '32' if tier == 'quick' else '72'))
    nb = int(os.environ.get('VERIF_NB', '300'))
    ns = int(os.environ.get('VERIF_NS', '40' if tier == 'quick' else '140'))
    return {'A': na, 'B': nb, 'S': ns}


def run_target(C, label):
    level = LEVEL_OF.get(label, 'B')
    N = sizes(C.tier)[level]
    E = C.fresh_engine(['idval'], N=N)
    t = targets(C, E, level)[label]
    fn = E.find_func(t['fn'])
    lits = harvest_literals([os.path.join(REPO, 'crates/ruma-common/src/identifiers/*.rs'),
                             os.path.join(REPO, 'crates/ruma-identifiers-validation/src/*.rs')])
    vecs = lits + [mutate(C.rng, C.rng.choice(lits)) for _ in range(60 if C.tier == 'quick' else 300)]
    if level != 'B':
        validate_models(C, E, fn, t['op'], vecs, tsub=t.get('tsub'))
    else:
        # with the server-name summary in place, concrete runs need P on constants: evaluate it natively
        validate_models_with_summary(C, E, fn, t, vecs)
    decide_validator(C, E, label, fn, t['op'], N, lax=t.get('lax'), strict=t.get('strict'), roles=t.get('roles'),
                     tsub=t.get('tsub'), ret_check=t.get('ret_check'))


def validate_models_with_summary(C, E, fn, t, vecs):
    """level B model validation: the summary predicate P is uninterpreted, so on a concrete input the interpreter
    yields one path per value of P; the path whose P-values agree with the native server_name::validate must
    agree with the native validator."""
    for v in vecs:
        b = v.encode()
        if len(b) > E.N:
            continue
        del E.axioms[:]
        outs = E.run_func(fn, [E.const_str(b)], tsub=t.get('tsub'))
        res = C.native({'op': t['op'], 's_hex': b.hex()})
        C.model_validation += 1
        nat = native_class(res)
        # evaluate every P application on its concrete window natively
        so = z3.Solver()
        for d in z3_apps_of(outs, 'server_name_ok'):
            arr, off, ln = d.arg(0), d.arg(1), d.arg(2)
            o, l = z3.simplify(off).as_long(), z3.simplify(ln).as_long()
            win = b[o:o + l]
            r = C.native({'op': 'idval:server_name', 's_hex': win.hex()})
            so.add(d == (r.get('r') == 'ok'))
        hits = []
        for o in outs:
            so.push(); so.add(*o.pc)
            if so.check() == z3.sat:
                hits.append(o)
            so.pop()
        if len(hits) != 1 or classify(hits[0]) != nat:
            raise Broken(f'model validation failed for {fn.name} on {v!r}: interpreter={[classify(h) for h in hits]} native={res}')


def z3_apps_of(outs, fname):
    seen, out = set(), []
    def walk(e):
        if e.get_id() in seen:
            return
        seen.add(e.get_id())
        if z3.is_app(e):
            if e.decl().name() == fname:
                out.append(e)
            for c in e.children():
                walk(c)
    for o in outs:
        for c in o.pc:
            walk(c)
    return out


def body(C):
    sz = sizes(C.tier)
    C.engine(['idval'], N=8)        # regenerates the MIR dump + item index from /repo (shared by the workers)
    C.assumptions += [
        f'level A (server_name::validate vs the server-name grammar): every well-formed UTF-8 string of at most {sz["A"]} bytes',
        f'level B (all other validators): every well-formed UTF-8 string of at most {sz["B"]} bytes, with server_name::validate '
        'abstracted to the predicate P(window) shared with the oracle; composition with level A covers server-name parts of at most '
        f'{sz["A"]} bytes',
        'IPv6address is defined by std::net::Ipv6Addr::from_str: uninterpreted predicate, refined against a transcription of core::net::parser whenever a model is concretised',
        'char::is_alphanumeric is exact on ASCII and an uninterpreted function of the code point above 0x7F (refined against the native build)',
        'library models listed under coverage.library_models_used are trusted; validated against the native build on the vectors counted in model_validation_vectors',
        'strings longer than the stated bounds are outside the claim',
    ]
    labels = ['server_name', 'user_id', 'user_id_strict', 'room_alias_id', 'room_id', 'room_id_or_alias_id', 'event_id',
              'mxc_uri', 'key_id_any', 'room_version_id']
    only = os.environ.get('VERIF_ONLY')
    if only:
        labels = [l for l in labels if l in only.split(',')]
    # level C: public parse path + component accessors of ruma-common (needs its MIR and item index as well)
    import c10_accessors as A
    acc = [a for a in A.ACCESSORS if not only or a in only.split(',')]
    if acc:
        C.engine(['common'], N=8)
        C.assumptions.append('level C (accessors): ServerName <= 32 bytes with the real validator; UserId/RoomAliasId/EventId <= 300 bytes with the server-name summary; KeyId/MxcUri accessors and the owned/Arc/serde forms are outside this run')
    C.build_replayer(['common'])
    parallel_map(C, [(run_target, l) for l in labels] + [(A.run_accessors, a) for a in acc], None)


if __name__ == '__main__':
    run_check('C10', body)
