#!/usr/bin/env python3-vt
"""C08 - event authorization decides exactly as the spec's rules in every room version.

auth_check and everything above the serde seam (see authsym.py) are executed from the MIR of ruma-state-res (+ ruma-common)
on a symbolic (room version, state, event) world; z3 compares the verdict with the authorization rules of the
specification transcribed in spec/auth_rules.py, per room version 1..11; counterexamples are concretised to JSON PDUs and
replayed through the real ruma_state_res::event_auth::auth_check."""
import os, sys, re, json
sys.path.insert(0, os.path.dirname(os.path.abspath(__file__)))
from common import *
from authsym import *
from spec import auth_rules as SPEC

os.environ.setdefault('VERIF_MAIN_MODULE', 'c08')
KEYS = ['idval', 'common', 'stateres']
VERSIONS = list(range(1, 12))


class World:
    """all symbolic inputs of one scenario family"""
    def __init__(self, E, kind, focus=False):
        self.E = E
        self.kind = kind                      # incoming event kind: member / message / state / aliases / redaction / third_party_invite / power_levels / create
        self.cons = []
        U = lambda n: self._user(n)
        self.sender, self.target, self.creator, self.create_sender, self.authoriser = U('sender'), U('target'), U('creator'), U('csender'), U('auth')
        # ---- create event in state
        self.create_present = z3.Bool('create_present')
        self.create_in_auth = z3.Bool('create_in_auth_events')
        self.creator_field = Field('create_creator', 'bool'); self.cons += self.creator_field.cons   # tag: absent / valid user id (= self.creator) / malformed
        self.federate = Field('create_federate', 'bool'); self.cons += self.federate.cons
        # ---- memberships by role
        self.member = {}
        for role in ('sender', 'target', 'auth', 'other'):
            f = Field(f'member_{role}', 'enum', MEMBERSHIPS); self.cons += f.cons
            self.member[role] = f
        # ---- join rules
        self.join_rules_present = z3.Bool('join_rules_present')
        self.join_rule = Field('join_rule', 'enum', JOIN_RULES); self.cons += self.join_rule.cons
        # ---- power levels event in state
        self.pl_present = z3.Bool('pl_present')
        self.pl = self._pl_content('pl')
        self.pl_new = self._pl_content('npl') if kind == 'power_levels' else None    # content of an incoming m.room.power_levels event
        # ---- incoming event
        self.ev_membership = Field('ev_membership', 'enum', MEMBERSHIPS); self.cons += self.ev_membership.cons
        self.ev_authorised_via = Field('ev_join_authorised', 'bool'); self.cons += self.ev_authorised_via.cons   # absent / valid user (= authoriser) / malformed
        self.ev_tpi = Field('ev_third_party_invite', 'bool'); self.cons += self.ev_tpi.cons                     # absent(or null) / present / malformed
        self.ev_tpi_token = z3.BitVec('ev_third_party_invite_token', 8)      # signed.token: 0 absent, 1 the string "t", 2 not a string
        self.cons.append(z3.ULE(self.ev_tpi_token, 2))
        self.prev_only_create = z3.Bool('prev_events_is_only_create')
        self.state_key_kind = z3.BitVec('state_key_kind', 8)    # 0 none, 1 "", 2 target user id, 3 "@zz" (not a user id), 4 sender's server name, 5 other server name
        self.cons.append(z3.ULE(self.state_key_kind, 5))
        self.redacts_same_server = z3.Bool('redacts_same_server')
        if focus:
            self._pl_focus()

    def _pl_focus(self):
        """incoming m.room.power_levels: ONE property of the content (selected by the symbolic `pl_focus`: one of the seven
        integer fields, `events`, `notifications` or `users`) differs arbitrarily between the current and the new content,
        everything else is unchanged.  The selector is symbolic, so paths add up over the properties instead of multiplying."""
        k = z3.BitVec('pl_focus', 8)
        self.pl_focus = k
        self.cons.append(z3.ULE(k, 9))
        cur, new = self.pl, self.pl_new
        for i, f in enumerate(PL_FIELDS):
            c, n = cur['ints'][f], new['ints'][f]
            # unchanged integer fields are present, JSON integers, equal
            self.cons.append(z3.Implies(k != i, z3.And(c.ok(), n.ok(), c.v == n.v, z3.Not(c.is_str), z3.Not(n.is_str))))
        for j, (which, keep) in enumerate([('events', False), ('notifications', False), ('users', True)]):
            cm, nm = cur[which], new[which]
            same = [cm['tag'] == nm['tag'], cm['tag'] == (1 if keep else 0)]
            for ce, ne in zip(cm['entries'], nm['entries']):
                same += [ce['present'] == ne['present'], ce['v'] == ne['v'], z3.Not(ce['is_str']), z3.Not(ne['is_str'])]
            self.cons.append(z3.Implies(k != 7 + j, z3.And(*same)))
        # users entries of the roles that play no part in a power-levels change stay out of the maps
        for mp in (cur['users'], new['users']):
            for e in mp['entries']:
                if e['name'] in ('authoriser', 'creator'):
                    self.cons.append(z3.Not(e['present']))

    def _user(self, n):
        u = SymUser(n); self.cons += u.cons
        return u

    def _pl_content(self, prefix):
        ints = {}
        for f in PL_FIELDS:
            fld = Field(f'{prefix}_{f}', 'int'); self.cons += fld.cons
            ints[f] = fld
        def mk_map(name, keys):
            tag = z3.BitVec(f'{prefix}_{name}_tag', 8); self.cons.append(z3.ULE(tag, 2))
            ents = []
            for kn, key in keys:
                v = z3.BitVec(f'{prefix}_{name}_{kn}_v', 64)
                self.cons += [v >= -INT_MAX, v <= INT_MAX]
                ents.append({'key': key, 'name': kn, 'v': v, 'present': z3.Bool(f'{prefix}_{name}_{kn}_present'), 'is_str': z3.Bool(f'{prefix}_{name}_{kn}_isstr')})
            return {'tag': tag, 'entries': ents}
        ukeys = [(r, Adt('ruma_common::identifiers::user_id::OwnedUserId', None, [getattr(self, r).str])) for r in ('sender', 'target', 'authoriser', 'creator')]
        ekeys = [('evtype', None), ('othertype', None)]     # keys filled per scenario (the incoming event's type)
        return {'malformed': z3.Bool(f'{prefix}_malformed'), 'ints': ints, 'users': mk_map('users', ukeys),
                'events': mk_map('events', ekeys), 'notifications': mk_map('notifications', [('room', Obj('String', self.E.const_str(b'room')))])}


def build(C, E, w, version_rules):
    """turn World w into engine values: incoming event, fetch_state closure.  Returns (event Obj, fetch Obj)."""
    cs = E.const_str
    evid = lambda s: Adt('ruma_common::identifiers::event_id::OwnedEventId', None, [cs(s)])
    create_id, other_id, incoming_id = evid(b'$c:x'), evid(b'$o:x'), evid(b'$e:x')
    room_id = cs(b'!r:x')
    uid = lambda u: u.str

    def content(what, handlers, extra=None):
        dct = {'what': what, 'handlers': handlers}
        dct.update(extra or {})
        return Obj('Content', dct)

    def errstr():
        return Obj('serde_json::Error', None)

    # --- create content
    def h_federate(E_, st, ty):
        f = w.federate
        val = lambda x: ok(Adt(ty, None, [x]))
        return [(f.absent(), val(NONE)), (z3.And(f.ok(), f.v), val(some(TRUE))), (z3.And(f.ok(), z3.Not(f.v)), val(some(FALSE))), (f.bad(), err(errstr()))]

    def h_creator(E_, st, ty):
        f = w.creator_field
        owned = Adt('ruma_common::identifiers::user_id::OwnedUserId', None, [uid(w.creator)])
        if ty.endswith('RoomCreateContentCreator') and 'has_creator' in ty:
            # Option<IgnoredAny>: anything but absent counts as present
            return [(f.absent(), ok(Adt(ty, None, [NONE]))), (z3.Not(f.absent()), ok(Adt(ty, None, [some(Opaque('IgnoredAny'))])))]
        return [(f.ok(), ok(Adt(ty, None, [owned]))), (z3.Not(f.ok()), err(errstr()))]
    create_content = content('m.room.create', {'RoomCreateContentFederate': h_federate, 'RoomCreateContentCreator': h_creator})

    def mk_event(sender, etype, content_obj, eid, state_key_outs=None, prev=None, auth=None, redacts=NONE):
        return Obj('Event', {'event_id': eid, 'room_id': room_id, 'sender': uid(sender), 'event_type': etype, 'content': content_obj,
                             'origin_server_ts': Opaque('ts'), 'state_key_outcomes': state_key_outs or (lambda: [(TRUE, NONE)]),
                             'prev_events_outcomes': prev or (lambda: [(TRUE, Obj('SeqIter', ((), 0)))]),
                             'auth_events_outcomes': auth or (lambda: [(TRUE, Obj('SeqIter', ((), 0)))]), 'redacts': redacts})
    tet = lambda v: Adt(TET, v, [])
    create_event = mk_event(w.create_sender, tet('RoomCreate'), create_content, create_id, lambda: [(TRUE, some(cs(b'')))])
    w.create_event_obj, w.create_id_obj = create_event, create_id

    # --- member events in state, by role
    def member_content(field, label):
        def h_membership(E_, st, ty):
            outs = []
            for i, mname in enumerate(MEMBERSHIPS):
                outs.append((z3.And(field.ok(), field.v == i), ok(Adt(ty, None, [Adt(MEMBER_ENUM, MEMBER_VARIANT[mname], [])]))))
            outs.append((z3.And(field.ok(), field.v == len(MEMBERSHIPS)), ok(Adt(ty, None, [Adt(MEMBER_ENUM, '_Custom', [cs(b'custom')])]))))
            outs.append((z3.Not(field.ok()), err(errstr())))
            return outs
        return h_membership

    def state_member_event(role, user):
        f = w.member[role]
        return mk_event(user, tet('RoomMember'), content(f'member[{role}]', {'RoomMemberContentMembership': member_content(f, role)}), other_id,
                        lambda: [(TRUE, some(uid(user)))])

    # --- join rules
    def h_join_rule(E_, st, ty):
        f = w.join_rule
        outs = []
        for i, jn in enumerate(JOIN_RULES):
            outs.append((z3.And(f.ok(), f.v == i), ok(Adt(ty, None, [Adt(JOINRULE_ENUM, JOINRULE_VARIANT[jn], [])]))))
        outs.append((z3.And(f.ok(), f.v == len(JOIN_RULES)), ok(Adt(ty, None, [Adt(JOINRULE_ENUM, '_Custom', [Adt('events::join_rules::PrivOwnedStr', None, [cs(b'private')])])]))))
        outs.append((z3.Not(f.ok()), err(errstr())))
        return outs
    join_rules_event = mk_event(w.creator, tet('RoomJoinRules'), content('m.room.join_rules', {'RoomJoinRulesContentJoinRule': h_join_rule}), other_id,
                                lambda: [(TRUE, some(cs(b'')))])
    pl_event = mk_event(w.creator, tet('RoomPowerLevels'), content('m.room.power_levels', {}, {'pl': w.pl}), other_id, lambda: [(TRUE, some(cs(b'')))])
    w.pl_event_obj = pl_event

    # --- fetch_state
    reads = []

    def fetch(E_, st, args):
        ty = E_.deref(st, args[0])
        key = E_.as_str(st, args[1])
        reads.append((ty.variant, key))
        st.note(('fetch', ty.variant, key))
        if ty.variant == 'RoomCreate':
            return [(w.create_present, some(create_event)), (z3.Not(w.create_present), NONE)]
        if ty.variant == 'RoomPowerLevels':
            return [(w.pl_present, some(pl_event)), (z3.Not(w.pl_present), NONE)]
        if ty.variant == 'RoomJoinRules':
            return [(w.join_rules_present, some(join_rules_event)), (z3.Not(w.join_rules_present), NONE)]
        if ty.variant == 'RoomMember':
            outs, rest = [], TRUE
            for role, user in (('sender', w.sender), ('target', w.target), ('auth', w.authoriser)):
                eq = str_eq(E_, key, user.str)
                f = w.member[role]
                outs.append((z3.And(rest, eq, z3.Not(f.absent())), some(state_member_event(role, user))))
                outs.append((z3.And(rest, eq, f.absent()), NONE))
                rest = z3.And(rest, z3.Not(eq))
            f = w.member['other']
            outs.append((z3.And(rest, z3.Not(f.absent())), some(state_member_event('other', w.creator))))
            outs.append((z3.And(rest, f.absent()), NONE))
            return outs
        if ty.variant == 'RoomThirdPartyInvite':
            return [(TRUE, NONE)]
        raise Inconclusive('fetch_state of ' + ty.variant)
    fetch_obj = Obj('PyFn', fetch)

    # --- incoming event
    def auth_events():
        return [(w.create_in_auth, Obj('SeqIter', ((E.alloc_const(create_id),), 0))), (z3.Not(w.create_in_auth), Obj('SeqIter', ((E.alloc_const(other_id),), 0)))]

    def prev_events():
        return [(w.prev_only_create, Obj('SeqIter', ((E.alloc_const(create_id),), 0))),
                (z3.Not(w.prev_only_create), Obj('SeqIter', ((E.alloc_const(other_id), E.alloc_const(create_id)), 0)))]

    def state_key_outs():
        k = w.state_key_kind
        srv = lambda u: Str(z3.K(BV64, z3.BitVecVal(0, 8)), bv(0), bv(1), True, 1, None, 1, [u.s])
        return [(k == 0, NONE), (k == 1, some(cs(b''))), (k == 2, some(uid(w.target))), (k == 3, some(cs(b'@zz'))),
                (k == 4, some(srv(w.sender))), (k == 5, some(cs(b'q')))]

    kind = w.kind
    handlers, extra = {}, {}
    if kind == 'member':
        etype = tet('RoomMember')
        handlers['RoomMemberContentMembership'] = member_content(w.ev_membership, 'incoming')

        def h_auth_via(E_, st, ty):
            f = w.ev_authorised_via
            owned = Adt('ruma_common::identifiers::user_id::OwnedUserId', None, [uid(w.authoriser)])
            return [(f.absent(), ok(Adt(ty, None, [NONE]))), (f.ok(), ok(Adt(ty, None, [some(owned)]))), (f.bad(), err(errstr()))]
        handlers['RoomMemberContentJoinAuthorizedViaUsersServer'] = h_auth_via

        def h_tpi(E_, st, ty):
            f = w.ev_tpi
            CJV = 'ruma_common::canonical_json::value::CanonicalJsonValue'
            tok = lambda: Obj('String', cs(b'token'))
            signed = Obj('SymMap', ((tok(), Adt(CJV, 'String', [Obj('String', cs(b't'))]), w.ev_tpi_token == 1),
                                    (tok(), Adt(CJV, 'Integer', [mk_int(z3.BitVecVal(5, 64))]), w.ev_tpi_token == 2)))
            return [(f.absent(), ok(Adt(ty, None, [NONE]))), (f.ok(), ok(Adt(ty, None, [some(Adt('events::member::ThirdPartyInvite', None, [signed]))]))), (f.bad(), err(errstr()))]
        handlers['RoomMemberContentThirdPartyInvite'] = h_tpi
    else:
        etype = {'message': tet('RoomMessage'), 'state': tet('RoomTopic'), 'aliases': tet('RoomAliases'), 'redaction': tet('RoomRedaction'),
                 'third_party_invite': tet('RoomThirdPartyInvite'), 'power_levels': tet('RoomPowerLevels'), 'create': tet('RoomCreate')}[kind]
        if kind == 'create':
            handlers.update(create_content.data['handlers'])
        if kind == 'power_levels':
            extra['pl'] = w.pl_new
            w.pl_new['events']['entries'][0]['key'] = etype
            w.pl_new['events']['entries'][1]['key'] = tet('RoomName')
    # the `events` power-level map is keyed by event type: entry 0 is the incoming event's type, entry 1 another type
    w.pl['events']['entries'][0]['key'] = etype
    w.pl['events']['entries'][1]['key'] = tet('RoomName')
    redacts = NONE
    if kind == 'redaction':
        redacts_id_same, redacts_id_other = evid(b'$z:x'), evid(b'$z:w')
        redacts = None
    ev = mk_event(w.sender, etype, content('incoming ' + kind, handlers, extra), incoming_id, state_key_outs, prev_events, auth_events)
    if kind == 'redaction':
        ev.data['redacts_outcomes'] = lambda: [(w.redacts_same_server, some(E.alloc_const(evid(b'$z:x')))), (z3.Not(w.redacts_same_server), some(E.alloc_const(evid(b'$z:w'))))]
    return ev, fetch_obj, reads


def run_family(C, job):
    kind, version = job
    E = C.fresh_engine(KEYS, N=8)
    E.src.load(C.extra[('events', 'dumped')][2])       # item index of ruma-events (enum variant orders); its MIR is not needed
    E.feas_mode = 'budget'
    E.feas_timeout_ms = 200
    E.max_steps = 2000000
    E.alloc_const = lambda v: alloc_const(E, v)
    label = f'v{version}:{kind}'
    rules, _ = rules_for_version(C, E, version)
    unit = kind == 'power_levels_unit'
    w = World(E, 'power_levels' if unit else kind, focus=unit)
    install(C, E, w)
    ev, fetch_obj, reads = build(C, E, w, rules)
    st = E.new_state()
    rref = E.root_ref(st, rules)
    spec_ok, applicable = SPEC.accepts(w, version)
    extra = []
    if kind == 'power_levels':
        # rule 9 is decided compositionally: here check_room_power_levels is replaced by an arbitrary verdict `rule9_accepts`
        # and the arguments it is called with are recorded, so this family decides that auth_check consults it exactly
        # when rules 1-8 pass, follows its verdict, and hands it the sender's level and the power levels of the state;
        # the family `power_levels_unit` decides that the real check_room_power_levels implements rule 9 for such arguments.
        def summary(E_, st_, callee, a, m):
            newv, curv = E_.deref(st_, a[0]), E_.deref(st_, a[1])
            if not (isinstance(newv, Obj) and newv.kind == 'PLEvent' and newv.data['event'].data['content'].data.get('pl') is w.pl_new):
                raise Inconclusive('check_room_power_levels called on something else than the incoming event')
            if curv.variant == 'Some':
                c = E_.deref(st_, curv.fields[0])
                if not (isinstance(c, Obj) and c.kind == 'PLEvent' and c.data['event'].data['content'].data.get('pl') is w.pl):
                    raise Inconclusive('check_room_power_levels called with something else than the power levels of the state')
            lvl = int_val(E_.deref(st_, a[3]))
            st_.note(('rule9', lvl, curv.variant == 'Some'))
            return [(r9, ok(UNIT)), (z3.Not(r9), err(Obj('String', E_.const_str(b'rejected by the m.room.power_levels rules'))))]
        r9 = z3.Bool('rule9_accepts')
        E.overrides.insert(0, (re.compile(r'^event_auth::check_room_power_levels$'), summary))
    if unit:
        f = E.find_func('event_auth::check_room_power_levels')
        plS = z3.BitVec('sender_level', 64)
        # the level handed over is the one rules 1-8 computed for the sender; those rules pass (otherwise rule 9 is not reached)
        extra = [plS == w.oracle['plS'], w.oracle['prefix']]
        outs = []
        newpl = Obj('PLEvent', {'event': ev})
        for present in (True, False):
            cur = some(Obj('PLEvent', {'event': w.pl_event_obj})) if present else NONE
            outs += E.run_func(f, [newpl, cur, rref, mk_int(plS)], list(w.cons) + [applicable, w.pl_present == present] + extra, st=st)
    else:
        f = E.find_func('event_auth::auth_check')
        # explore only the part of the input space the claim is about (well-formed state): prunes the malformed-state forks
        outs = E.run_func(f, [rref, ev, fetch_obj], list(w.cons) + [applicable], st=st)
    C.absorb(E)
    qspec, refine, oblig = spec_ok, [], []
    if kind == 'power_levels':
        qspec = z3.And(w.oracle['prefix'], r9)
        refine = [r9 == SPEC.power_levels_rules(w, version, w.oracle['R'], w.oracle['plS'], [])]
        for o in outs:
            for n in o.st.notes:
                if n[0] == 'rule9':
                    oblig.append(z3.And(o.cond(), z3.Or(n[1] != w.oracle['plS'], w.pl_present != n[2])))
    acc = [o.cond() for o in outs if o.kind == 'ret' and o.value.variant == 'Ok']
    rej = [o.cond() for o in outs if o.kind == 'ret' and o.value.variant == 'Err']
    pan = [o for o in outs if o.kind != 'ret']
    base = list(w.cons) + [applicable] + extra + list(E.axioms)
    C.bounds[label] = {'paths': len(outs), 'accepting': len(acc), 'rejecting': len(rej), 'panic': len(pan)}

    def report(qname, m, what):
        vec = SPEC.concretise(w, m, version)
        res = C.native(vec); vec['native'] = res
        want = z3.is_true(m.eval(spec_ok, model_completion=True))
        vec['spec_accepts'] = want
        nat = res.get('r')
        if nat in ('ok', 'err') and (nat == 'ok') != want or nat in ('panic', 'abort'):
            role = SPEC.classify_finding(vec)
            desc = f'{label}: {what}: native auth_check -> {res}, spec rules -> {"accept" if want else "reject"}; scenario {vec["summary"]}'
            if C.is_known(role):
                C.report_known(role, desc[:400])
                return role
            C.report_violation(desc, vec)
            C.samples.append({'query': qname, 'counterexample': vec['summary'], 'native': res})
            return None
        raise Broken(f'{label}: model of {qname} does not reproduce natively: native {res}, spec accept={want}: {vec["summary"]}')

    for o in pan:
        r, m = C.solve(f'{label}: auth_check cannot panic ({str(o.value)[:40]})', base + [o.cond()])
        if r == 'sat':
            report('no panic', m, 'auth_check panics')
    excl = []
    for qname, cs, negate in (('accepted => the spec accepts', acc, True), ('rejected => the spec rejects', rej, False)):
        for _ in range(4):
            r, m = C.solve_split(f'{label}: {qname}', base + excl + [z3.Not(qspec) if negate else qspec], cs)
            if r == 'sat' and refine:
                # the abstract verdict of rule 9 was free: keep only counterexamples in which it is the real rule-9 verdict
                r, m = C.solve_split(f'{label}: {qname} (rule-9 verdict concretised)', base + excl + refine + [z3.Not(qspec) if negate else qspec], cs)
            if r != 'sat':
                break
            role = report(qname, m, 'verdict differs from the authorization rules')
            if role is None:
                break
            excl.append(z3.Not(SPEC.role_formula(w, role, version)))
    if oblig:
        r, m = C.solve_split(f'{label}: rule 9 is handed the sender\'s power level and the power levels of the state', base, oblig)
        if r == 'sat':
            r, m = C.solve_split(f'{label}: rule 9 arguments (verdict concretised)', base + refine + [z3.Or(*[z3.And(c, z3.Not(spec_ok)) for c in acc] + [z3.And(c, spec_ok) for c in rej])], oblig)
            if r == 'sat':
                report('rule 9 arguments', m, 'rule 9 is evaluated with the wrong sender level / current power levels')
            else:
                C.inconclusive.append(f'{label}: rule 9 receives a level or event that differs from the specification\'s, but no scenario where it changes the verdict was found')
    # witnesses
    for k, cs in (('accept', acc), ('reject', rej)):
        r, m = C.solve(f'{label}: witness {k}', base + refine + [z3.Or(*cs) if cs else z3.BoolVal(False)])
        if r == 'sat':
            vec = SPEC.concretise(w, m, version)
            res = C.native(vec)
            if (res.get('r') == 'ok') != (k == 'accept'):
                raise Broken(f'{label}: witness for {k} behaves differently natively: {res} {vec["summary"]}')
            C.samples.append({'query': f'{label} witness {k}', 'scenario': vec['summary'], 'native': res.get('r')})
        elif k == 'reject' or kind != 'create':
            pass


def alloc_const(E, v):
    E.const_heap = getattr(E, 'const_heap', {})
    hid = next(E.heap_ctr)
    E.const_heap[hid] = v
    return Ref('heap', hid)


def body(C):
    C.engine(KEYS, N=8)
    C.extra[('events', 'dumped')] = C.dump('events', want_mir=False)      # only the item index of ruma-events (enum orders)
    C.build_replayer(['stateres'])
    kinds = ['member', 'message', 'state', 'aliases', 'redaction', 'third_party_invite', 'power_levels', 'power_levels_unit']
    versions = VERSIONS
    if os.environ.get('VERIF_VERSIONS'):
        versions = [int(x) for x in os.environ['VERIF_VERSIONS'].split(',')]
    if os.environ.get('VERIF_KINDS'):
        kinds = os.environ['VERIF_KINDS'].split(',')
    # rule 9 itself varies with the room version only through limit_notifications_power_levels (v6) and
    # integer_power_levels (v10): the quick tier runs its unit family on one version per combination (+ v11), thorough on all
    unit_versions = versions if (C.tier == 'thorough' or os.environ.get('VERIF_VERSIONS')) else [v for v in versions if v in (1, 6, 10, 11)]
    jobs = [(k, v) for k in kinds for v in (unit_versions if k == 'power_levels_unit' else versions)]
    jobs.sort(key=lambda j: j[0] != 'power_levels_unit')      # longest jobs first
    C.assumptions += SPEC.ASSUMPTIONS + [
        'm.room.power_levels events (rule 9) are decided compositionally: family power_levels runs auth_check with check_room_power_levels replaced by an arbitrary verdict and decides that it is consulted exactly when rules 1-8 pass, with the sender\'s level and the power levels of the state; family power_levels_unit runs the real check_room_power_levels for such arguments against rule 9',
        'power_levels_unit: ONE property of the content (selected by a symbolic index: one of the seven integer fields, events, notifications, users) differs arbitrarily between current and new content; the others are present (events/notifications: absent) and unchanged; users entries for sender and target only; events keys: the event\'s own type and one other',
    ]
    parallel_map(C, run_family, jobs)


if __name__ == '__main__':
    run_check('C08', body)
