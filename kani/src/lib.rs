//! Kani proof harnesses over the compiled code of ruma (path dependencies on /repo, public API only unless a
//! `cfg(ruma_verif)` hook is named).  Inputs are `kani::any()`; bounds are stated per harness.
#![allow(unused)]

#[cfg(kani)]
mod c01;
#[cfg(kani)]
mod c12;
#[cfg(kani)]
mod c16;
#[cfg(kani)]
mod c17;
