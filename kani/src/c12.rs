//! C12: room member count comparison, every pair of counts in [0, 2^53-1] and every operator.
use js_int::UInt;
use ruma_common::push::{ComparisonOperator, RoomMemberCountIs};
use std::ops::RangeBounds;

fn any_uint() -> UInt {
    let n: u64 = kani::any();
    kani::assume(n <= (1u64 << 53) - 1);
    UInt::try_from(n).unwrap()
}

fn any_op() -> ComparisonOperator {
    let k: u8 = kani::any();
    kani::assume(k < 5);
    match k {
        0 => ComparisonOperator::Eq,
        1 => ComparisonOperator::Lt,
        2 => ComparisonOperator::Gt,
        3 => ComparisonOperator::Ge,
        _ => ComparisonOperator::Le,
    }
}

#[kani::proof]
fn c12_member_count_contains() {
    let count = any_uint();
    let x = any_uint();
    let prefix = any_op();
    let is = RoomMemberCountIs { prefix, count };
    let got = is.contains(&x);
    let want = match prefix {
        ComparisonOperator::Eq => x == count,
        ComparisonOperator::Lt => x < count,
        ComparisonOperator::Gt => x > count,
        ComparisonOperator::Ge => x >= count,
        ComparisonOperator::Le => x <= count,
    };
    assert!(got == want, "member-count comparison disagrees with its operator");
    kani::cover!(got, "some count matches");
    kani::cover!(!got, "some count does not match");
}

/// the range constructors build the operator they document
#[kani::proof]
fn c12_member_count_constructors() {
    let c = any_uint();
    let x = any_uint();
    assert!(RoomMemberCountIs::from(c).contains(&x) == (x == c));
    assert!(RoomMemberCountIs::from(c..).contains(&x) == (x >= c));
    assert!(RoomMemberCountIs::from(..c).contains(&x) == (x < c));
    assert!(RoomMemberCountIs::from(..=c).contains(&x) == (x <= c));
    assert!(RoomMemberCountIs::gt(c).contains(&x) == (x > c));
}
