"""Formatting: opaque unless formatting is the subject.  `format!` of string-like arguments is modelled as
concatenation (needed by the identifier constructors and URI Display impls)."""
import re
import z3
from ..values import *
from . import model_decorator

T = TRUE


def register(E):
    model = model_decorator(E.models)

    def d(st, v):
        return E.deref(st, v)

    @model(r'^(?:std|core)::fmt::Arguments::(new|new_const|new_v1|new_v1_formatted|from_str|from_str_nonconst)$')
    def _(E, st, callee, a, m):
        return [(T, Obj('FmtArgs', tuple(d(st, x) for x in a)))]

    @model(r'^(?:std|core)::fmt::rt::Argument::(new_display|new_debug|new_lower_hex|new_upper_hex)$')
    def _(E, st, callee, a, m):
        return [(T, Obj('FmtArg', (m.group(1), a[0])))]

    @model(r'^(?:std|core)::fmt::Formatter::(write_str|write_fmt|debug_\w+|pad|write_char|pad_integral|alternate)$|^<std::fmt::Formatter as std::fmt::Write>::(write_str|write_fmt|write_char)$')
    def _(E, st, callee, a, m):
        op = m.group(1) or m.group(2)
        f = d(st, a[0])
        if isinstance(f, Obj) and f.kind == 'StrFormatter' and op in ('write_str', 'pad', 'write_char', 'write_fmt'):
            from .str_models import concat
            if op == 'write_fmt':
                piece = render_args(E, st, d(st, a[1]))
            elif op == 'write_char':
                c = d(st, a[1]).conc()
                if c is None: raise Inconclusive('write_char symbolic')
                piece = E.const_str(chr(c).encode())
            else:
                piece = E.as_str(st, a[1])
            new = Obj('StrFormatter', (concat(E, [f.data[0], piece]),))
            def eff(st2): E.store(st2, a[0], new)
            return [(T, ok(UNIT), eff)]
        if op == 'alternate': return [(T, FALSE)]
        return [(T, ok(UNIT))]

    def render_args(E, st, args):
        """FmtArgs built by format_args!: (template bytes, [&args array]) in the compact 1.9x encoding is opaque;
        supported only through E.fmt_hook (set by checks that need Display output)."""
        raise Inconclusive('formatting output needed but no formatting model applies')
    E.render_args = render_args

    @model(r'^(?:std|alloc)::fmt::format$|^std::fmt::format::format_inner$')
    def _(E, st, callee, a, m):
        return [(T, Obj('String', Str(E.fresh('fmt_bytes', z3.ArraySort(BV64, BV8)), bv(0), E.fresh_bv('fmt_len'), True, E.N)))]

    @model(r'^<(.+) as std::string::ToString>::to_string$')
    def _(E, st, callee, a, m):
        v = d(st, a[0])
        if isinstance(v, Str): return [(T, Obj('String', v))]
        if isinstance(v, Obj) and v.kind == 'String': return [(T, v)]
        # run the type's Display impl against a string-collecting formatter
        path = '<' + m.group(1) + ' as std::fmt::Display>::fmt'
        cur = st.frames[-1].fn.crate if st.frames else None
        f = E.resolve(path, cur, None, st)
        if f is None:
            return None
        fm = E.root_ref(st, Obj('StrFormatter', (E.const_str(b''),)))
        outs = E.call_value(st, FnItem(path), [a[0], fm])
        res = []
        for cond, o in outs:
            if o.kind != 'ret':
                res.append((cond, Panic(str(o.value)))); continue
            s_after = o.st
            val = Obj('String', E.read_ref(s_after, fm).data[0])
            def eff(st2, s_after=s_after):
                st2.heap = dict(s_after.heap)
                for fid, fr in s_after.fmap.items():
                    if fid in st2.fmap: st2.fmap[fid].locs = dict(fr.locs)
            res.append((cond, val, eff))
        return res

    @model(r'^<(&?str|std::string::String) as std::fmt::(Display|Debug)>::fmt$')
    def _(E, st, callee, a, m):
        f = d(st, a[1])
        if isinstance(f, Obj) and f.kind == 'StrFormatter' and m.group(2) == 'Display':
            from .str_models import concat
            new = Obj('StrFormatter', (concat(E, [f.data[0], E.as_str(st, a[0])]),))
            def eff(st2): E.store(st2, a[1], new)
            return [(T, ok(UNIT), eff)]
        return [(T, ok(UNIT))]

    @model(r'^<(.+) as std::fmt::(Display|Debug|LowerHex|UpperHex)>::fmt$')
    def _(E, st, callee, a, m):
        f = d(st, a[1])
        if isinstance(f, Obj) and f.kind == 'StrFormatter':
            raise Inconclusive('Display output of ' + m.group(1) + ' needed but not modelled')
        return [(T, ok(UNIT))]

    @model(r'^<(.+) as std::hash::Hash>::hash$|^std::hash::Hash::hash$')
    def _(E, st, callee, a, m):
        return [(T, UNIT)]

    # tracing: no subscriber installed -> every event/span is disabled
    @model(r'^<tracing(?:_core)?::(?:metadata::)?Level as std::cmp::PartialOrd>::(le|lt|ge|gt)$')
    def _(E, st, callee, a, m):
        return [(T, FALSE)]

    @model(r'^tracing::level_filters::LevelFilter::current$|^tracing_core::metadata::LevelFilter::current$|^tracing::metadata::LevelFilter::current$')
    def _(E, st, callee, a, m): return [(T, Opaque('LevelFilter'))]

    @model(r'^tracing::(span::)?Span::(none|new|enter|entered|in_scope|record|is_disabled|current)$|^tracing::__macro_support::\w+$|^tracing::Span::new_disabled$')
    def _(E, st, callee, a, m):
        return [(T, Opaque('tracing'))]
