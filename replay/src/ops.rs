use serde_json::{json, Value};

use crate::{arg_bytes, arg_str};

fn res_unit<E: std::fmt::Debug>(r: Result<(), E>) -> Value {
    match r {
        Ok(()) => json!({"r": "ok"}),
        Err(e) => json!({"r": "err", "e": format!("{e:?}")}),
    }
}

pub fn dispatch(op: &str, req: &Value) -> Result<Value, String> {
    if let Some(kind) = op.strip_prefix("idval:") {
        return idval(kind, req);
    }
    #[cfg(feature = "common")]
    if let Some(kind) = op.strip_prefix("c04:") {
        return crate::ops_common::c04(kind, req);
    }
    #[cfg(feature = "common")]
    if let Some(k) = op.strip_prefix("c13:") {
        return crate::ops_common::c13(k, req);
    }
    #[cfg(feature = "events")]
    if let Some(k) = op.strip_prefix("c20:") {
        return crate::ops_events::c20(k, req);
    }
    #[cfg(feature = "stateres")]
    if let Some(k) = op.strip_prefix("c08:") {
        return crate::ops_stateres::c08(k, req);
    }
    #[cfg(feature = "stateres")]
    if op == "c06:creator_cache" {
        return crate::ops_stateres::creator_cache(req);
    }
    #[cfg(feature = "stateres")]
    if op == "c06:separate" {
        return crate::ops_stateres::separate(req);
    }
    #[cfg(feature = "stateres")]
    if op == "c06:auth_diff" {
        return crate::ops_stateres::auth_diff(req);
    }
    #[cfg(feature = "stateres")]
    if op == "c07:power_graph" {
        return crate::ops_stateres::power_graph(req);
    }
    #[cfg(feature = "stateres")]
    if op == "c07:mainline" {
        return crate::ops_stateres::mainline(req);
    }
    #[cfg(feature = "stateres")]
    if op == "c07:toposort" {
        return crate::ops_stateres::toposort(req);
    }
    #[cfg(feature = "stateres")]
    if let Some(k) = op.strip_prefix("c09:") {
        return crate::ops_stateres::c08(k, req);
    }
    #[cfg(feature = "signatures")]
    if op == "c17:ring_compat" {
        let b = crate::arg_bytes(req, "s")?;
        return Ok(match ruma_signatures::verif_compatible_document(&b[..]) {
            Some(v) => json!({"r": "ok", "rewritten_len": v.len()}),
            None => json!({"r": "ok", "rewritten_len": null}),
        });
    }
    #[cfg(feature = "signatures")]
    if let Some(k) = op.strip_prefix("c02:") {
        return crate::ops_signatures::c02(k, req);
    }
    #[cfg(feature = "signatures")]
    if let Some(k) = op.strip_prefix("c03:") {
        return crate::ops_signatures::c03(k, req);
    }
    #[cfg(feature = "signatures")]
    if let Some(k) = op.strip_prefix("c05:") {
        return crate::ops_signatures::c05(k, req);
    }
    #[cfg(feature = "common")]
    if op == "c17:content_disposition" {
        let b = crate::arg_bytes(req, "s")?;
        return Ok(match ruma_common::http_headers::ContentDisposition::try_from(&b[..]) {
            Ok(v) => json!({"r": "ok", "v": v.to_string()}),
            Err(e) => json!({"r": "err", "e": e.to_string()}),
        });
    }
    #[cfg(feature = "common")]
    if let Some(k) = op.strip_prefix("c12:") {
        return crate::ops_common::c12(k, req);
    }
    #[cfg(feature = "common")]
    if let Some(k) = op.strip_prefix("c11:") {
        return crate::ops_common::c11(k, req);
    }
    #[cfg(feature = "common")]
    if op == "c16:quote" {
        let s = crate::arg_str(req, "s")?;
        let q = ruma_common::http_headers::quote_ascii_string_if_required(&s);
        let borrowed = matches!(q, std::borrow::Cow::Borrowed(_));
        let inner = if q.len() >= 2 && q.starts_with('"') && q.ends_with('"') { Some(ruma_common::http_headers::unescape_string(&q[1..q.len() - 1])) } else { None };
        return Ok(json!({"r": "ok", "q": q.as_ref(), "borrowed": borrowed, "token": ruma_common::http_headers::is_token_string(&q), "unquoted": inner}));
    }
    #[cfg(feature = "common")]
    if op == "c16:select" {
        return crate::ops_common::c16(req);
    }
    #[cfg(feature = "common")]
    if op == "c10acc" {
        return crate::ops_common::c10acc(req);
    }
    if op == "c19:roundtrip" {
        return c19(req);
    }
    if op == "char_pred" {
        let c = req.get("c").and_then(|x| x.as_u64()).ok_or("missing c")? as u32;
        let ch = char::from_u32(c).ok_or("not a scalar value")?;
        let name = req.get("name").and_then(|x| x.as_str()).unwrap_or("");
        let v = match name {
            "is_alphanumeric" => ch.is_alphanumeric(),
            "is_alphabetic" => ch.is_alphabetic(),
            "is_numeric" => ch.is_numeric(),
            "is_whitespace" => ch.is_whitespace(),
            "is_uppercase" => ch.is_uppercase(),
            "is_lowercase" => ch.is_lowercase(),
            "is_control" => ch.is_control(),
            _ => return Err(format!("unknown char predicate {name}")),
        };
        return Ok(json!({"r": "ok", "v": v}));
    }
    Err(format!("unknown op {op}"))
}

struct AnyKey;
impl AsRef<str> for AnyKey { fn as_ref(&self) -> &str { "" } }
impl ruma_identifiers_validation::KeyName for AnyKey {
    fn validate(_s: &str) -> Result<(), ruma_identifiers_validation::Error> { Ok(()) }
}

fn idval(kind: &str, req: &Value) -> Result<Value, String> {
    use ruma_identifiers_validation as v;
    let s = arg_str(req, "s")?;
    Ok(match kind {
        "server_name" => res_unit(v::server_name::validate(&s)),
        "user_id" => res_unit(v::user_id::validate(&s)),
        "user_id_strict" => res_unit(v::user_id::validate_strict(&s)),
        "localpart_is_fully_conforming" => match v::user_id::localpart_is_fully_conforming(&s) {
            Ok(b) => json!({"r": "ok", "v": b}),
            Err(e) => json!({"r": "err", "e": format!("{e:?}")}),
        },
        "event_id" => res_unit(v::event_id::validate(&s)),
        "room_id" => res_unit(v::room_id::validate(&s)),
        "room_alias_id" => res_unit(v::room_alias_id::validate(&s)),
        "room_id_or_alias_id" => res_unit(v::room_id_or_alias_id::validate(&s)),
        "room_version_id" => res_unit(v::room_version_id::validate(&s)),
        "client_secret" => res_unit(v::client_secret::validate(&s)),
        "base64_public_key" => res_unit(v::base64_public_key::validate(&s)),
        "server_signing_key_version" => res_unit(v::server_signing_key_version::validate(&s)),
        "mxc_uri" => match v::mxc_uri::validate(&s) {
            Ok(i) => json!({"r": "ok", "v": i.get()}),
            Err(e) => json!({"r": "err", "e": format!("{e:?}")}),
        },
        "key_id_any" => match v::key_id::validate::<AnyKey>(&s) {
            Ok(i) => json!({"r": "ok", "v": i.get()}),
            Err(e) => json!({"r": "err", "e": format!("{e:?}")}),
        },
        "localpart_is_backwards_compatible" => res_unit(v::localpart_is_backwards_compatible(&s)),
        _ => return Err(format!("unknown idval kind {kind}")),
    })
}

#[allow(dead_code)]
fn _unused(req: &Value) { let _ = arg_bytes(req, "x"); }


/// string enum round trip through the real `From<&str>` / `AsRef<str>` impls, by enum type path
fn c19(req: &Value) -> Result<Value, String> {
    let s = arg_str(req, "s")?;
    let name = req.get("enum").and_then(|x| x.as_str()).unwrap_or("");
    let last = name.rsplit("::").next().unwrap_or("");
    let krate = req.get("crate").and_then(|x| x.as_str()).unwrap_or("");
    macro_rules! rt {
        ($t:ty) => {{
            let v = <$t>::from(s.as_str());
            let back: &str = v.as_ref();
            let again = <$t>::from(back);
            return Ok(json!({"r": "ok", "v": back, "idempotent": again == v, "debug": format!("{v:?}")}));
        }};
    }
    #[cfg(feature = "common")]
    if krate == "common" {
        use ruma_common as c;
        match last {
            "PresenceState" => rt!(c::presence::PresenceState),
            "PushFormat" => rt!(c::push::PushFormat),
            "RuleKind" => rt!(c::push::RuleKind),
            "DeviceKeyAlgorithm" => rt!(c::DeviceKeyAlgorithm),
            "SigningKeyAlgorithm" => rt!(c::SigningKeyAlgorithm),
            "EventEncryptionAlgorithm" => rt!(c::EventEncryptionAlgorithm),
            "KeyDerivationAlgorithm" => rt!(c::KeyDerivationAlgorithm),
            "OneTimeKeyAlgorithm" => rt!(c::OneTimeKeyAlgorithm),
            "RoomType" => rt!(c::room::RoomType),
            "Medium" => rt!(c::thirdparty::Medium),
            _ => {}
        }
    }
    #[cfg(feature = "events")]
    if krate == "events" {
        use ruma_events as e;
        match last {
            "MembershipState" => rt!(e::room::member::MembershipState),
            "HistoryVisibility" => rt!(e::room::history_visibility::HistoryVisibility),
            "GuestAccess" => rt!(e::room::guest_access::GuestAccess),
            "ReceiptType" => rt!(e::receipt::ReceiptType),
            "RelationType" => rt!(e::relation::RelationType),
            "VerificationMethod" => rt!(e::key::verification::VerificationMethod),
            "HashAlgorithm" => rt!(e::key::verification::HashAlgorithm),
            "KeyAgreementProtocol" => rt!(e::key::verification::KeyAgreementProtocol),
            "MessageAuthenticationCode" => rt!(e::key::verification::MessageAuthenticationCode),
            "ShortAuthenticationString" => rt!(e::key::verification::ShortAuthenticationString),
            "CancelCode" => rt!(e::key::verification::cancel::CancelCode),
            _ => {}
        }
        macro_rules! rt_ev {
            ($t:ty) => {{
                let v = <$t>::from(s.as_str());
                let back = v.to_string();
                let again = <$t>::from(back.as_str());
                return Ok(json!({"r": "ok", "v": back, "idempotent": again == v, "debug": format!("{v:?}")}));
            }};
        }
        match last {
            "TimelineEventType" => rt_ev!(e::TimelineEventType),
            "StateEventType" => rt_ev!(e::StateEventType),
            "MessageLikeEventType" => rt_ev!(e::MessageLikeEventType),
            "EphemeralRoomEventType" => rt_ev!(e::EphemeralRoomEventType),
            "GlobalAccountDataEventType" => rt_ev!(e::GlobalAccountDataEventType),
            "RoomAccountDataEventType" => rt_ev!(e::RoomAccountDataEventType),
            "ToDeviceEventType" => rt_ev!(e::ToDeviceEventType),
            _ => {}
        }
    }
    Ok(json!({"r": "unknown-enum"}))
}
