#!/usr/bin/env python3-vt
"""C09 - auth-event selection matches the spec and authorization reads nothing else.

(a) auth_types_for_event is executed from the MIR on the symbolic events of the C08 world; z3 compares the selected
    (type, state_key) pairs with the specification's auth-event selection, per room version.
(b) read-set containment: on every path of auth_check (same exploration as C08) every (type, state_key) passed to
    fetch_state is one of the pairs auth_types_for_event selects for that event.  The state is an uninterpreted function
    of the key and auth_check is otherwise deterministic, so containment of the read set is non-interference for all
    pairs of states that agree on the selected keys."""
import os, sys, re
sys.path.insert(0, os.path.dirname(os.path.abspath(__file__)))
from common import *
from authsym import *
from spec import auth_rules as SPEC
import c08
from mirsym.models.str_models import str_eq

os.environ.setdefault('VERIF_MAIN_MODULE', 'c09')


def spec_selection(w, version):
    """[(cond, type variant, key Str|bytes)] : the specification's auth events selection for the world's incoming event"""
    E = w.E
    sel = []
    if w.kind == 'create':
        return sel
    T = z3.BoolVal(True)
    sel.append((T, 'RoomCreate', b''))
    sel.append((T, 'RoomPowerLevels', b''))
    sel.append((T, 'RoomMember', w.sender.str))
    if w.kind == 'member':
        em = w.ev_membership
        sel.append((T, 'RoomMember', 'STATE_KEY'))
        jl = z3.Or(SPEC.is_m(em, 'join'), SPEC.is_m(em, 'invite'), SPEC.is_m(em, 'knock'))
        sel.append((jl, 'RoomJoinRules', b''))
        # third-party invite token and restricted-join authoriser
        sel.append((z3.And(SPEC.is_m(em, 'invite'), w.ev_tpi.ok(), w.ev_tpi_token == 1), 'RoomThirdPartyInvite', b't'))
        sel.append((z3.And(SPEC.is_m(em, 'join'), z3.BoolVal(version >= 8), w.ev_authorised_via.ok()), 'RoomMember', w.authoriser.str))
    return sel


def run_family(C, job):
    kind, version = job
    E = C.fresh_engine(c08.KEYS, N=8)
    E.src.load(C.extra[('events', 'dumped')][2])
    E.feas_mode = 'budget'; E.feas_timeout_ms = 200; E.max_steps = 2000000
    E.alloc_const = lambda v: c08.alloc_const(E, v)
    label = f'v{version}:{kind}'
    rules, _ = rules_for_version(C, E, version)
    w = c08.World(E, kind)
    install(C, E, w)
    ev, fetch_obj, reads = c08.build(C, E, w, rules)
    st = E.new_state()
    rref = E.root_ref(st, rules)
    base = list(w.cons)
    # ---------------- (a) selection
    fsel = E.find_func('event_auth::auth_types_for_event')
    d = ev.data
    sk_outs = d['state_key_outcomes']()
    sel_paths = []      # (cond, [(variant, key Str)]) or (cond, 'err')
    for skc, skv in sk_outs:
        st2 = st.clone(); st2.pc = list(st2.pc) + [skc]
        outs = E.run_func(fsel, [E.root_ref(st2, d['event_type']), d['sender'], skv, d['content'], rref], base + [skc], st=st2)
        for o in outs:
            if o.kind != 'ret':
                sel_paths.append((o.cond(), 'panic', str(o.value))); continue
            if o.value.variant == 'Err':
                sel_paths.append((o.cond(), 'err', None)); continue
            vec = E.deref(o.st, o.value.fields[0])
            pairs = []
            for t in vec.data:
                t = E.deref(o.st, t)
                pairs.append((E.deref(o.st, t.fields[0]).variant, E.as_str(o.st, t.fields[1])))
            sel_paths.append((o.cond(), 'ok', pairs))
    C.absorb(E)
    spec = spec_selection(w, version)
    sk = w.state_key_kind

    def key_eq(k1, k2):
        a = k1 if isinstance(k1, Str) else E.const_str(k1)
        b = k2 if isinstance(k2, Str) else E.const_str(k2)
        return str_eq(E, a, b)

    def state_key_str():
        # the incoming event's state key as a Str per kind (only when present)
        outs = ev.data['state_key_outcomes']()
        return [(c, v.fields[0]) for c, v in outs if v.variant == 'Some']
    bad = []
    for cond, kindp, pairs in sel_paths:
        if kindp == 'panic':
            bad.append(cond); continue
        if kindp == 'err':
            # selection may only fail where the spec's selection is undefined: member event without state_key / malformed content
            allowed = z3.BoolVal(False)
            if kind == 'member':
                allowed = z3.Or(sk == 0, z3.Not(w.ev_membership.ok()), z3.And(SPEC.is_m(w.ev_membership, 'invite'), w.ev_tpi.bad()),
                                z3.And(SPEC.is_m(w.ev_membership, 'invite'), w.ev_tpi.ok(), w.ev_tpi_token != 1),
                                z3.And(SPEC.is_m(w.ev_membership, 'join'), z3.BoolVal(version >= 8), w.ev_authorised_via.bad()))
            bad.append(z3.And(cond, z3.Not(allowed))); continue
        # every spec pair selected, every selected pair in the spec, no duplicates
        conds = []
        for scond, svar, skey in spec:
            if skey == 'STATE_KEY':
                for c2, sks in state_key_str():
                    hit = z3.Or(*[z3.And(z3.BoolVal(v == svar), key_eq(k, sks)) for v, k in pairs]) if pairs else z3.BoolVal(False)
                    conds.append(z3.Implies(z3.And(scond, c2), hit))
            else:
                hit = z3.Or(*[z3.And(z3.BoolVal(v == svar), key_eq(k, skey)) for v, k in pairs]) if pairs else z3.BoolVal(False)
                conds.append(z3.Implies(scond, hit))
        for v, k in pairs:
            alts = []
            for scond, svar, skey in spec:
                if svar != v: continue
                if skey == 'STATE_KEY':
                    for c2, sks in state_key_str():
                        alts.append(z3.And(scond, c2, key_eq(k, sks)))
                else:
                    alts.append(z3.And(scond, key_eq(k, skey)))
            conds.append(z3.Or(*alts) if alts else z3.BoolVal(False))
        for i in range(len(pairs)):
            for j in range(i + 1, len(pairs)):
                if pairs[i][0] == pairs[j][0]:
                    conds.append(z3.Not(key_eq(pairs[i][1], pairs[j][1])))
        bad.append(z3.And(cond, z3.Not(z3.And(*conds))))
    r, m = C.solve_split(f'{label}: selected auth-event keys == the specification\'s selection (no duplicates)', base + list(E.axioms), bad)
    if r == 'sat':
        vec = SPEC.concretise(w, m, version); vec['op'] = 'c09:select'
        res = C.native(vec); vec['native'] = res
        want = expected_selection(vec, version)
        got = sorted(res.get('pairs', [])) if res.get('r') == 'ok' else res.get('r')
        if got != want:
            C.report_violation(f'{label}: auth_types_for_event selects {got}, the specification selects {want}: {vec["summary"]["incoming"]}', vec)
            C.samples.append({'query': label, 'counterexample': vec['summary']['incoming'], 'native': res})
        else:
            raise Broken(f'{label}: selection model does not reproduce natively: native {res}, expected {want}: {vec["summary"]["incoming"]}')
    else:
        # model validation: one concrete event of this family through the native selection and the reference selection
        okc = [c for c, kp, _ in sel_paths if kp == 'ok']
        r2, m2 = C.solve(f'{label}: selection witness', base + list(E.axioms) + ([z3.Or(*okc)] if okc else []))
        if r2 == 'sat':
            vec = SPEC.concretise(w, m2, version); vec['op'] = 'c09:select'
            res = C.native(vec)
            C.model_validation += 1
            want = expected_selection(vec, version)
            got = sorted(res.get('pairs', [])) if res.get('r') == 'ok' else 'err'
            if got != want:
                raise Broken(f'{label}: selection witness disagrees natively: native {got}, reference {want}: {vec["summary"]["incoming"]}')
            C.samples.append({'family': label, 'selection_witness': want})
    # ---------------- (b) read-set containment on the auth_check paths
    spec_ok, applicable = SPEC.accepts(w, version)
    f = E.find_func('event_auth::auth_check')
    outs = E.run_func(f, [rref, ev, fetch_obj], base + [applicable], st=st)
    C.absorb(E)
    viol = []
    nreads = 0
    sel_cache = {}

    def selected(var, key):
        k = (var, key.base.get_id(), z3.simplify(key.off).get_id(), z3.simplify(key.ln).get_id(),
             tuple(e.get_id() for e in key.elems) if key.elems is not None else None) if isinstance(key, Str) else (var, key)
        if k not in sel_cache:
            okc = []
            for cond, kindp, pairs in sel_paths:
                if kindp != 'ok': continue
                hits = [key_eq(kk, key) for v, kk in pairs if v == var]
                if hits:
                    okc.append(z3.And(cond, z3.Or(*hits)))
            sel_cache[k] = z3.Or(*okc) if okc else z3.BoolVal(False)
        return sel_cache[k]
    for o in outs:
        fetches = [n for n in o.st.notes if n[0] == 'fetch']
        nreads += len(fetches)
        miss = [z3.Not(selected(var, key)) for _, var, key in fetches]
        if miss:
            viol.append(z3.And(o.cond(), z3.Or(*miss)))
    if os.environ.get('VERIF_DEBUG'):
        seen = {}
        for o in outs:
            for _, var, key in [n for n in o.st.notes if n[0] == 'fetch']:
                who = [n_ for n_, u in (('sender', w.sender), ('target', w.target), ('authoriser', w.authoriser), ('creator', w.creator)) if isinstance(key, Str) and u.str.base.get_id() == key.base.get_id()]
                kk = (var, str(key.elems[1]) if isinstance(key, Str) and key.elems else str(key)[:20])
                seen[kk] = seen.get(kk, 0) + 1
        print('[debug] reads', seen, file=sys.stderr)
        cnt = {'sat': 0, 'unsat': 0, 'unknown': 0}
        for o in outs:
            fa = [n for n in o.st.notes if n[0] == 'fetch' and isinstance(n[2], Str) and n[2].elems and str(n[2].elems[1]) == 'auth_l']
            if fa:
                sel_ = selected(fa[0][1], fa[0][2])
                s_ = z3.Solver(); s_.set('timeout', 5000); s_.add(*base, applicable, *E.axioms, o.cond(), z3.Not(sel_))
                cnt[str(s_.check())] += 1
        print('[debug] auth-read paths with not-selected:', cnt, file=sys.stderr)
    # only events for which the selection is defined (the others are malformed and rejected without a selection)
    sel_defined = z3.Or(*[c for c, kp, _ in sel_paths if kp == 'ok']) if any(kp == 'ok' for _, kp, _ in sel_paths) else z3.BoolVal(False)
    r, m = C.solve_split(f'{label}: every state read of auth_check is a selected auth-event key ({nreads} reads on {len(outs)} paths)',
                         base + [applicable, sel_defined] + list(E.axioms), viol)
    if r == 'sat':
        vec = SPEC.concretise(w, m, version)
        res = C.native(vec)
        vec2 = dict(vec); vec2['op'] = 'c09:select'
        sel = C.native(vec2)
        vec['native'] = {'auth_check': res, 'selection': sel}
        outside = [x for x in res.get('reads', []) if x.split('|', 1) not in [list(p) for p in sel.get('pairs', [])]] if sel.get('r') == 'ok' else None
        if outside:
            C.report_violation(f'{label}: auth_check reads state keys {outside} that are not among the selected auth events {sel.get("pairs")}: {vec["summary"]["incoming"]}', vec)
            C.samples.append({'query': label, 'reads_outside_selection': outside})
        else:
            raise Broken(f'{label}: read-set model does not reproduce natively: reads {res.get("reads")} selection {sel}')
    C.bounds[label] = {'auth_check_paths': len(outs), 'state_reads': nreads, 'selection_paths': len(sel_paths)}
    C.samples.append({'family': label, 'state_reads_checked': nreads})


def expected_selection(vec, version):
    inc = vec['incoming']
    if inc['type'] == 'm.room.create':
        return []
    pairs = {('m.room.create', ''), ('m.room.power_levels', ''), ('m.room.member', inc['sender'])}
    if inc['type'] == 'm.room.member':
        if 'state_key' not in inc:
            return 'err'
        pairs.add(('m.room.member', inc['state_key']))
        ms = inc['content'].get('membership')
        if not isinstance(ms, str):
            return 'err'
        if ms in ('join', 'invite', 'knock'):
            pairs.add(('m.room.join_rules', ''))
        if ms == 'invite' and 'third_party_invite' in inc['content']:
            tp = inc['content']['third_party_invite']
            if not isinstance(tp, dict):
                return 'err'
            if not isinstance(tp.get('signed', {}).get('token'), str):
                return 'err'
            pairs.add(('m.room.third_party_invite', tp['signed']['token']))
        if ms == 'join' and version >= 8 and 'join_authorised_via_users_server' in inc['content']:
            a = inc['content']['join_authorised_via_users_server']
            if not isinstance(a, str):
                return 'err'
            pairs.add(('m.room.member', a))
    return sorted([list(p) for p in pairs])


def body(C):
    C.engine(c08.KEYS, N=8)
    C.extra[('events', 'dumped')] = C.dump('events', want_mir=False)
    C.build_replayer(['stateres'])
    kinds = ['member', 'message', 'state', 'aliases', 'redaction', 'third_party_invite']
    versions = c08.VERSIONS if C.tier == 'thorough' else [1, 3, 6, 7, 8, 10, 11]
    if os.environ.get('VERIF_VERSIONS'):
        versions = [int(x) for x in os.environ['VERIF_VERSIONS'].split(',')]
    if os.environ.get('VERIF_KINDS'):
        kinds = os.environ['VERIF_KINDS'].split(',')
    C.assumptions += SPEC.ASSUMPTIONS + [
        'read-set containment is decided on the auth_check paths of the C08 world (well-formed state); the selection itself for every incoming event of that world incl. malformed contents',
        'iterative_auth_check building its state from auth_types_for_event is not decided here (call-graph fact only)',
        f'quick tier: room versions {versions} (one per distinct AuthorizationRules constant); thorough: all eleven',
    ]
    parallel_map(C, run_family, [(k, v) for k in kinds for v in versions])


if __name__ == '__main__':
    run_check('C09', body)
