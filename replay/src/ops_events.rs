//! entry points of ruma-events
use ruma_common::UserId;
use ruma_events::{room::power_levels::{RoomPowerLevels, RoomPowerLevelsEventContent}, MessageLikeEventType, StateEventType};
use serde_json::{json, Value};

pub fn c20(kind: &str, req: &Value) -> Result<Value, String> {
    match kind {
        "defaults" => {
            let c = RoomPowerLevelsEventContent::new();
            Ok(json!({"r": "ok", "v": {"ban": i64::from(c.ban), "events_default": i64::from(c.events_default), "invite": i64::from(c.invite),
                "kick": i64::from(c.kick), "redact": i64::from(c.redact), "state_default": i64::from(c.state_default), "users_default": i64::from(c.users_default)}}))
        }
        "helper" => {
            let content: RoomPowerLevelsEventContent = serde_json::from_value(req["content"].clone()).map_err(|e| e.to_string())?;
            let pl: RoomPowerLevels = content.into();
            let a = <&UserId>::try_from(req["actor"].as_str().unwrap_or("")).map_err(|e| e.to_string())?;
            let t = <&UserId>::try_from(req["target"].as_str().unwrap_or("")).map_err(|e| e.to_string())?;
            let ety = req["event_type"].as_str().unwrap_or("");
            let v = match req["helper"].as_str().unwrap_or("") {
                "for_user" => json!(i64::from(pl.for_user(a))),
                "user_can_ban" => json!(pl.user_can_ban(a)),
                "user_can_ban_user" => json!(pl.user_can_ban_user(a, t)),
                "user_can_unban" => json!(pl.user_can_unban(a)),
                "user_can_unban_user" => json!(pl.user_can_unban_user(a, t)),
                "user_can_invite" => json!(pl.user_can_invite(a)),
                "user_can_kick" => json!(pl.user_can_kick(a)),
                "user_can_kick_user" => json!(pl.user_can_kick_user(a, t)),
                "user_can_send_message" => json!(pl.user_can_send_message(a, MessageLikeEventType::from(ety))),
                "user_can_send_state" => json!(pl.user_can_send_state(a, StateEventType::from(ety))),
                "for_message" => json!(i64::from(pl.for_message(MessageLikeEventType::from(ety)))),
                "for_state" => json!(i64::from(pl.for_state(StateEventType::from(ety)))),
                "user_can_redact_own_event" => json!(pl.user_can_redact_own_event(a)),
                "user_can_redact_event_of_other" => json!(pl.user_can_redact_event_of_other(a)),
                "user_can_trigger_room_notification" => json!(pl.user_can_trigger_room_notification(a)),
                "user_can_change_user_power_level" => json!(pl.user_can_change_user_power_level(a, t)),
                h => return Err(format!("unknown helper {h}")),
            };
            Ok(json!({"r": "ok", "v": v}))
        }
        _ => Err(format!("unknown c20 op {kind}")),
    }
}
