//! entry points of ruma-common
use ruma_common::{
    canonical_json::{redact, redact_content_in_place, redact_in_place, CanonicalJsonObject, CanonicalJsonValue},
    RoomVersionId,
};
use serde_json::{json, Value};

fn version(req: &Value) -> Result<RoomVersionId, String> {
    let v = req.get("version").and_then(|x| x.as_str()).ok_or("missing version")?;
    RoomVersionId::try_from(v).map_err(|e| e.to_string())
}

fn obj(req: &Value, k: &str) -> Result<CanonicalJsonObject, String> {
    let v = req.get(k).ok_or_else(|| format!("missing {k}"))?.clone();
    match CanonicalJsonValue::try_from(v).map_err(|e| e.to_string())? {
        CanonicalJsonValue::Object(o) => Ok(o),
        _ => Err(format!("{k} is not an object")),
    }
}

pub fn c04(kind: &str, req: &Value) -> Result<Value, String> {
    let ver = version(req)?;
    let rules = ver.rules().ok_or("unknown room version")?;
    match kind {
        // redact through the three entry points; report each result
        "redact" => {
            let ev = obj(req, "event")?;
            let copying = redact(ev.clone(), &rules.redaction, None);
            let mut inplace = ev.clone();
            let r2 = redact_in_place(&mut inplace, &rules.redaction, None);
            let out = match (&copying, &r2) {
                (Ok(a), Ok(())) => json!({"r": "ok", "v": serde_json::to_value(a).unwrap(), "inplace": serde_json::to_value(&inplace).unwrap()}),
                (Err(e), Err(_)) => json!({"r": "err", "e": e.to_string()}),
                _ => json!({"r": "disagree", "copying_ok": copying.is_ok(), "inplace_ok": r2.is_ok()}),
            };
            Ok(out)
        }
        "content" => {
            let mut content = obj(req, "content")?;
            let ty = req.get("type").and_then(|x| x.as_str()).ok_or("missing type")?;
            match redact_content_in_place(&mut content, &rules.redaction, ty) {
                Ok(()) => Ok(json!({"r": "ok", "v": serde_json::to_value(&content).unwrap()})),
                Err(e) => Ok(json!({"r": "err", "e": e.to_string()})),
            }
        }
        "rules" => {
            let r = &rules.redaction;
            Ok(json!({"r": "ok", "v": {
                "keep_room_aliases_aliases": r.keep_room_aliases_aliases,
                "keep_room_join_rules_allow": r.keep_room_join_rules_allow,
                "keep_room_member_join_authorised_via_users_server": r.keep_room_member_join_authorised_via_users_server,
                "keep_origin_membership_prev_state": r.keep_origin_membership_prev_state,
                "keep_room_create_content": r.keep_room_create_content,
                "keep_room_redaction_redacts": r.keep_room_redaction_redacts,
                "keep_room_power_levels_invite": r.keep_room_power_levels_invite,
                "keep_room_member_third_party_invite_signed": r.keep_room_member_third_party_invite_signed,
            }}))
        }
        _ => Err(format!("unknown c04 op {kind}")),
    }
}


/// parse an identifier through the public API and call its component accessors
pub fn c10acc(req: &Value) -> Result<Value, String> {
    use ruma_common::{EventId, RoomAliasId, ServerName, UserId};
    let s = crate::arg_str(req, "s")?;
    let ty = req.get("type").and_then(|x| x.as_str()).unwrap_or("");
    Ok(match ty {
        "ServerName" => match <&ServerName>::try_from(s.as_str()) {
            Err(e) => json!({"r": "err", "e": format!("{e:?}")}),
            Ok(n) => {
                let host = n.host();
                let port = n.port();
                let ip = n.is_ip_literal();
                let rest = &s[host.len().min(s.len())..];
                let recomposed = match port { Some(_) => format!("{host}{rest}"), None => host.to_owned() };
                let port_text_ok = match port { Some(p) => rest.strip_prefix(':').and_then(|t| t.parse::<u16>().ok()) == Some(p), None => rest.is_empty() };
                json!({"r": "ok", "host": host, "port": port, "is_ip_literal": ip, "stored": n.as_str(),
                       "recomposed": if port_text_ok { recomposed } else { format!("{host}<port mismatch:{port:?}>") }})
            }
        },
        "UserId" => match <&UserId>::try_from(s.as_str()) {
            Err(e) => json!({"r": "err", "e": format!("{e:?}")}),
            Ok(u) => json!({"r": "ok", "localpart": u.localpart(), "server_name": u.server_name().as_str(), "stored": u.as_str(),
                            "recomposed": format!("@{}:{}", u.localpart(), u.server_name())}),
        },
        "RoomAliasId" => match <&RoomAliasId>::try_from(s.as_str()) {
            Err(e) => json!({"r": "err", "e": format!("{e:?}")}),
            Ok(u) => json!({"r": "ok", "alias": u.alias(), "server_name": u.server_name().as_str(), "stored": u.as_str(),
                            "recomposed": format!("#{}:{}", u.alias(), u.server_name())}),
        },
        "EventId" => match <&EventId>::try_from(s.as_str()) {
            Err(e) => json!({"r": "err", "e": format!("{e:?}")}),
            Ok(u) => json!({"r": "ok", "localpart": u.localpart(), "server_name": u.server_name().map(|x| x.as_str().to_owned()), "stored": u.as_str(),
                            "recomposed": match u.server_name() { Some(sn) => format!("${}:{}", u.localpart(), sn), None => format!("${}", u.localpart()) }}),
        },
        _ => return Err(format!("unknown identifier type {ty}")),
    })
}
