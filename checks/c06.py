#!/usr/bin/env python3-vt
"""C06 - determinism / independence of hash iteration order, for the order-sensitive kernel that is within reach.

Runs the harness of checks/c07.py (lexicographical_topological_sort under *every* iteration order of every HashMap / HashSet it
walks, every DAG up to the bound, symbolic power levels and timestamps): the emitted order is proved to be a function of the
graph and the keys, hence the same for every hasher seed, thread and call.  The native replays call the real function 16 times
per instance (fresh RandomState seeds per map).  resolve() as a whole, argument permutations of state sets / auth chains and the
creator cache are outside the claim (see DESIGN.md)."""
import os, sys
sys.path.insert(0, os.path.dirname(os.path.abspath(__file__)))
os.environ['VERIF_PID'] = 'C06'
os.environ.setdefault('VERIF_MAIN_MODULE', 'c07')
from common import run_check
import c07

if __name__ == '__main__':
    run_check('C06', c07.body)
