"""Models of str / [u8] / char / u8 functions (documented std semantics over the byte-array representation)."""
import re
import z3
from ..values import *
from . import model_decorator

T = TRUE


def cap(E, s):
    return s.cap if s.cap is not None else E.N


def sub(s, a, ln, is_str=None, capv=None):
    return Str(s.base, s.off + a, ln, s.is_str if is_str is None else is_str, s.cap if capv is None else capv, s.cbytes, s.abs_cap, s.elems)


def positions(E, s):
    """[(guard, byte, relative index term)] over the bytes of s.  Windows at a symbolic offset of a zero-based buffer are
    enumerated by absolute buffer position so that every array read has a constant index."""
    if z3.is_bv_value(s.off) or s.abs_cap is None or s.elems is not None:
        if s.elems is not None and not z3.is_bv_value(s.off):
            end = s.off + s.ln
            return [(z3.And(z3.ULE(s.off, bv(k)), z3.ULT(bv(k), end)), s.elems[k], bv(k) - s.off) for k in range(len(s.elems))]
        return [(in_window(j, s), s.at(j), bv(j)) for j in range(cap(E, s))]
    end = s.off + s.ln
    return [(z3.And(z3.ULE(s.off, bv(k)), z3.ULT(bv(k), end)), z3.Select(s.base, bv(k)), bv(k) - s.off) for k in range(s.abs_cap)]


def _concrete_bools(terms):
    out = []
    for t in terms:
        t = z3.simplify(t)
        if z3.is_true(t): out.append(True)
        elif z3.is_false(t): out.append(False)
        else: return None
    return out


def is_boundary(s, i):
    """str::is_char_boundary(i)"""
    b = s.at(i)
    return z3.Or(i == 0, i == s.ln, z3.And(z3.ULT(i, s.ln), (b & 0xC0) != 0x80))


def in_window(j, s):
    return z3.ULT(bv(j), s.ln)


def str_eq(E, a, b):
    n = min(cap(E, a), cap(E, b))
    if z3.is_bv_value(a.ln) and z3.is_bv_value(b.ln):
        if a.ln.as_long() != b.ln.as_long():
            return FALSE
        return z3.And(*[a.at(j) == b.at(j) for j in range(n)]) if n else T
    return z3.And(a.ln == b.ln, *[z3.Implies(in_window(j, a), a.at(j) == b.at(j)) for j in range(n)])


def str_cmp(E, a, b):
    """lexicographic byte order: returns BV8 in {-1,0,1}"""
    n = max(cap(E, a), cap(E, b))
    res = z3.If(z3.ULT(a.ln, b.ln), z3.BitVecVal(-1, 8), z3.If(a.ln == b.ln, z3.BitVecVal(0, 8), z3.BitVecVal(1, 8)))
    for j in range(n - 1, -1, -1):
        both = z3.And(in_window(j, a), in_window(j, b))
        x, y = a.at(j), b.at(j)
        res = z3.If(both, z3.If(z3.ULT(x, y), z3.BitVecVal(-1, 8), z3.If(z3.UGT(x, y), z3.BitVecVal(1, 8), res)), res)
    return z3.simplify(res)


def starts_with_str(E, s, p):
    n = cap(E, p)
    return z3.And(z3.ULE(p.ln, s.ln), *[z3.Implies(in_window(j, p), s.at(j) == p.at(j)) for j in range(n)])


def ends_with_str(E, s, p):
    n = cap(E, p)
    d = s.ln - p.ln
    return z3.And(z3.ULE(p.ln, s.ln), *[z3.Implies(in_window(j, p), s.at(d + j) == p.at(j)) for j in range(n)])


def match_at(E, s, i, p):
    """pattern string p occurs in s at byte offset i (i: z3 bv)"""
    n = cap(E, p)
    return z3.And(z3.ULE(i + p.ln, s.ln), z3.ULE(i, s.ln), *[z3.Implies(in_window(j, p), s.at(i + j) == p.at(j)) for j in range(n)])


def find_pred(E, s, pred_at, name='idx', width=None, upto_len=False, byte_pred=None):
    """first index i < len with pred_at(i) (i <= len when upto_len).  The index is a fresh variable r whose
    *total, functional* definition (r = least hit, r = len+? when none) is asserted as a global axiom (E.axioms), never
    inside a path condition, so path sets stay closed under negation.  returns [(cond, Option<usize>)]"""
    n = cap(E, s) + (1 if upto_len else 0)
    inw = (lambda j: z3.ULE(bv(j), s.ln)) if upto_len else (lambda j: in_window(j, s))
    hits = [z3.And(inw(j), pred_at(bv(j))) for j in range(n)]
    cb = _concrete_bools(hits) if (s.cbytes is not None or n <= 16) else None
    if cb is not None:
        return [(T, some(I(cb.index(True), 64))), (FALSE, NONE)] if True in cb else [(FALSE, some(I(0, 64))), (T, NONE)]
    if getattr(E, 'concrete_find', False):
        # small-string harnesses: one path per concrete position of the first hit (offsets downstream stay concrete)
        outs, before = [], T
        for j in range(n):
            outs.append((z3.simplify(z3.And(before, hits[j])), some(I(j, 64))))
            before = z3.And(before, z3.Not(hits[j]))
        outs.append((z3.simplify(before), NONE))
        return outs
    r = E.fresh_bv(name)
    none_val = s.ln + 1 if upto_len else s.ln
    in_r = z3.ULE(r, s.ln) if upto_len else z3.ULT(r, s.ln)
    ax = [z3.ULE(r, none_val), z3.Implies(in_r, pred_at(r))]
    if byte_pred is not None and not upto_len and not z3.is_bv_value(s.off) and s.abs_cap is not None:
        for k in range(s.abs_cap):
            ax.append(z3.Implies(z3.And(z3.ULE(s.off, bv(k)), z3.ULT(bv(k), s.off + r)), z3.Not(byte_pred(z3.Select(s.base, bv(k))))))
    else:
        for j in range(n):
            ax.append(z3.Implies(z3.ULT(bv(j), r), z3.Not(hits[j])))
    E.axioms.append(z3.And(*ax))
    return [(in_r, some(I(r, 64))), (z3.Not(in_r), NONE)]


def rfind_pred(E, s, pred_at):
    n = cap(E, s)
    hits = [z3.And(in_window(j, s), pred_at(bv(j))) for j in range(n)]
    cb = _concrete_bools(hits) if s.cbytes is not None else None
    if cb is not None:
        return [(T, some(I(len(cb) - 1 - cb[::-1].index(True), 64))), (FALSE, NONE)] if True in cb else [(FALSE, some(I(0, 64))), (T, NONE)]
    r = E.fresh_bv('ridx')
    # r = greatest hit, r = len when none
    in_r = z3.ULT(r, s.ln)
    ax = [z3.ULE(r, s.ln), z3.Implies(in_r, pred_at(r))]
    for j in range(n):
        ax.append(z3.Implies(z3.And(in_r, z3.UGT(bv(j), r)), z3.Not(hits[j])))
        ax.append(z3.Implies(z3.Not(in_r), z3.Not(hits[j])))
    E.axioms.append(z3.And(*ax))
    return [(in_r, some(I(r, 64))), (z3.Not(in_r), NONE)]


def slice_str(E, s, a, b, check_boundary=True):
    okc = z3.And(z3.ULE(a, b), z3.ULE(b, s.ln))
    if check_boundary and s.is_str:
        okc = z3.And(okc, is_boundary(s, a), is_boundary(s, b))
    return [(okc, sub(s, a, b - a)), (z3.Not(okc), Panic('slice index out of range or not on a char boundary'))]


def decode_char_at(s, i):
    """Unicode scalar value of the UTF-8 sequence starting at byte i (assumes well-formed input)"""
    b0 = z3.ZeroExt(24, s.at(i)); b1 = z3.ZeroExt(24, s.at(i + 1)); b2 = z3.ZeroExt(24, s.at(i + 2)); b3 = z3.ZeroExt(24, s.at(i + 3))
    c2 = ((b0 & 0x1F) << 6) | (b1 & 0x3F)
    c3 = ((b0 & 0x0F) << 12) | ((b1 & 0x3F) << 6) | (b2 & 0x3F)
    c4 = ((b0 & 0x07) << 18) | ((b1 & 0x3F) << 12) | ((b2 & 0x3F) << 6) | (b3 & 0x3F)
    return z3.If(z3.ULT(b0, 0x80), b0, z3.If(z3.ULT(b0, 0xE0), c2, z3.If(z3.ULT(b0, 0xF0), c3, c4)))


def char_len_at(s, i):
    b0 = s.at(i)
    return z3.If(z3.ULT(b0, 0x80), bv(1), z3.If(z3.ULT(b0, 0xE0), bv(2), z3.If(z3.ULT(b0, 0xF0), bv(3), bv(4))))


def is_lead(s, i):
    return (s.at(i) & 0xC0) != 0x80


def char_utf8_len(c):
    return z3.If(z3.ULT(c, 0x80), bv(1), z3.If(z3.ULT(c, 0x800), bv(2), z3.If(z3.ULT(c, 0x10000), bv(3), bv(4))))


def char_matches_at(s, i, c):
    """char c (BV32) occurs as a full UTF-8 sequence at byte i of s"""
    cc = c.conc() if isinstance(c, I) else None
    if cc is not None:
        enc = chr(cc).encode()
        return z3.And(z3.ULE(i + len(enc), s.ln), *[s.at(i + k) == enc[k] for k in range(len(enc))])
    v = c.v if isinstance(c, I) else c
    return z3.And(z3.ULT(i, s.ln), is_lead(s, i), decode_char_at(s, i) == v, z3.ULE(i + char_len_at(s, i), s.ln))


# ---- uninterpreted Unicode predicates (exact on ASCII)
_UF = {}


def uf(name, *sorts):
    if name not in _UF:
        _UF[name] = z3.Function(name, *sorts)
    return _UF[name]


def ascii_digit(b): return z3.And(z3.UGE(b, 48), z3.ULE(b, 57))
def ascii_upper(b): return z3.And(z3.UGE(b, 65), z3.ULE(b, 90))
def ascii_lower(b): return z3.And(z3.UGE(b, 97), z3.ULE(b, 122))
def ascii_alpha(b): return z3.Or(ascii_upper(b), ascii_lower(b))
def ascii_alnum(b): return z3.Or(ascii_digit(b), ascii_alpha(b))
def ascii_hexdigit(b): return z3.Or(ascii_digit(b), z3.And(z3.UGE(b, 65), z3.ULE(b, 70)), z3.And(z3.UGE(b, 97), z3.ULE(b, 102)))
def ascii_ws(b): return z3.Or(b == 32, b == 9, b == 10, b == 12, b == 13)
def ascii_punct(b): return z3.Or(z3.And(z3.UGE(b, 33), z3.ULE(b, 47)), z3.And(z3.UGE(b, 58), z3.ULE(b, 64)), z3.And(z3.UGE(b, 91), z3.ULE(b, 96)), z3.And(z3.UGE(b, 123), z3.ULE(b, 126)))
def ascii_graphic(b): return z3.And(z3.UGE(b, 33), z3.ULE(b, 126))
def ascii_control(b): return z3.Or(z3.ULE(b, 31), b == 127)


ASCII_PREDS = {'is_ascii_alphanumeric': ascii_alnum, 'is_ascii_digit': ascii_digit, 'is_ascii_alphabetic': ascii_alpha,
               'is_ascii_uppercase': ascii_upper, 'is_ascii_lowercase': ascii_lower, 'is_ascii_hexdigit': ascii_hexdigit,
               'is_ascii_whitespace': ascii_ws, 'is_ascii_punctuation': ascii_punct, 'is_ascii_graphic': ascii_graphic,
               'is_ascii_control': ascii_control}


def char_pred(name, c):
    """char predicates: exact below 0x80, uninterpreted (but functional) above"""
    lo = z3.ULT(c, 0x80)
    if name in ASCII_PREDS:
        return z3.And(lo, ASCII_PREDS[name](c))
    if name == 'is_ascii':
        return lo
    base = {'is_alphanumeric': ascii_alnum, 'is_alphabetic': ascii_alpha, 'is_numeric': ascii_digit,
            'is_whitespace': lambda b: z3.Or(b == 32, z3.And(z3.UGE(b, 9), z3.ULE(b, 13))),
            'is_uppercase': ascii_upper, 'is_lowercase': ascii_lower, 'is_control': ascii_control}[name]
    f = uf('uni_' + name, z3.BitVecSort(32), z3.BoolSort())
    if z3.is_bv_value(c) and c.as_long() >= 0x80 and name in PY_CHAR_REF:
        return z3.BoolVal(PY_CHAR_REF[name](chr(c.as_long())))
    app = f(c)
    if _CUR_ENGINE[0] is not None:
        _CUR_ENGINE[0].uf_apps.append(('char', c, app, name, 'uni_' + name))
    return z3.If(lo, base(c), app)


_CUR_ENGINE = [None]
# concrete non-ASCII evaluation for constant data (model validation); symbolic data is refined via the native build
PY_CHAR_REF = {'is_alphanumeric': lambda ch: ch.isalpha() or ch.isnumeric(), 'is_alphabetic': lambda ch: ch.isalpha(),
               'is_numeric': lambda ch: ch.isnumeric(), 'is_whitespace': lambda ch: ch.isspace(),
               'is_uppercase': lambda ch: ch.isupper(), 'is_lowercase': lambda ch: ch.islower(),
               'is_control': lambda ch: __import__('unicodedata').category(ch) == 'Cc'}


def closure_pred(E, st, clo, width, by_ref=False):
    """Summarise a pure closure `|x| -> bool` (x: integer of `width` bits) as python fn z3expr -> z3 Bool."""
    clo = E.deref(st, clo)
    x = E.fresh_bv('cl_arg', width)
    arg = I(x, width)
    if isinstance(clo, Closure):
        ty = clo.fn.locals.get(2, '')
        if ty.startswith('&'):
            arg = E.root_ref(st, I(x, width))
    outs = E.call_value(st, clo, [arg])
    disj = []
    for cond, o in outs:
        if o.kind != 'ret':
            raise Inconclusive('predicate closure may panic/diverge: cannot summarise')
        disj.append(z3.And(cond, o.value))
    body = z3.simplify(z3.Or(*disj)) if disj else FALSE
    return lambda e: z3.substitute(body, (x, e))


def chars_pred_terms(E, s, pred):
    """[(position-is-a-char-start-inside-window, pred(char at position))]"""
    n = cap(E, s)
    out = []
    for j in range(n):
        out.append((z3.And(in_window(j, s), is_lead(s, bv(j))), pred(decode_char_at(s, bv(j)))))
    return out


def parse_uint(E, s, bits, signed=False):
    """<uN/iN as FromStr>::from_str : optional leading '+' (or '-' when signed), >=1 ASCII digits, value must fit.
    Encoded without a multiplication per position: digits before the last D (D = decimal digits of the limit) must
    all be '0', the value is the weighted sum of the last D digits (constant weights)."""
    n = cap(E, s)
    first = s.at(0)
    has_sign = z3.And(z3.UGE(s.ln, 1), z3.Or(first == ord('+'), first == ord('-')) if signed else first == ord('+'))
    neg = z3.And(z3.UGE(s.ln, 1), first == ord('-')) if signed else FALSE
    start = z3.If(has_sign, bv(1), bv(0))
    limit_pos = (1 << (bits - 1)) - 1 if signed else (1 << bits) - 1
    limit_neg = 1 << (bits - 1)
    D = len(str(max(limit_pos, limit_neg if signed else 0)))
    W = bits + 8
    ndig = s.ln - start
    alld, lead0 = [], []
    for j in range(n):
        inr = z3.And(z3.UGE(bv(j), start), in_window(j, s))
        b = s.at(j)
        alld.append(z3.Implies(inr, ascii_digit(b)))
        # positions before the last D digits must be '0'
        lead0.append(z3.Implies(z3.And(inr, z3.ULT(bv(j) + D, s.ln)), b == 48))
    val = z3.BitVecVal(0, W)
    for k in range(1, D + 1):
        pos = s.ln - k
        inr = z3.And(z3.UGE(s.ln, k), z3.UGE(pos, start))
        dgt = z3.ZeroExt(W - 8, s.at(pos) - 48)
        val = val + z3.If(inr, dgt * (10 ** (k - 1)), z3.BitVecVal(0, W))
    lim = z3.If(neg, z3.BitVecVal(limit_neg, W), z3.BitVecVal(limit_pos, W)) if signed else z3.BitVecVal(limit_pos, W)
    good = z3.And(z3.UGE(ndig, 1), z3.ULE(start, s.ln), *alld, *lead0, z3.ULE(val, lim))
    v = z3.Extract(bits - 1, 0, val)
    if signed:
        v = z3.If(neg, -v, v)
    return [(good, ok(I(v, bits, signed))), (z3.Not(good), err(Opaque('ParseIntError')))]


IPV6_TEMPLATES = [b'::', b'::1', b'1::', b'1:2:3:4:5:6:7:8', b'::ffff:1.2.3.4', b'fe80::1']
IPV4_TEMPLATES = [b'1.2.3.4', b'127.0.0.1', b'255.255.255.255', b'0.0.0.0']


def ip_ok(E, s, v6):
    """Result of str::parse::<Ipv6Addr/Ipv4Addr>().is_ok().  Constant data: computed by the reference parser
    (refimpl, transcribed from core::net::parser).  Symbolic data: an uninterpreted-but-functional predicate of the
    window contents, pinned by necessary conditions and sufficient templates, and refined against the reference
    parser whenever a solver model is concretised (E.uf_apps)."""
    from . import refimpl
    ref = refimpl.rust_ipv6_ok if v6 else refimpl.rust_ipv4_ok
    c = s.conc()
    if c is not None:
        return z3.BoolVal(ref(c))
    n = cap(E, s)
    name = 'ipv6_ok' if v6 else 'ipv4_ok'
    f = uf(name, z3.ArraySort(BV64, BV8), BV64, BV64, z3.BoolSort())
    r = f(s.base, s.off, s.ln)
    if v6:
        charset = lambda b: z3.Or(ascii_hexdigit(b), b == 58, b == 46)
        colons = [z3.And(in_window(j, s), s.at(j) == 58) for j in range(n)]
        ncol = bv(0)
        for cnd in colons:
            ncol = ncol + z3.If(cnd, bv(1), bv(0))
        dbl = [z3.And(z3.ULT(bv(j + 1), s.ln), s.at(j) == 58, s.at(j + 1) == 58) for j in range(max(n - 1, 0))]
        has_dbl = z3.Or(*dbl) if dbl else FALSE
        triple = [z3.And(z3.ULT(bv(j + 2), s.ln), s.at(j) == 58, s.at(j + 1) == 58, s.at(j + 2) == 58) for j in range(max(n - 2, 0))]
        hex5 = [z3.And(z3.ULT(bv(j + 4), s.ln), *[ascii_hexdigit(s.at(j + k)) for k in range(5)]) for j in range(max(n - 4, 0))]
        has_dot = z3.Or(*[z3.And(in_window(j, s), s.at(j) == 46) for j in range(n)]) if n else FALSE
        nec = z3.And(z3.UGE(s.ln, 2), z3.ULE(s.ln, 45), z3.UGE(ncol, 2), z3.ULE(ncol, 7),
                     z3.Not(z3.Or(*triple)) if triple else T, z3.Not(z3.Or(*hex5)) if hex5 else T,
                     z3.Or(has_dot, z3.Xor(has_dbl, ncol == 7)))
        tmpl = IPV6_TEMPLATES
    else:
        charset = lambda b: z3.Or(ascii_digit(b), b == 46)
        nec = z3.And(z3.UGE(s.ln, 7), z3.ULE(s.ln, 15))
        tmpl = IPV4_TEMPLATES
    nec = z3.And(nec, *[z3.Implies(in_window(j, s), charset(s.at(j))) for j in range(n)])
    suff = z3.Or(*[str_eq(E, s, E.const_str(t)) for t in tmpl])
    # instance axioms of the uninterpreted predicate: asserted globally in every query (never inside a path condition,
    # so that negated path sets cannot be satisfied by violating them)
    E.axioms.append(z3.And(z3.Implies(r, nec), z3.Implies(suff, r)))
    E.uf_apps.append(('window', s, r, ref, name))
    return r


def concat(E, parts, is_str=True):
    """concatenate Str values into a fresh array-backed Str (definitional lambda array)"""
    parts = [p for p in parts if not (z3.is_bv_value(p.ln) and p.ln.as_long() == 0)]
    if not parts:
        return E.const_str(b'')
    if len(parts) == 1:
        return parts[0]
    if all(p.conc() is not None for p in parts):
        return E.const_str(b''.join(p.conc() for p in parts), is_str)
    if any(p.elems is not None for p in parts) and all(p.elems is not None or p.conc() is not None for p in parts):
        total_cap = sum(cap(E, p) for p in parts)
        offs = [bv(0)]
        for p in parts:
            offs.append(z3.simplify(offs[-1] + p.ln))
        elems = []
        for j in range(total_cap):
            e = z3.BitVecVal(0, 8)
            for k in range(len(parts) - 1, -1, -1):
                p = parts[k]
                e = z3.If(z3.And(z3.ULE(offs[k], bv(j)), z3.ULT(bv(j), offs[k + 1])), p.at(bv(j) - offs[k]), e)
            elems.append(z3.simplify(e))
        return Str(z3.K(BV64, z3.BitVecVal(0, 8)), bv(0), offs[-1], is_str, total_cap, None, total_cap, elems)
    i = z3.BitVec('cc_i', 64)
    # build nested ite from the end
    offs = [bv(0)]
    for p in parts:
        offs.append(z3.simplify(offs[-1] + p.ln))
    body = z3.BitVecVal(0, 8)
    for k in range(len(parts) - 1, -1, -1):
        p = parts[k]
        body = z3.If(z3.ULT(i, offs[k + 1]), z3.Select(p.base, p.off + (i - offs[k])), body)
    arr = z3.Lambda([i], body)
    return Str(arr, bv(0), offs[-1], is_str, sum(cap(E, p) for p in parts))


def register(E):
    model = model_decorator(E.models)
    _CUR_ENGINE[0] = E

    def d(st, v):
        return E.deref(st, v)

    def as_str(st, v):
        """view a value as Str: Str, String object, Cow, Box<str> ..."""
        v = d(st, v)
        if isinstance(v, Str):
            return v
        if isinstance(v, Obj) and v.kind in ('String', 'VecU8'):
            return v.data
        if isinstance(v, Adt) and v.ty.endswith('Cow'):
            return as_str(st, v.fields[0])
        if isinstance(v, Adt) and len(v.fields) == 1:
            return as_str(st, v.fields[0])
        raise ValueError('not a string: ' + repr(v))
    E.as_str = as_str

    @model(r'^core::str::<impl str>::len$|^core::slice::<impl \[(?:T|u8)\]>::len$|^std::string::String::len$|^std::vec::Vec::len$')
    def _(E, st, callee, a, m):
        v = d(st, a[0])
        if isinstance(v, Seq): return [(T, I(len(v.items), 64))]
        if isinstance(v, Obj) and v.kind == 'Vec': return [(T, I(len(v.data), 64))]
        return [(T, I(as_str(st, v).ln, 64))]

    @model(r'^core::str::<impl str>::is_empty$|^core::slice::<impl \[(?:T|u8)\]>::is_empty$|^std::string::String::is_empty$|^std::vec::Vec::is_empty$')
    def _(E, st, callee, a, m):
        v = d(st, a[0])
        if isinstance(v, Seq): return [(T, z3.BoolVal(len(v.items) == 0))]
        if isinstance(v, Obj) and v.kind == 'Vec': return [(T, z3.BoolVal(len(v.data) == 0))]
        return [(T, as_str(st, v).ln == 0)]

    @model(r'^core::str::<impl str>::as_bytes$|^std::string::String::as_bytes$')
    def _(E, st, callee, a, m):
        s = as_str(st, a[0]); return [(T, Str(s.base, s.off, s.ln, False, s.cap, s.cbytes, s.abs_cap, s.elems))]

    @model(r'^core::str::<impl str>::as_ptr$')
    def _(E, st, callee, a, m): return [(T, Opaque('ptr'))]

    @model(r'^std::string::String::as_str$|^<std::string::String as std::ops::Deref>::deref$|^<std::string::String as std::convert::AsRef>::as_ref$|^<std::string::String as std::borrow::Borrow>::borrow$|^std::string::String::as_mut_str$|^<str as std::convert::AsRef>::as_ref$|^<std::borrow::Cow as std::ops::Deref>::deref$|^<std::borrow::Cow as std::convert::AsRef>::as_ref$')
    def _(E, st, callee, a, m):
        s = as_str(st, a[0])
        if 'AsRef<[u8]>' in callee:
            return [(T, Str(s.base, s.off, s.ln, False, s.cap, s.cbytes, s.abs_cap, s.elems))]
        return [(T, s)]

    @model(r'^core::str::<impl str>::bytes$')
    def _(E, st, callee, a, m): return [(T, Obj('Bytes', (as_str(st, a[0]),)))]

    @model(r'^core::str::<impl str>::chars$')
    def _(E, st, callee, a, m): return [(T, Obj('Chars', (as_str(st, a[0]),)))]

    @model(r'^core::str::<impl str>::char_indices$')
    def _(E, st, callee, a, m): return [(T, Obj('CharIndices', (as_str(st, a[0]), bv(0))))]

    @model(r'^core::str::<impl str>::is_char_boundary$')
    def _(E, st, callee, a, m):
        s = as_str(st, a[0]); return [(T, is_boundary(s, a[1].v))]

    def pattern_kind(st, p):
        p = d(st, p)
        if isinstance(p, I) and p.w == 32:
            return 'char', p
        if isinstance(p, Str):
            return 'str', p
        if isinstance(p, Obj) and p.kind == 'String':
            return 'str', p.data
        if isinstance(p, Seq) and all(isinstance(x, I) for x in p.items):
            return 'chars', p.items
        if isinstance(p, (Closure, FnItem)):
            return 'fn', p
        raise Inconclusive('unsupported str pattern ' + repr(p))

    def single_byte_pred(E, st, kind, p):
        """If the pattern matches exactly one ASCII byte at a time, return pred(byte) else None."""
        if kind == 'char':
            c = p.conc()
            if c is not None and c < 0x80:
                return lambda b: b == c
            return None
        if kind == 'chars':
            cs = [x.conc() for x in p]
            if all(c is not None and c < 0x80 for c in cs):
                return lambda b: z3.Or(*[b == c for c in cs])
            return None
        return None

    def match_len_at(E, st, s, kind, p):
        """returns fn(i) -> (matches_at_i, match_len) for pattern at byte offset i"""
        if kind == 'str':
            return lambda i: (match_at(E, s, i, p), p.ln)
        if kind == 'char':
            c = p.conc()
            if c is not None:
                enc = chr(c).encode()
                return lambda i: (char_matches_at(s, i, p), bv(len(enc)))
            return lambda i: (char_matches_at(s, i, p), char_utf8_len(p.v))
        if kind == 'chars':
            def f(i):
                conds = [char_matches_at(s, i, c) for c in p]
                ln = bv(1)
                for c, cd in zip(p, conds):
                    cc = c.conc()
                    l = bv(len(chr(cc).encode())) if cc is not None else char_utf8_len(c.v)
                    ln = z3.If(cd, l, ln)
                return z3.Or(*conds), ln
            return f
        if kind == 'fn':
            pred = closure_pred(E, st, p, 32)
            return lambda i: (z3.And(z3.ULT(i, s.ln), is_lead(s, i), pred(decode_char_at(s, i))), char_len_at(s, i))
        raise Inconclusive('pattern kind ' + kind)

    @model(r'^core::str::<impl str>::(starts_with|ends_with|find|rfind|contains|strip_prefix|strip_suffix|split_once|rsplit_once|trim_start_matches|trim_end_matches)$')
    def _(E, st, callee, a, m):
        s, op = as_str(st, a[0]), m.group(1)
        kind, p = pattern_kind(st, a[1])
        n = cap(E, s)
        f = match_len_at(E, st, s, kind, p)
        if op == 'starts_with':
            return [(T, f(bv(0))[0])]
        if op == 'ends_with':
            if kind == 'str':
                return [(T, ends_with_str(E, s, p))]
            sb = single_byte_pred(E, st, kind, p)
            if sb is not None:
                return [(T, z3.And(z3.UGE(s.ln, 1), sb(s.at(s.ln - 1))))]
            c = p.conc() if kind == 'char' else None
            if c is not None:
                enc = chr(c).encode()
                return [(T, ends_with_str(E, s, E.const_str(enc)))]
            raise Inconclusive('ends_with with symbolic non-ASCII pattern')
        if op == 'strip_prefix':
            c0, ln = f(bv(0))
            return [(c0, some(sub(s, ln, s.ln - ln))), (z3.Not(c0), NONE)]
        if op == 'strip_suffix':
            if kind == 'str':
                c0 = ends_with_str(E, s, p); ln = p.ln
            else:
                sb = single_byte_pred(E, st, kind, p)
                if sb is None: raise Inconclusive('strip_suffix non-ASCII pattern')
                c0 = z3.And(z3.UGE(s.ln, 1), sb(s.at(s.ln - 1))); ln = bv(1)
            return [(c0, some(sub(s, bv(0), s.ln - ln))), (z3.Not(c0), NONE)]
        sbp = single_byte_pred(E, st, kind, p)
        if op == 'contains':
            if sbp is not None:
                return [(T, z3.Or(*[z3.And(gd, sbp(b)) for gd, b, _ in positions(E, s)]) if n else FALSE)]
            return [(T, z3.Or(*[z3.And(z3.ULE(bv(j), s.ln), f(bv(j))[0]) for j in range(n + 1)]))]
        if op == 'find':
            if kind == 'str':
                # empty pattern matches at 0; general: first j with match_at
                return find_pred_incl_end(E, s, lambda i: f(i)[0])
            return find_pred(E, s, lambda i: f(i)[0], byte_pred=sbp)
        if op == 'rfind':
            return rfind_pred(E, s, lambda i: f(i)[0])
        if op in ('split_once', 'rsplit_once'):
            outs = find_pred(E, s, lambda i: f(i)[0]) if op == 'split_once' else rfind_pred(E, s, lambda i: f(i)[0])
            res = []
            for c_, v_ in outs:         # two outcomes (index variable) or one per concrete position
                if v_.variant == 'None':
                    res.append((c_, NONE)); continue
                r = v_.fields[0].v
                ln = f(r)[1]
                res.append((c_, some(Tup([sub(s, bv(0), r), sub(s, z3.simplify(r + ln), z3.simplify(s.ln - r - ln))]))))
            return res
        if op in ('trim_start_matches', 'trim_end_matches'):
            if kind == 'str':
                pc = p.conc()
                if pc is None or len(pc) == 0:
                    raise Inconclusive('trim_*_matches with a symbolic/empty pattern')
                L = len(pc)
                reps = n // L
                # number of leading (trailing) repetitions: c_k = hit_k ? 1 + c_{k+1} : 0
                chain = bv(0)
                for k in range(reps - 1, -1, -1):
                    if op == 'trim_start_matches':
                        hit = match_at(E, s, bv(k * L), p)
                    else:
                        hit = z3.And(z3.UGE(s.ln, (k + 1) * L), match_at(E, s, s.ln - (k + 1) * L, p))
                    chain = z3.If(hit, chain + 1, bv(0))
                cut = chain * L
                if op == 'trim_start_matches':
                    return [(T, sub(s, cut, s.ln - cut))]
                return [(T, sub(s, bv(0), s.ln - cut))]
            sbp = single_byte_pred(E, st, kind, p)
            if sbp is None:
                raise Inconclusive(op + ' with a non-ASCII pattern')
            if op == 'trim_start_matches':
                res = []
                for c_, v_ in find_pred(E, s, lambda i: z3.Not(sbp(s.at(i))), byte_pred=lambda b: z3.Not(sbp(b))):
                    if v_.variant == 'None':
                        res.append((c_, sub(s, s.ln, bv(0)))); continue
                    r = v_.fields[0].v
                    res.append((c_, sub(s, r, z3.simplify(s.ln - r))))
                return res
            (cf, sv), (cn, _) = rfind_pred(E, s, lambda i: z3.Not(sbp(s.at(i))))
            r = sv.fields[0].v
            return [(cf, sub(s, bv(0), r + 1)), (cn, sub(s, bv(0), bv(0)))]
        raise Inconclusive('str op ' + op)

    def find_pred_incl_end(E, s, pred_at):
        return find_pred(E, s, pred_at, upto_len=True)

    @model(r'^<(str|\[u8\]|std::string::String) as std::ops::Index>::index$')
    def _(E, st, callee, a, m):
        mk = re.search(r'Index<std::ops::(RangeToInclusive|RangeInclusive|RangeTo|RangeFrom|RangeFull|Range)\b', callee)
        if not mk:
            return None
        s, r, k = as_str(st, a[0]), d(st, a[1]), mk.group(1)
        if k == 'Range': lo, hi = r.fields[0].v, r.fields[1].v
        elif k == 'RangeTo': lo, hi = bv(0), r.fields[0].v
        elif k == 'RangeFrom': lo, hi = r.fields[0].v, s.ln
        elif k == 'RangeToInclusive': lo, hi = bv(0), r.fields[0].v + 1
        elif k == 'RangeInclusive': lo, hi = r.fields[0].v, r.fields[1].v + 1
        else: lo, hi = bv(0), s.ln
        return slice_str(E, s, lo, hi)

    @model(r'^core::str::<impl str>::(get|split_at|split_at_checked)$|^core::slice::<impl \[u8\]>::(get|split_at)$')
    def _(E, st, callee, a, m):
        s = as_str(st, a[0]); op = m.group(1) or m.group(2)
        r = d(st, a[1])
        if op == 'get':
            if isinstance(r, I):
                inb = z3.ULT(r.v, s.ln)
                cell = E.alloc(st, I(s.at(r.v), 8))
                return [(inb, some(cell)), (z3.Not(inb), NONE)]
            tys = callee
            if 'RangeFrom' in tys: lo, hi = r.fields[0].v, s.ln
            elif 'RangeTo' in tys: lo, hi = bv(0), r.fields[0].v
            else: lo, hi = r.fields[0].v, r.fields[1].v
            (okc, v), (bad, _) = slice_str(E, s, lo, hi)
            return [(okc, some(v)), (bad, NONE)]
        mid = r.v
        okc = z3.ULE(mid, s.ln)
        if s.is_str: okc = z3.And(okc, is_boundary(s, mid))
        pair = Tup([sub(s, bv(0), mid), sub(s, mid, s.ln - mid)])
        if op == 'split_at_checked':
            return [(okc, some(pair)), (z3.Not(okc), NONE)]
        return [(okc, pair), (z3.Not(okc), Panic('split_at out of bounds'))]

    @model(r'^core::str::<impl str>::parse$|^<(u8|u16|u32|u64|usize|i8|i16|i32|i64|isize|std::net::Ipv6Addr|std::net::Ipv4Addr) as std::str::FromStr>::from_str$')
    def _(E, st, callee, a, m):
        ty = m.group(1) or turbofish_of(callee)
        s = as_str(st, a[0])
        if ty in INT_TYPES and ty != 'char':
            w, sg = INT_TYPES[ty]
            st.note(('parse-int', s))
            return parse_uint(E, s, w, sg)
        if ty.endswith('Ipv6Addr') or ty.endswith('Ipv4Addr'):
            r = ip_ok(E, s, ty.endswith('Ipv6Addr'))
            return [(r, ok(Opaque(ty.split('::')[-1]))), (z3.Not(r), err(Opaque('AddrParseError')))]
        return None

    def turbofish_of(callee):
        from ..mirparse import turbofish
        t = turbofish(callee)
        return t[0] if t else ''

    @model(r'^<&*(?:str|\[u8\]|std::string::String|std::borrow::Cow) as std::cmp::PartialEq>::(eq|ne)$')
    def _(E, st, callee, a, m):
        op = [g for g in m.groups() if g][0]
        e = str_eq(E, as_str(st, a[0]), as_str(st, a[1]))
        return [(T, z3.simplify(e if op == 'eq' else z3.Not(e)))]

    @model(r'^<&*(?:str|\[u8\]|std::string::String) as std::cmp::(?:Partial)?Ord>::(cmp|partial_cmp|lt|le|gt|ge)$')
    def _(E, st, callee, a, m):
        from ..engine import SymOrdering
        c = str_cmp(E, as_str(st, a[0]), as_str(st, a[1]))
        op = m.group(1)
        if op == 'cmp': return [(T, SymOrdering(c))]
        if op == 'partial_cmp': return [(T, some(SymOrdering(c)))]
        r = {'lt': c == -1, 'le': c != 1, 'gt': c == 1, 'ge': c != -1}[op]
        return [(T, z3.simplify(r))]

    @model(r'^core::slice::<impl \[u8\]>::first$|^core::slice::<impl \[u8\]>::last$')
    def _(E, st, callee, a, m):
        s = as_str(st, a[0])
        i = bv(0) if callee.endswith('first') else s.ln - 1
        cell = E.alloc(st, I(s.at(i), 8))
        return [(z3.UGE(s.ln, 1), some(cell)), (s.ln == 0, NONE)]

    @model(r'^core::slice::<impl \[u8\]>::contains$')
    def _(E, st, callee, a, m):
        s, x = as_str(st, a[0]), d(st, a[1])
        ps = positions(E, s)
        return [(T, z3.Or(*[z3.And(gd, b == x.v) for gd, b, _ in ps]) if ps else FALSE)]

    @model(r'^core::slice::<impl \[u8\]>::(starts_with|ends_with)$')
    def _(E, st, callee, a, m):
        s, p = as_str(st, a[0]), as_str(st, a[1])
        return [(T, starts_with_str(E, s, p) if m.group(1) == 'starts_with' else ends_with_str(E, s, p))]

    @model(r'^core::slice::<impl \[u8\]>::iter$')
    def _(E, st, callee, a, m): return [(T, Obj('ByteRefIter', (as_str(st, a[0]),)))]

    @model(r'^<std::str::(Bytes|Chars) as std::iter::Iterator>::(any|all|count|position|find|last|next|rev)$|^<std::str::(Bytes|Chars) as std::iter::DoubleEndedIterator>::(next_back|rfind)$|^<std::slice::Iter as std::iter::Iterator>::(any|all|position|count|next)$')
    def _(E, st, callee, a, m):
        g = [x for x in m.groups() if x]
        it = d(st, a[0])
        if len(g) == 1:
            kind, op = 'ByteRefIter', g[0]
            if not (isinstance(it, Obj) and it.kind == 'ByteRefIter'):
                return None
        else:
            kind, op = g[0], g[1]
        s = it.data[0]
        n = cap(E, s)
        is_chars = kind == 'Chars'
        if op == 'count':
            if not is_chars:
                return [(T, I(s.ln, 64))]
            cnt = bv(0)
            for j in range(n):
                cnt = cnt + z3.If(z3.And(in_window(j, s), is_lead(s, bv(j))), bv(1), bv(0))
            return [(T, I(cnt, 64))]
        if op in ('any', 'all', 'position', 'find', 'rfind'):
            byref = kind == 'ByteRefIter' or op in ('find', 'rfind')
            pred = closure_pred(E, st, a[1], 32 if is_chars else 8, byref)
            if is_chars:
                terms = chars_pred_terms(E, s, pred)
            else:
                terms = [(gd, pred(b)) for gd, b, _ in positions(E, s)]
            if op == 'any': return [(T, z3.Or(*[z3.And(i, p) for i, p in terms]) if terms else FALSE)]
            if op == 'all': return [(T, z3.And(*[z3.Implies(i, p) for i, p in terms]) if terms else T)]
            if op == 'position' and not is_chars:
                return find_pred(E, s, lambda i: pred(s.at(i)))
            raise Inconclusive('iterator op ' + op + ' on ' + kind)
        if op == 'next':
            if is_chars:
                l = char_len_at(s, bv(0))
                c = decode_char_at(s, bv(0))
                def eff(st2, l=l):
                    E.store(st2, a[0], Obj('Chars', (sub(s, l, s.ln - l),)))
                return [(z3.UGE(s.ln, 1), some(I(c, 32)), eff), (s.ln == 0, NONE)]
            def effb(st2):
                E.store(st2, a[0], Obj(kind, (sub(s, bv(1), s.ln - 1),)))
            v = I(s.at(0), 8)
            return [(z3.UGE(s.ln, 1), some(v), effb), (s.ln == 0, NONE)]
        if op == 'next_back' and not is_chars:
            def effb(st2):
                E.store(st2, a[0], Obj(kind, (sub(s, bv(0), s.ln - 1),)))
            return [(z3.UGE(s.ln, 1), some(I(s.at(s.ln - 1), 8)), effb), (s.ln == 0, NONE)]
        if op == 'last' and not is_chars:
            return [(z3.UGE(s.ln, 1), some(I(s.at(s.ln - 1), 8))), (s.ln == 0, NONE)]
        raise Inconclusive('iterator op ' + op + ' on ' + kind)

    @model(r'^<std::str::CharIndices as std::iter::Iterator>::next$')
    def _(E, st, callee, a, m):
        it = d(st, a[0])
        s, pos = it.data
        l = char_len_at(s, bv(0))
        if getattr(E, 'concrete_find', False) and not z3.is_bv_value(z3.simplify(l)):
            u = E.unique_value(st, l)       # small-string harnesses: keep offsets concrete where the path pins the char width
            if u is not None: l = u
        c = decode_char_at(s, bv(0))
        def eff(st2, l=l):
            E.store(st2, a[0], Obj('CharIndices', (sub(s, l, s.ln - l), z3.simplify(pos + l))))
        return [(z3.UGE(s.ln, 1), some(Tup([I(pos, 64), I(c, 32)])), eff), (s.ln == 0, NONE)]

    @model(r'^core::num::<impl u8>::(is_ascii\w*)$|^core::char::methods::<impl char>::(is_\w+)$|^std::char::methods::<impl char>::(is_\w+)$')
    def _(E, st, callee, a, m):
        name = [g for g in m.groups() if g][0]
        v = d(st, a[0])
        c = v.v if v.w == 32 else z3.ZeroExt(24, v.v)
        if name == 'is_digit':
            radix = d(st, a[1]).conc()
            if radix == 10: return [(T, z3.And(z3.ULT(c, 0x80), ascii_digit(c)))]
            if radix == 16: return [(T, z3.And(z3.ULT(c, 0x80), ascii_hexdigit(c)))]
            raise Inconclusive('is_digit radix')
        return [(T, z3.simplify(char_pred(name, c)))]

    @model(r'^core::num::<impl u8>::(to_ascii_lowercase|to_ascii_uppercase)$|^core::char::methods::<impl char>::(to_ascii_lowercase|to_ascii_uppercase)$|^std::char::methods::<impl char>::(to_ascii_lowercase|to_ascii_uppercase)$')
    def _(E, st, callee, a, m):
        name = [g for g in m.groups() if g][0]
        v = d(st, a[0])
        if name == 'to_ascii_lowercase':
            r = z3.If(z3.And(z3.UGE(v.v, 65), z3.ULE(v.v, 90)), v.v + 32, v.v)
        else:
            r = z3.If(z3.And(z3.UGE(v.v, 97), z3.ULE(v.v, 122)), v.v - 32, v.v)
        return [(T, I(r, v.w))]

    @model(r'^core::char::methods::<impl char>::len_utf8$|^std::char::methods::<impl char>::len_utf8$')
    def _(E, st, callee, a, m):
        return [(T, I(char_utf8_len(d(st, a[0]).v), 64))]

    @model(r'^<(?:char|u8|u16|u32|u64|usize|i8|i16|i32|i64|isize|bool) as std::cmp::PartialEq>::(eq|ne)$')
    def _(E, st, callee, a, m):
        x, y = d(st, a[0]), d(st, a[1])
        e = (x == y) if z3.is_bool(x) else (x.v == y.v)
        return [(T, z3.simplify(e if m.group(1) == 'eq' else z3.Not(e)))]

    @model(r'^(?:std|core)::num::NonZero::(new|get|new_unchecked)$')
    def _(E, st, callee, a, m):
        op = m.group(1)
        if op == 'get': return [(T, d(st, a[0]).fields[0])]
        nz = Adt('std::num::NonZero', None, [a[0]])
        if op == 'new_unchecked': return [(T, nz)]
        return [(a[0].v != 0, some(nz)), (a[0].v == 0, NONE)]

    @model(r'^<(?:u8|u16|u32|u64|usize) as std::convert::From>::from$')
    def _(E, st, callee, a, m):
        v = d(st, a[0])
        if isinstance(v, Adt) and v.ty.endswith('NonZero'):
            return [(T, v.fields[0])]
        return None

    @model(r'^core::str::<impl str>::(to_owned|to_string|into_string|into_boxed_str|into)$|^<str as std::borrow::ToOwned>::to_owned$|^<str as std::string::ToString>::to_string$|^<std::string::String as std::convert::From>::from$|^<std::string::String as std::clone::Clone>::clone$|^<&str as std::convert::Into>::into$|^<std::string::String as std::string::ToString>::to_string$|^std::borrow::Cow::into_owned$|^<std::string::String as std::str::FromStr>::from_str$')
    def _(E, st, callee, a, m):
        v = d(st, a[0])
        if '&str as std::convert::Into<' in callee and 'Into<std::string::String>' not in callee:
            return None
        if isinstance(v, Adt) and not v.ty.endswith('Cow') and 'From' in callee:
            return None
        if isinstance(v, I) and v.w == 32:
            c = v.conc()
            if c is None: raise Inconclusive('String::from(symbolic char)')
            return [(T, Obj('String', E.const_str(chr(c).encode())))]
        r = Obj('String', as_str(st, v))
        if 'FromStr' in callee:
            return [(T, ok(r))]
        return [(T, r)]

    @model(r'^<std::boxed::Box as std::convert::From>::from$|^std::string::String::into_boxed_str$|^<std::boxed::Box as std::clone::Clone>::clone$|^<(?:&str|std::string::String) as std::convert::Into>::into$')
    def _(E, st, callee, a, m):
        if 'Box<str>' not in callee and 'into_boxed_str' not in callee:
            return None
        return [(T, as_str(st, a[0]))]

    @model(r'^<std::borrow::Cow as std::convert::From>::from$')
    def _(E, st, callee, a, m):
        v = d(st, a[0])
        if isinstance(v, Str):
            return [(T, Adt('std::borrow::Cow', 'Borrowed', [v]))]
        return [(T, Adt('std::borrow::Cow', 'Owned', [v]))]

    @model(r'^std::string::String::new$')
    def _(E, st, callee, a, m): return [(T, Obj('String', E.const_str(b'')))]

    @model(r'^std::string::String::with_capacity$')
    def _(E, st, callee, a, m): return [(T, Obj('String', E.const_str(b'')))]

    @model(r'^std::string::String::(push_str|push)$|^<std::string::String as std::ops::AddAssign>::add_assign$')
    def _(E, st, callee, a, m):
        cur = as_str(st, a[0]); x = d(st, a[1])
        if isinstance(x, I):
            c = x.conc()
            if c is None: raise Inconclusive('String::push(symbolic char)')
            x = E.const_str(chr(c).encode())
        else:
            x = as_str(st, x)
        new = Obj('String', concat(E, [cur, x]))
        def eff(st2):
            E.store(st2, a[0], new)
        return [(T, UNIT, eff)]

    @model(r'^<std::string::String as std::ops::Add>::add$')
    def _(E, st, callee, a, m):
        return [(T, Obj('String', concat(E, [as_str(st, a[0]), as_str(st, a[1])])))]

    @model(r'^std::str::from_utf8$|^core::str::from_utf8$|^core::str::converts::from_utf8$')
    def _(E, st, callee, a, m):
        from ..engine import utf8_wf
        s = as_str(st, a[0])
        wf = z3.And(*utf8_wf(s, cap(E, s)))
        return [(wf, ok(Str(s.base, s.off, s.ln, True, s.cap, s.cbytes, s.abs_cap, s.elems))), (z3.Not(wf), err(Opaque('Utf8Error')))]

    @model(r'^std::string::String::from_utf8$')
    def _(E, st, callee, a, m):
        from ..engine import utf8_wf
        s = as_str(st, a[0])
        wf = z3.And(*utf8_wf(s, cap(E, s)))
        return [(wf, ok(Obj('String', Str(s.base, s.off, s.ln, True, s.cap, s.cbytes)))), (z3.Not(wf), err(Opaque('FromUtf8Error')))]

    @model(r'^core::str::<impl str>::(to_lowercase|to_uppercase|to_ascii_lowercase|to_ascii_uppercase)$')
    def _(E, st, callee, a, m):
        s = as_str(st, a[0]); op = m.group(1)
        # exact for ASCII bytes; a non-ASCII byte makes the result unknown -> outside the bound (Inconclusive if feasible)
        i = z3.BitVec('lc_i', 64)
        b = z3.Select(s.base, s.off + i)
        if 'lower' in op:
            body = z3.If(z3.And(z3.UGE(b, 65), z3.ULE(b, 90)), b + 32, b)
        else:
            body = z3.If(z3.And(z3.UGE(b, 97), z3.ULE(b, 122)), b - 32, b)
        arr = z3.Lambda([i], body)
        r = Obj('String', Str(arr, bv(0), s.ln, True, s.cap))
        if 'ascii' in op:
            return [(T, r)]
        allascii = z3.And(*[z3.Implies(in_window(j, s), z3.ULT(s.at(j), 0x80)) for j in range(cap(E, s))])
        st.note(('assume', 'to_lowercase/to_uppercase: ASCII-only input'))
        return [(allascii, r), (z3.Not(allascii), Panic('OUT-OF-MODEL: Unicode case mapping on non-ASCII input'))]

    @model(r'^core::slice::ascii::<impl \[u8\]>::eq_ignore_ascii_case$|^core::str::<impl str>::eq_ignore_ascii_case$')
    def _(E, st, callee, a, m):
        x, y = as_str(st, a[0]), as_str(st, a[1])
        n = min(cap(E, x), cap(E, y))
        lo = lambda b: z3.If(z3.And(z3.UGE(b, 65), z3.ULE(b, 90)), b + 32, b)
        return [(T, z3.And(x.ln == y.ln, *[z3.Implies(in_window(j, x), lo(x.at(j)) == lo(y.at(j))) for j in range(n)]))]

    @model(r'^(?:std|core|alloc)::str::<impl str>::replace$')
    def _(E, st, callee, a, m):
        """str::replace(char, &str) on short texts of concrete length: one outcome per set of matching positions (the result
        has a concrete shape: untouched bytes and copies of the replacement)"""
        s = as_str(st, a[0]); frm = d(st, a[1]); to = as_str(st, a[2])
        c = frm.conc() if isinstance(frm, I) else None
        ln = z3.simplify(s.ln)
        if c is None or c >= 0x80 or not z3.is_bv_value(ln) or ln.as_long() > 12:
            raise Inconclusive('str::replace: symbolic / non-ASCII pattern or a text without a concrete short length')
        n = ln.as_long()
        import itertools as _it
        outs = []
        for mask in _it.product((False, True), repeat=n):
            cond = z3.simplify(z3.And(*[(s.at(j) == c) if mk else (s.at(j) != c) for j, mk in enumerate(mask)])) if n else T
            if z3.is_false(cond):
                continue
            parts, run = [], []
            for j, mk in enumerate(mask):
                if mk:
                    if run: parts.append(sub(s, bv(run[0]), bv(len(run)))); run = []
                    parts.append(to)
                else:
                    run.append(j)
            if run: parts.append(sub(s, bv(run[0]), bv(len(run))))
            outs.append((cond, Obj('String', concat(E, parts) if parts else E.const_str(b''))))
        return outs

    @model(r'^core::str::<impl str>::parse$')
    def _(E, st, callee, a, m):
        # `s.parse::<T>()` is `<T as FromStr>::from_str(s)`
        from ..mirparse import turbofish
        t = turbofish(callee)
        if not t:
            return None
        return E.outs_to_model(E.call_value(st, FnItem('<' + t[0] + ' as std::str::FromStr>::from_str'), [a[0]]))

    @model(r'^<char as std::str::FromStr>::from_str$')
    def _(E, st, callee, a, m):
        # Ok(c) iff the text is exactly one character (the text is well-formed UTF-8 by the type's invariant)
        s = as_str(st, a[0])
        l = char_len_at(s, bv(0))
        one = z3.And(z3.UGE(s.ln, 1), s.ln == l)
        e = Opaque('ParseCharError')
        return [(one, ok(I(decode_char_at(s, bv(0)), 32))), (z3.Not(one), err(e))]

    @model(r'^core::str::<impl str>::(trim|trim_start|trim_end)$')
    def _(E, st, callee, a, m):
        raise Inconclusive('str::trim not modelled')
