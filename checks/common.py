"""Shared machinery of the property checks: regeneration of the encoding from /repo, solver queries with
time caps, native replay of every counterexample, known-findings handling, evidence writing, exit codes.

Exit codes: 0 = held on everything explored (known findings reported as KNOWN-FINDING lines),
            1 = VIOLATION (natively reproduced, not a listed finding),
            2 = inconclusive (bound hit, solver timeout/unknown, unsupported construct, non-reproducing
                counterexample, broken encoding) -- never reported as success.
"""
import json, os, subprocess, sys, time, hashlib, traceback, random

VERIF = os.path.dirname(os.path.dirname(os.path.abspath(__file__)))
sys.path.insert(0, VERIF)
import z3  # noqa: E402
from mirsym.engine import Engine, Outcome  # noqa: E402
from mirsym.values import *  # noqa: E402

REPO = os.environ.get('VERIF_REPO', '/repo')
CACHE = os.environ.get('VERIF_CACHE', os.path.join(VERIF, '.cache'))
TOOLCHAIN = '1.88.0'

CRATES = {
    'idval': ('ruma-identifiers-validation', 'ruma_identifiers_validation', ''),
    'common': ('ruma-common', 'ruma_common', 'api,canonical-json'),
    'signatures': ('ruma-signatures', 'ruma_signatures', 'ring-compat'),
    'stateres': ('ruma-state-res', 'ruma_state_res', ''),
    'events': ('ruma-events', 'ruma_events', ''),
}


class Broken(Exception):
    """the encoding / model base is wrong (model-validation mismatch, non-reproducing counterexample)"""


class Check:
    def __init__(self, pid, argv=None, level='model_checking'):
        argv = sys.argv[1:] if argv is None else argv
        self.pid = pid
        self.tier = os.environ.get('VERIF_TIER', 'quick')
        self.replay_file = None
        i = 0
        while i < len(argv):
            if argv[i] == '--tier': self.tier = argv[i + 1]; i += 2
            elif argv[i] == '--replay': self.replay_file = argv[i + 1]; i += 2
            else: i += 1
        if self.tier not in ('quick', 'thorough'):
            self.tier = 'quick'
        self.seed = int(os.environ.get('VERIF_SEED', '0') or 0)
        self.rng = random.Random(self.seed)
        self.level = level
        self.t0 = time.time()
        self.queries = []         # dicts: name, result, expected, time
        self.violations = []      # confirmed, unlisted
        self.known_hits = []      # (role, description)
        self.inconclusive = []    # reasons
        self.samples = []
        self.assumptions = []
        self.functions = {}
        self.models_used = set()
        self.stats = {'paths': 0, 'steps': 0, 'solver_checks': 0, 'solver_s': 0.0}
        self.native_runs = 0
        self.model_validation = 0
        self.bounds = {}
        self.engines = []
        self.replayer = None
        self.known = load_known().get(pid, {})
        self.extra = {}
        self.solver_cap_ms = int(os.environ.get('VERIF_QUERY_CAP_MS', '120000' if self.tier == 'quick' else '900000'))

    # ------------------------------------------------------------------ regeneration
    def dump(self, key, want_doc=True, want_mir=True):
        crate, cname, feats = CRATES[key]
        mir = os.path.join(CACHE, 'mir', f'{key}.mir')
        doc = os.path.join(CACHE, 'mir', f'{key}.json')
        t = time.time()
        lock = os.path.join(CACHE, 'dump.lock')
        os.makedirs(os.path.join(CACHE, 'mir'), exist_ok=True)
        import fcntl
        with open(lock, 'w') as lf:
            fcntl.flock(lf, fcntl.LOCK_EX)
            env = dict(os.environ, VERIF_REPO=REPO, VERIF_CACHE=CACHE)
            if want_mir:
                r = subprocess.run([os.path.join(VERIF, 'tools/mirdump.sh'), crate, mir, feats], env=env, capture_output=True, text=True)
                if r.returncode != 0:
                    raise Broken(f'MIR dump of {crate} failed (does /repo still compile?):\n' + r.stderr[-2000:])
            if want_doc:
                r = subprocess.run([os.path.join(VERIF, 'tools/rustdocdump.sh'), crate, doc, feats], env=env, capture_output=True, text=True)
                if r.returncode != 0:
                    raise Broken(f'rustdoc index of {crate} failed:\n' + r.stderr[-2000:])
        self.extra.setdefault('regen_s', {})[key] = round(time.time() - t, 1)
        return cname, mir, (doc if want_doc else None)

    def engine(self, keys, N=32, **kw):
        E = Engine(N=N, **kw)
        for k in keys:
            cname, mir, doc = self.dump(k) if (k, 'dumped') not in self.extra else self.extra[(k, 'dumped')]
            self.extra[(k, 'dumped')] = (cname, mir, doc)
            E.load_crate(cname, mir, doc)
        self.engines.append(E)
        return E

    def fresh_engine(self, keys, N=32, **kw):
        """another engine over the same (already regenerated) dumps"""
        E = Engine(N=N, **kw)
        for k in keys:
            cname, mir, doc = self.extra[(k, 'dumped')]
            E.load_crate(cname, mir, doc)
        self.engines.append(E)
        return E

    # ------------------------------------------------------------------ native replay
    def build_replayer(self, features=()):
        tgt = os.path.join(CACHE, 'replay-target')
        rdir = os.path.join(VERIF, 'replay')
        t = time.time()
        import fcntl, shutil
        os.makedirs(CACHE, exist_ok=True)
        with open(os.path.join(CACHE, 'replay.lock'), 'w') as lf:
            fcntl.flock(lf, fcntl.LOCK_EX)
            shutil.copyfile(os.path.join(REPO, 'Cargo.lock'), os.path.join(rdir, 'Cargo.lock'))
            env = dict(os.environ, CARGO_NET_OFFLINE='true', RUSTUP_TOOLCHAIN=TOOLCHAIN, CARGO_TARGET_DIR=tgt,
                       RUSTFLAGS='--cfg ruma_verif')
            cmd = ['cargo', 'build', '--offline', '--manifest-path', os.path.join(rdir, 'Cargo.toml')]
            if features:
                cmd += ['--features', ','.join(features)]
            r = subprocess.run(cmd, env=env, capture_output=True, text=True)
            if r.returncode != 0:
                raise Broken('native replayer failed to build:\n' + r.stderr[-3000:])
            # private copy so that concurrent checks with other feature sets do not swap the binary under us
            binp = os.path.join(CACHE, f'replay-{self.pid}-{os.getpid()}')
            shutil.copyfile(os.path.join(tgt, 'debug', 'verif-replay'), binp)
            os.chmod(binp, 0o755)
        self.extra.setdefault('regen_s', {})['replayer'] = round(time.time() - t, 1)
        self.replayer_bin = binp
        self.replayer = subprocess.Popen([binp], stdin=subprocess.PIPE, stdout=subprocess.PIPE, text=True, bufsize=1)

    def native(self, req):
        if self.replayer is None or self.replayer.poll() is not None:
            self.replayer = subprocess.Popen([self.replayer_bin], stdin=subprocess.PIPE, stdout=subprocess.PIPE, text=True, bufsize=1)
        self.replayer.stdin.write(json.dumps(req) + '\n')
        self.replayer.stdin.flush()
        line = self.replayer.stdout.readline()
        self.native_runs += 1
        if not line:
            # the process died (abort / stack overflow): that is itself an outcome
            rc = self.replayer.wait()
            self.replayer = None
            return {'r': 'abort', 'code': rc}
        return json.loads(line)

    # ------------------------------------------------------------------ solver queries
    def solve(self, name, formulas, want_model=True):
        """decide And(formulas); returns ('sat', model) | ('unsat', None).  unknown/timeout -> Inconclusive."""
        s = z3.Solver()
        s.set('timeout', self.solver_cap_ms)
        for f in formulas:
            s.add(f)
        t = time.time()
        r = s.check()
        dt = time.time() - t
        self.stats['solver_s'] += dt
        self.queries.append({'name': name, 'result': str(r), 's': round(dt, 3)})
        if os.environ.get('VERIF_DUMP_SMT'):
            d = os.path.join(CACHE, 'smt', self.pid); os.makedirs(d, exist_ok=True)
            open(os.path.join(d, hashlib.sha1(name.encode()).hexdigest()[:10] + '.smt2'), 'w').write('; ' + name + '\n' + s.to_smt2())
        if r == z3.unknown:
            raise Inconclusive(f'solver gave no verdict on query {name!r} within {self.solver_cap_ms} ms ({s.reason_unknown()})')
        return ('sat', s.model()) if r == z3.sat else ('unsat', None)

    def solve_split(self, name, base, disjuncts, chunk=16):
        """decide And(base) & Or(disjuncts) in chunks of disjuncts, each on a fresh solver (z3's non-incremental pipeline:
        simplification and bit-blasting, far stronger than its incremental core on these formulas); same verdict as
        solve(name, base + [Or(disjuncts)]), smaller queries."""
        t = time.time()
        res, model, nsub = 'unsat', None, 0
        work = [disjuncts[i:i + chunk] for i in range(0, len(disjuncts), chunk)][::-1]
        while work:
            grp = work.pop()
            s = z3.Solver()
            # a chunk that does not finish within a fraction of the cap is split and retried disjunct by disjunct
            s.set('timeout', self.solver_cap_ms if len(grp) == 1 else max(5000, self.solver_cap_ms // 6))
            for f in base:
                s.add(f)
            s.add(z3.Or(*grp) if len(grp) > 1 else grp[0])
            r = s.check(); nsub += 1
            if os.environ.get('VERIF_PROGRESS') and nsub % 10 == 0:
                print(f'[progress] {name}: sub-query {nsub}, {len(work)} chunks left, {time.time() - t:.0f}s', file=sys.stderr, flush=True)
            if r == z3.unknown and len(grp) > 1:
                half = (len(grp) + 1) // 2
                work.append(grp[half:]); work.append(grp[:half])
                continue
            if r == z3.unknown:
                dt = time.time() - t
                self.stats['solver_s'] += dt
                self.queries.append({'name': name, 'result': 'unknown', 's': round(dt, 3), 'sub_queries': nsub})
                raise Inconclusive(f'solver gave no verdict on sub-query {nsub} of {name!r} within {self.solver_cap_ms} ms ({s.reason_unknown()})')
            if r == z3.sat:
                res, model = 'sat', s.model()
                break
        dt = time.time() - t
        self.stats['solver_s'] += dt
        self.queries.append({'name': name, 'result': res, 's': round(dt, 3), 'sub_queries': nsub})
        return res, model

    def cross_check(self, name, formulas, expect):
        """thorough tier: re-decide with the system z3 4.8.12 binary on the SMT-LIB2 dump"""
        s = z3.Solver()
        for f in formulas:
            s.add(f)
        txt = '(set-logic ALL)\n' + s.to_smt2()
        d = os.path.join(CACHE, 'smt', self.pid); os.makedirs(d, exist_ok=True)
        p = os.path.join(d, 'x_' + hashlib.sha1(name.encode()).hexdigest()[:10] + '.smt2')
        open(p, 'w').write(txt)
        t = time.time()
        try:
            r = subprocess.run(['/usr/bin/z3', f'-T:{max(30, self.solver_cap_ms // 1000)}', p], capture_output=True, text=True)
        except Exception as e:
            return None
        out = r.stdout.strip().split('\n')[0] if r.stdout.strip() else ''
        self.queries.append({'name': name + ' [z3-4.8.12]', 'result': out, 's': round(time.time() - t, 3)})
        if '(error' in r.stdout or out not in ('sat', 'unsat'):
            return None
        if out != expect:
            raise Inconclusive(f'solver disagreement on {name}: z3py says {expect}, z3 4.8.12 says {out}')
        return out

    # ------------------------------------------------------------------ parallel sub-checks
    def export(self):
        for E in self.engines:
            self.absorb(E)
        if self.replayer is not None:
            try:
                self.replayer.stdin.close(); self.replayer.wait(timeout=5)
            except Exception:
                pass
        return {'queries': self.queries, 'violations': self.violations, 'known_hits': self.known_hits,
                'inconclusive': self.inconclusive, 'samples': self.samples, 'assumptions': self.assumptions,
                'functions': self.functions, 'models_used': sorted(self.models_used), 'stats': self.stats,
                'native_runs': self.native_runs, 'model_validation': self.model_validation, 'bounds': self.bounds}

    def merge(self, d):
        self.queries += d['queries']; self.violations += [tuple(x) for x in d['violations']]
        for x in d['known_hits']:
            if tuple(x) not in self.known_hits: self.known_hits.append(tuple(x))
        self.inconclusive += d['inconclusive']; self.samples += d['samples']
        for a in d['assumptions']:
            if a not in self.assumptions: self.assumptions.append(a)
        self.functions.update(d['functions']); self.models_used |= set(d['models_used'])
        for k, v in d['stats'].items():
            self.stats[k] = self.stats.get(k, 0) + v
        self.native_runs += d['native_runs']; self.model_validation += d['model_validation']
        self.bounds.update(d['bounds'])

    def sub(self):
        """a worker-side Check sharing this run's regenerated dumps and replayer binary"""
        return {'pid': self.pid, 'tier': self.tier, 'seed': self.seed, 'dumped': {k[0]: v for k, v in self.extra.items() if isinstance(k, tuple)},
                'replayer_bin': getattr(self, 'replayer_bin', None), 'cap': self.solver_cap_ms}

    @staticmethod
    def from_sub(d):
        C = Check(d['pid'], argv=['--tier', d['tier']])
        C.seed = d['seed']; C.rng = random.Random(d['seed'])
        for k, v in d['dumped'].items():
            C.extra[(k, 'dumped')] = tuple(v)
        C.replayer_bin = d['replayer_bin']
        C.solver_cap_ms = d['cap']
        C.is_sub = True
        return C

    # ------------------------------------------------------------------ verdict plumbing
    def is_known(self, role):
        e = self.known.get(role)
        return e is not None and e.get('status', 'open') == 'open'

    def report_known(self, role, what):
        if (role, what) not in self.known_hits:
            self.known_hits.append((role, what))

    def report_violation(self, what, vector):
        d = os.path.join(VERIF, 'evidence', 'replays'); os.makedirs(d, exist_ok=True)
        h = hashlib.sha1(json.dumps(vector, sort_keys=True).encode()).hexdigest()[:10]
        p = os.path.join(d, f'{self.pid}-{h}.json')
        json.dump({'property': self.pid, 'what': what, 'vector': vector}, open(p, 'w'), indent=1)
        self.violations.append((what, p))

    def absorb(self, E):
        for k in ('paths', 'steps', 'solver_checks', 'solver_s'):
            self.stats[k] += E.stats.get(k, 0)
            E.stats[k] = 0
        self.models_used |= E.used_models
        self.functions.update(E.used_funcs)

    def finish(self):
        for E in self.engines:
            self.absorb(E)
        if self.replayer is not None:
            try:
                self.replayer.stdin.close(); self.replayer.wait(timeout=5)
            except Exception:
                pass
        try:
            os.unlink(self.replayer_bin)
        except Exception:
            pass
        self.samples.sort(key=lambda x: 0 if ('counterexample' in x or 'role' in x) else 1)
        nq = len(self.queries)
        cov = {
            'states': max(1, int(self.stats['paths'])),
            'transitions': max(1, int(self.stats['steps'])),
            'traces_validated_against_impl': int(self.native_runs),
            'samples': self.samples[:40] or [{'note': 'no samples recorded'}],
            'queries_discharged': nq,
            'queries_unsat': sum(1 for q in self.queries if q['result'] == 'unsat'),
            'queries_sat': sum(1 for q in self.queries if q['result'] == 'sat'),
            'solver_time_s': round(self.stats['solver_s'], 2),
            'path_feasibility_checks': int(self.stats['solver_checks']),
            'functions_encoded': dict(sorted(self.functions.items())),
            'library_models_used': sorted(self.models_used),
            'bounds': self.bounds,
            'model_validation_vectors': self.model_validation,
            'known_findings_matched': [f'{r}: {w}' for r, w in self.known_hits],
            'inconclusive': self.inconclusive,
            'queries': self.queries[:400],
            'regen_s': self.extra.get('regen_s', {}),
            'exhaustive': False,
        }
        for k, v in self.extra.items():
            if isinstance(k, str) and k not in ('regen_s',):
                cov[k] = v
        ev = {'property_id': self.pid, 'tier': self.tier, 'seed': self.seed, 'level': self.level, 'coverage': cov,
              'assumptions': self.assumptions, 'wall_s': round(time.time() - self.t0, 2), 'violations': len(self.violations)}
        os.makedirs(os.path.join(VERIF, 'evidence'), exist_ok=True)
        json.dump(ev, open(os.path.join(VERIF, 'evidence', f'{self.pid}.json'), 'w'), indent=1, default=str)
        for role, what in self.known_hits:
            print(f'KNOWN-FINDING: property={self.pid} {role}: {what}')
        for what, p in self.violations:
            print(f'VIOLATION property={self.pid} replay={p}')
            print(f'  {what}')
        for r in self.inconclusive:
            print(f'INCONCLUSIVE property={self.pid}: {r}')
        if self.violations:
            code = 1
        elif self.inconclusive:
            code = 2
        else:
            code = 0
        print(f'{self.pid} tier={self.tier} queries={nq} paths={self.stats["paths"]} native_replays={self.native_runs} '
              f'wall={time.time() - self.t0:.1f}s exit={code}')
        return code


def load_known():
    p = os.path.join(VERIF, 'known-findings.json')
    if not os.path.exists(p):
        return {}
    d = json.load(open(p))
    out = {}
    for e in d.get('findings', []):
        out.setdefault(e['property'], {})[e['role']] = e
    return out


def model_bytes(model, s, maxlen=None):
    """concrete bytes of Str s under a z3 model"""
    ln = model.eval(s.ln, model_completion=True).as_long()
    if maxlen is not None:
        ln = min(ln, maxlen)
    return bytes(model.eval(s.at(j), model_completion=True).as_long() for j in range(ln))


def parallel_map(C, worker, jobs, nproc=None):
    """run worker(sub_descriptor, job) in separate processes (spawn), merge their exported results into C.
    `worker` may also be a list of (worker, job) pairs to mix several worker functions in one pool."""
    import multiprocessing as mp
    nproc = nproc or int(os.environ.get('VERIF_JOBS', '14'))
    ctx = mp.get_context('spawn')
    sd = C.sub()
    if isinstance(worker, list):
        pairs = worker
        jobs = [j for _, j in pairs]
    else:
        pairs = [(worker, j) for j in jobs]
    if not pairs:
        return
    with ctx.Pool(min(nproc, max(1, len(pairs)))) as pool:
        mainmod = os.path.splitext(os.path.basename(sys.argv[0]))[0]
        results = [pool.apply_async(_run_worker, (w.__module__ if w.__module__ != '__main__' else mainmod, w.__name__, sd, j)) for w, j in pairs]
        for j, r in zip(jobs, results):
            try:
                d = r.get()
            except Exception as e:
                C.inconclusive.append(f'worker for {j!r} failed: {e!r}')
                continue
            C.merge(d)


def _run_worker(modname, fname, sd, job):
    import importlib
    sys.path.insert(0, os.path.join(VERIF, 'checks'))
    mod = importlib.import_module(modname if modname != '__main__' else os.environ.get('VERIF_MAIN_MODULE', '__main__'))
    C = Check.from_sub(sd)
    prof = None
    if os.environ.get('VERIF_PROFILE'):
        import cProfile, pstats, threading, io
        prof = cProfile.Profile()
        def dump():
            prof.disable()
            out = io.StringIO(); pstats.Stats(prof, stream=out).sort_stats('cumulative').print_stats(45)
            print(out.getvalue(), file=sys.stderr, flush=True); os._exit(3)
        threading.Timer(float(os.environ['VERIF_PROFILE']), dump).start()
        prof.enable()
    try:
        getattr(mod, fname)(C, job)
    except Inconclusive as e:
        C.inconclusive.append(f'{job}: {e}')
    except Broken as e:
        C.inconclusive.append(f'{job}: BROKEN-ENCODING: {e}')
    except Exception as e:
        C.inconclusive.append(f'{job}: internal error: {e!r}\n' + traceback.format_exc()[-1500:])
    return C.export()


def run_check(pid, body, level='model_checking'):
    """standard wrapper: runs body(Check), converts exceptions to exit codes"""
    C = Check(pid, level=level)
    try:
        body(C)
    except Inconclusive as e:
        C.inconclusive.append(str(e))
    except Broken as e:
        C.inconclusive.append('BROKEN-ENCODING: ' + str(e))
    except Exception as e:
        C.inconclusive.append('internal error: ' + repr(e) + '\n' + traceback.format_exc()[-1500:])
    code = C.finish()
    sys.exit(code)
