"""Symbolic world for ruma-state-res' event authorization (C08 / C09 / C20).

The *input type* is abstracted, the solver ranges over all its values:
  users      4-byte ids `@<l>:<s>` with l in a..d and s in x..y (symbolic bytes): equality, `@` sigil, server-name
             comparison and the `<&UserId>::try_from` validation all run on real strings;
  events     abstract objects answering the `Event` trait (sender, type, state_key, prev/auth events, content);
  content    abstract JSON: each field is (tag, value) with tag in absent / well-typed / malformed; power levels are
             symbolic 64-bit integers constrained to the JSON-int range, integer- or string-typed;
  state      a function (type, state_key) -> Option<event> over the finitely many keys the run asks for, defined by
             role (sender / target / authorising user / creator / other), consistent when roles coincide.
Below the seam (modelled, listed as library models): serde_json parsing of contents (`from_raw_json_value`,
`RoomPowerLevelsEvent::{get_as_int, get_as_int_map, users}`), the `Event` trait accessors, tracing.
Above the seam everything is the crate's MIR: auth_check, check_room_*, FetchStateExt, RoomCreateEvent / RoomMemberEvent /
RoomJoinRulesEvent accessors, default power levels, creator fallback, `user_power_level`, `event_power_level`."""
import re, itertools
import z3
from common import *
from mirsym.models.str_models import str_eq

INT_MAX = (1 << 53) - 1
MEMBERSHIPS = ['join', 'invite', 'leave', 'ban', 'knock']
MEMBER_ENUM = 'ruma_events::room::member::MembershipState'
MEMBER_VARIANT = {'join': 'Join', 'invite': 'Invite', 'leave': 'Leave', 'ban': 'Ban', 'knock': 'Knock'}
JOIN_RULES = ['public', 'invite', 'knock', 'restricted', 'knock_restricted']
JOINRULE_ENUM = 'events::join_rules::JoinRule'
JOINRULE_VARIANT = {'public': 'Public', 'invite': 'Invite', 'knock': 'Knock', 'restricted': 'Restricted', 'knock_restricted': 'KnockRestricted'}
PL_FIELDS = ['users_default', 'events_default', 'state_default', 'ban', 'redact', 'kick', 'invite']
PL_FIELD_VARIANT = {'users_default': 'UsersDefault', 'events_default': 'EventsDefault', 'state_default': 'StateDefault', 'ban': 'Ban',
                    'redact': 'Redact', 'kick': 'Kick', 'invite': 'Invite'}
PL_DEFAULT = {'users_default': 0, 'events_default': 0, 'state_default': 50, 'ban': 50, 'redact': 50, 'kick': 50, 'invite': 0}
TET = 'ruma_events::enums::TimelineEventType'
SET = 'ruma_events::enums::StateEventType'


def mk_int(v):
    return Adt('js_int::Int', None, [I(v, 64, True)])


def int_val(x):
    return x.fields[0].v


class SymUser:
    """`@<l>:<s>`"""
    def __init__(self, name):
        self.name = name
        self.l = z3.BitVec(f'{name}_l', 8)
        self.s = z3.BitVec(f'{name}_s', 8)
        self.cons = [z3.UGE(self.l, 97), z3.ULE(self.l, 100), z3.UGE(self.s, 120), z3.ULE(self.s, 121)]
        elems = [z3.BitVecVal(64, 8), self.l, z3.BitVecVal(58, 8), self.s]
        self.str = Str(z3.K(BV64, z3.BitVecVal(0, 8)), bv(0), bv(4), True, 4, None, 4, elems)

    def eq(self, other):
        return z3.And(self.l == other.l, self.s == other.s)

    def same_server(self, other):
        return self.s == other.s

    def value(self, model):
        return '@' + chr(model.eval(self.l, model_completion=True).as_long()) + ':' + chr(model.eval(self.s, model_completion=True).as_long())


class Field:
    """abstract JSON field: tag 0 = absent, 1 = well-typed value, 2 = malformed (wrong JSON type)"""
    def __init__(self, name, sort='int', choices=None):
        self.name = name
        self.tag = z3.BitVec(f'{name}_tag', 8)
        self.cons = [z3.ULE(self.tag, 2)]
        self.sort = sort
        if sort == 'int':
            self.v = z3.BitVec(f'{name}_v', 64)
            self.is_str = z3.Bool(f'{name}_isstr')          # JSON string holding an integer (allowed before v10)
            self.cons += [self.v >= -INT_MAX, self.v <= INT_MAX]
        elif sort == 'bool':
            self.v = z3.Bool(f'{name}_v')
        elif sort == 'enum':
            self.choices = choices                            # list of spellings; index len(choices) = other string
            self.v = z3.BitVec(f'{name}_v', 8)
            self.cons += [z3.ULE(self.v, len(choices))]

    def absent(self): return self.tag == 0
    def ok(self): return self.tag == 1
    def bad(self): return self.tag == 2


def install(C, E, world):
    """register the seam models on engine E for `world`"""
    OV = E.overrides

    def d(st, v):
        return E.deref(st, v)

    def ev_of(st, v):
        v = d(st, v)
        while isinstance(v, Adt) and len(v.fields) >= 1 and not (isinstance(v, Obj)):
            # RoomCreateEvent(E) / RoomMemberEvent(E) ... wrappers
            v = d(st, v.fields[0])
        if isinstance(v, Obj) and v.kind == 'PLEvent':
            v = v.data['event']
        return v

    # ---- Event trait
    def event_model(E_, st, callee, a, m):
        ev = ev_of(st, a[0])
        if not (isinstance(ev, Obj) and ev.kind == 'Event'):
            return None
        f = m.group(1)
        dta = ev.data
        if f in ('event_id', 'room_id', 'sender', 'event_type', 'content', 'origin_server_ts'):
            return [(TRUE, dta[f])]
        if f == 'state_key':
            return dta['state_key_outcomes']()
        if f in ('prev_events', 'auth_events'):
            return dta[f + '_outcomes']()
        if f == 'redacts':
            if 'redacts_outcomes' in dta:
                return dta['redacts_outcomes']()
            return [(TRUE, NONE)]
        raise Inconclusive('Event::' + f)
    OV.append((re.compile(r'^<.+ as (?:events::traits::|ruma_state_res::)?Event>::(\w+)$'), event_model))

    # ---- fetch_state closure
    def fn_call(E_, st, callee, a, m):
        tgt = d(st, a[0])
        if isinstance(tgt, Obj) and tgt.kind == 'PyFn':
            args = a[1].fields if isinstance(a[1], Tup) else [a[1]]
            return tgt.data(E_, st, list(args))
        return None
    OV.append((re.compile(r'^<.+ as (?:std|core)::ops::(?:Fn|FnMut|FnOnce)>::call(?:_mut|_once)?$'), fn_call))

    # ---- serde seam: from_raw_json_value::<T, E>(content)
    def from_raw(E_, st, callee, a, m):
        content = d(st, a[0])
        if not (isinstance(content, Obj) and content.kind == 'Content'):
            return None
        from mirsym.mirparse import turbofish
        t = [x for x in turbofish(callee) if not x.strip().startswith("'")]
        tname = t[0].split('::')[-1] if t else ''
        h = content.data.get('handlers', {}).get(tname)
        if h is None:
            raise Inconclusive(f'no content model for from_raw_json_value::<{tname}> on {content.data.get("what")}')
        return h(E_, st, t[0])
    OV.append((re.compile(r'^(?:ruma_common::)?serde::from_raw_json_value$'), from_raw))

    # ---- power-levels event seam
    def pl_new(E_, st, callee, a, m):
        ev = d(st, a[0])
        return [(TRUE, Obj('PLEvent', {'event': ev}))]
    OV.append((re.compile(r'^events::power_levels::RoomPowerLevelsEvent::new$'), pl_new))

    def pl_deref(E_, st, callee, a, m):
        v = d(st, a[0])
        if isinstance(v, Obj) and v.kind == 'PLEvent':
            return [(TRUE, E_.root_ref(st, v.data['event']))]
        return None
    OV.append((re.compile(r'^<events::power_levels::RoomPowerLevelsEvent as std::ops::Deref>::deref$'), pl_deref))

    def pl_content(st, v):
        v = d(st, v)
        return v.data['event'].data['content'].data

    def pl_get_as_int(E_, st, callee, a, m):
        cd = pl_content(st, a[0])
        if 'pl' not in cd:
            raise Inconclusive('get_as_int on a non power-levels content')
        field = d(st, a[1]).variant
        rules = d(st, a[2])
        intpl = rule_field(E_, rules, 'integer_power_levels')
        name = [k for k, v in PL_FIELD_VARIANT.items() if v == field][0]
        f = cd['pl']['ints'][name]
        whole_bad = cd['pl']['malformed']
        errv = err(Obj('String', E_.const_str(b'malformed power levels')))
        good = z3.And(z3.Not(whole_bad), f.ok(), z3.Or(z3.Not(f.is_str), z3.Not(intpl)))
        return [(z3.And(z3.Not(whole_bad), f.absent()), ok(NONE)),
                (good, ok(some(mk_int(f.v)))),
                (z3.Or(whole_bad, f.bad(), z3.And(f.ok(), f.is_str, intpl)), errv)]
    OV.append((re.compile(r'^events::power_levels::RoomPowerLevelsEvent::get_as_int$'), pl_get_as_int))

    def pl_map(E_, st, cd, which, rules):
        mp = cd['pl'][which]
        intpl = rule_field(E_, rules, 'integer_power_levels')
        whole_bad = cd['pl']['malformed']
        errv = err(Obj('String', E_.const_str(b'malformed power levels map')))
        # any string-typed value makes the map invalid from v10
        anystr = z3.Or(*[z3.And(e['present'], e['is_str']) for e in mp['entries']]) if mp['entries'] else z3.BoolVal(False)
        bad = z3.Or(whole_bad, mp['tag'] == 2, z3.And(mp['tag'] == 1, anystr, intpl))
        ents = tuple((e['key'], mk_int(e['v']), e['present']) for e in mp['entries'])
        return [(z3.And(z3.Not(whole_bad), mp['tag'] == 0), ok(NONE)),
                (z3.And(z3.Not(bad), mp['tag'] == 1), ok(some(Obj('SymMap', ents)))),
                (bad, errv)]

    def pl_get_as_int_map(E_, st, callee, a, m):
        cd = pl_content(st, a[0])
        key = E_.as_str(st, a[1]).conc().decode()
        return pl_map(E_, st, cd, key, d(st, a[2]))
    OV.append((re.compile(r'^events::power_levels::RoomPowerLevelsEvent::get_as_int_map$'), pl_get_as_int_map))

    def pl_users(E_, st, callee, a, m):
        cd = pl_content(st, a[0])
        outs = pl_map(E_, st, cd, 'users', d(st, a[1]))
        res = []
        for cond, v in outs:
            if v.variant == 'Ok' and v.fields[0].variant == 'Some':
                def eff(st2, v=v):
                    return ok(some(E_.root_ref(st2, v.fields[0].fields[0])))
                res.append((cond, None, eff))
            else:
                res.append((cond, v))
        return res
    OV.append((re.compile(r'^events::power_levels::RoomPowerLevelsEvent::users$'), pl_users))

    # ---- SymMap: BTreeMap with symbolic presence flags (entries: (key, value, present))
    def symmap_get(E_, st, callee, a, m):
        mp = d(st, a[0])
        if not (isinstance(mp, Obj) and mp.kind == 'SymMap'):
            return None
        from mirsym.models.core_models import deep_eq
        key = a[1]
        outs, none_before = [], TRUE
        for (k, v, present) in mp.data:
            eq = z3.simplify(z3.And(present, deep_eq(E_, st, k, key)))
            cond = z3.simplify(z3.And(none_before, eq))
            none_before = z3.simplify(z3.And(none_before, z3.Not(eq)))
            if not z3.is_false(cond):
                def eff(st2, v=v):
                    return some(E_.root_ref(st2, v))
                outs.append((cond, None, eff))
        if not z3.is_false(none_before):
            outs.append((none_before, NONE))
        return outs
    OV.append((re.compile(r'^std::collections::BTreeMap::get$'), symmap_get))

    def symmap_iter(E_, st, callee, a, m):
        mp = d(st, a[0])
        if not (isinstance(mp, Obj) and mp.kind == 'SymMap'):
            return None
        # fork on the presence of every entry; duplicates (equal keys) are merged by the world's construction
        outs = []
        ents = mp.data
        for bits in itertools.product([False, True], repeat=len(ents)):
            cond = z3.And(*[(p if b else z3.Not(p)) for (k, v, p), b in zip(ents, bits)]) if ents else TRUE
            items = [(k, v) for (k, v, p), b in zip(ents, bits) if b]
            outs.append((z3.simplify(cond), E_.mk_map('BTreeMap', items)))
        op = m.group(1)
        res = []
        for cond, mm in outs:
            if z3.is_false(cond): continue
            def eff(st2, mm=mm, op=op):
                r = E_.root_ref(st2, mm)
                kind, ents2 = mm.data
                if op == 'keys':
                    return Obj('SeqIter', (tuple(k if isinstance(k, Str) else Ref(r.frame, r.local, r.proj + (('mapkey', i),)) for i, (k, v) in enumerate(ents2)), 0))
                if op == 'len':
                    return I(len(ents2), 64)
                items = [Tup([k if isinstance(k, Str) else Ref(r.frame, r.local, r.proj + (('mapkey', i),)), Ref(r.frame, r.local, r.proj + (('mapval', i),))]) for i, (k, v) in enumerate(ents2)]
                return Obj('SeqIter', (tuple(items), 0))
            res.append((cond, None, eff))
        return res
    OV.append((re.compile(r'^std::collections::BTreeMap::(keys|iter|len)$'), symmap_iter))


def rule_field(E, rules, name):
    names = E.src.structs.get('room_version_rules::AuthorizationRules') or E.src.structs.get('ruma_common::room_version_rules::AuthorizationRules')
    return rules.fields[names.index(name)]


def rules_for_version(C, E, v):
    """AuthorizationRules reached through RoomVersionId::V<v>.rules() (evaluated from ruma-common's MIR)"""
    rid = Adt('ruma_common::identifiers::room_version_id::RoomVersionId', f'V{v}', [])
    st = E.new_state()
    ref = E.root_ref(st, rid)
    f = E.find_method('RoomVersionId', 'rules')
    outs = E.run_func(f, [ref], st=st)
    if len(outs) != 1 or outs[0].kind != 'ret' or outs[0].value.variant != 'Some':
        raise Broken(f'RoomVersionId::V{v}.rules() is not Some on one path')
    rvr = outs[0].value.fields[0]
    names = E.src.structs['room_version_rules::RoomVersionRules']
    return rvr.fields[names.index('authorization')], rvr
