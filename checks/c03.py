#!/usr/bin/env python3-vt
"""C03 - event signatures survive redaction; required signers and hash status enforced.

Executed from the MIR of ruma-signatures with the cryptographic / serialization primitives as tagged ideal values (sigsym.py):
 S  signer selection   servers_to_check_signatures on events of every enumerated shape (type, sender, event_id, membership,
                       third_party_invite, join_authorised_via_users_server present / absent / malformed; user and server names
                       symbolic) for every room version: the demanded servers are exactly the sender's server (unless the event
                       is an invite created from a third-party invite), the event id's server in room versions 1-2, and the
                       authorising user's server from version 8.
 V  verify_event       for every combination of per-signer signature states (valid, wrong, missing set, set not an object,
                       no public keys, key missing, not a string, not base64, only unknown algorithms) and hash states: Ok iff
                       every demanded server has a valid supported signature over the canonical JSON of the *redacted* event
                       without signatures/unsigned; Verified::All iff the stored sha256 is the content hash of the event.
 H  hash_and_sign      the content hash is stored under hashes.sha256 before signing, the message signed is the canonical JSON of
                       the redacted event (same function of the event as V checks), signatures are copied back to the event.
What redact keeps is C04's subject; Ed25519, SHA-256, base64 and serde_json are outside the claim."""
import os, sys, re, itertools
sys.path.insert(0, os.path.dirname(os.path.abspath(__file__)))
from common import *
from sigsym import *
from authsym import SymUser
from c05 import version_rules, event_entries
from mirsym.models.str_models import str_eq

os.environ.setdefault('VERIF_MAIN_MODULE', 'c03')
KEYS = ['idval', 'common', 'signatures']


class SymEventId:
    """`$<l>:<s>` (room versions 1-2 format)"""
    def __init__(self, name):
        self.l, self.s = z3.BitVec(f'{name}_l', 8), z3.BitVec(f'{name}_s', 8)
        self.cons = [z3.UGE(self.l, 97), z3.ULE(self.l, 100), z3.UGE(self.s, 120), z3.ULE(self.s, 122)]
        elems = [z3.BitVecVal(36, 8), self.l, z3.BitVecVal(58, 8), self.s]
        self.str = Str(z3.K(z3.BitVecSort(64), z3.BitVecVal(0, 8)), bv(0), bv(4), True, 4, None, 4, elems)


# ------------------------------------------------------------------------------------------------ S signer selection
def run_selection(C, job):
    version = job
    E = C.fresh_engine(KEYS, N=8)
    E.feas_mode = 'budget'; E.feas_timeout_ms = 500; E.concrete_find = True
    install_entry_api(E)
    rules = version_rules(C, E, version)
    rnames = E.src.structs['room_version_rules::RoomVersionRules']
    sig_rules = rules.fields[rnames.index('signatures')]
    f = E.find_func('functions::servers_to_check_signatures')
    sender, auth = SymUser('sender'), SymUser('authoriser')
    evid = SymEventId('event_id')
    cons = sender.cons + auth.cons + evid.cons
    nruns = 0
    label = f'v{version}:signers'
    bad_total = []
    shapes = []
    for typ in ('m.room.member', 'm.room.message'):
        for snd in ('ok', 'absent', 'int'):
            for eid in ('server', 'hash', 'absent', 'int'):
                mems = ('join', 'invite', 'leave', 'absent', 'int') if typ == 'm.room.member' else ('absent',)
                for mem in mems:
                    tpis = ('absent', 'object', 'int') if typ == 'm.room.member' else ('absent', 'object')
                    for tpi in tpis:
                        for au in ('absent', 'ok', 'int'):
                            shapes.append((typ, snd, eid, mem, tpi, au))
    for typ, snd, eid, mem, tpi, au in shapes:
        content = []
        if mem == 'int': content.append((b'membership', cjv_int(1)))
        elif mem != 'absent': content.append((b'membership', cjv_str(E, mem.encode())))
        if tpi == 'object': content.append((b'third_party_invite', cjv_obj(mk_map(E, [(b'signed', cjv_obj(mk_map(E, [])))]))))
        elif tpi == 'int': content.append((b'third_party_invite', cjv_int(1)))
        if au == 'ok': content.append((b'join_authorised_via_users_server', cjv_str(E, Obj('String', auth.str))))
        elif au == 'int': content.append((b'join_authorised_via_users_server', cjv_int(1)))
        ents = [(b'type', cjv_str(E, typ.encode())), (b'content', cjv_obj(mk_map(E, content)))]
        if snd == 'ok': ents.append((b'sender', cjv_str(E, Obj('String', sender.str))))
        elif snd == 'int': ents.append((b'sender', cjv_int(1)))
        if eid == 'server': ents.append((b'event_id', cjv_str(E, Obj('String', evid.str))))
        elif eid == 'hash': ents.append((b'event_id', cjv_str(E, b'$abcdefghijklmnopqrstuvwxyzABCDEFGHIJKLMNOPQRS')))
        elif eid == 'int': ents.append((b'event_id', cjv_int(1)))
        st = E.new_state()
        outs = E.run_func(f, [E.root_ref(st, mk_map(E, ents)), E.root_ref(st, sig_rules)], cons, st=st)
        nruns += 1
        # ---- the specification
        malformed_member = typ == 'm.room.member' and (mem in ('absent', 'int') or (mem == 'invite' and tpi == 'int'))
        via_3pid = typ == 'm.room.member' and mem == 'invite' and tpi == 'object'
        want, err = [], malformed_member
        if not via_3pid:
            if snd == 'ok': want.append(('sender', sender.s))
            else: err = True
        if version <= 2:
            if eid == 'server': want.append(('event_id', evid.s))
            else: err = True
        if version >= 8 and au != 'absent':
            if au == 'ok': want.append(('authoriser', auth.s))
            else: err = True
        for o in outs:
            if o.kind != 'ret':
                bad_total.append((o.cond(), (typ, snd, eid, mem, tpi, au), 'panic')); continue
            v = o.value
            if v.variant == 'Err':
                if not err:
                    bad_total.append((o.cond(), (typ, snd, eid, mem, tpi, au), 'unexpected error'))
                continue
            if err:
                bad_total.append((o.cond(), (typ, snd, eid, mem, tpi, au), 'accepted although a demanded signer cannot be determined')); continue
            got = [E.as_str(o.st, x) for x in E.deref(o.st, v.fields[0]).data]
            got_s = [g.at(0) if z3.is_bv_value(z3.simplify(g.ln)) and z3.simplify(g.ln).as_long() == 1 else None for g in got]
            if any(g is None for g in got_s):
                raise Inconclusive(f'{label}: server name of unexpected shape in the result: {got}')
            same = z3.And(*[z3.Or(*[g == w for g in got_s]) if got_s else z3.BoolVal(False) for _, w in want],
                          *[z3.Or(*[g == w for _, w in want]) if want else z3.BoolVal(False) for g in got_s])
            bad_total.append((z3.And(o.cond(), z3.Not(same)), (typ, snd, eid, mem, tpi, au), 'wrong set of demanded servers'))
    C.absorb(E)
    r, m = C.solve_split(f'{label}: demanded signers == sender\'s server (unless third-party invite) + event-id server (v1-2) + authoriser\'s server (v8+), over {nruns} event shapes',
                         cons + list(E.axioms), [b[0] for b in bad_total], chunk=64)
    C.bounds[label] = {'event_shapes': nruns}
    if r == 'sat':
        hit = [b for b in bad_total if z3.is_true(m.eval(b[0], model_completion=True))][0]
        typ, snd, eid, mem, tpi, au = hit[1]
        vec = {'op': 'c03:signers', 'version': version, 'type': typ, 'sender': {'ok': sender.value(m), 'absent': None, 'int': 1}[snd],
               'event_id': {'server': '$' + chr(m.eval(evid.l, model_completion=True).as_long()) + ':' + chr(m.eval(evid.s, model_completion=True).as_long()),
                            'hash': '$abcdefghijklmnopqrstuvwxyzABCDEFGHIJKLMNOPQRS', 'absent': None, 'int': 1}[eid],
               'membership': {'absent': None, 'int': 1}.get(mem, mem), 'third_party_invite': {'absent': None, 'object': {'signed': {}}, 'int': 1}[tpi],
               'authoriser': {'ok': auth.value(m), 'absent': None, 'int': 1}[au]}
        res = C.native(vec); vec['native'] = res
        exp = expected_signers(vec)
        vec['spec'] = exp
        got = sorted(res.get('servers', [])) if res.get('r') == 'ok' else 'err'
        if got != exp:
            C.report_violation(f'{label}: {hit[2]}: servers_to_check_signatures -> {got}, the room version demands {exp} for {hit[1]}', vec)
            C.samples.append({'counterexample': vec})
        else:
            raise Broken(f'{label}: model does not reproduce natively: {vec}')
    else:
        vec = {'op': 'c03:signers', 'version': version, 'type': 'm.room.member', 'sender': '@a:x', 'event_id': '$b:y', 'membership': 'join',
               'third_party_invite': None, 'authoriser': '@c:z'}
        res = C.native(vec)
        C.model_validation += 1
        if res.get('r') != 'ok' or sorted(res.get('servers', [])) != expected_signers(vec):
            raise Broken(f'{label}: validation vector disagrees natively: {res} vs {expected_signers(vec)}')
        C.samples.append({'signers': label, 'example': sorted(res['servers'])})


def expected_signers(vec):
    v = vec['version']
    typ, mem, tpi = vec['type'], vec['membership'], vec['third_party_invite']
    srv = lambda u: u.split(':', 1)[1]
    if typ == 'm.room.member' and (not isinstance(mem, str) or (mem == 'invite' and tpi is not None and not isinstance(tpi, dict))):
        return 'err'
    out = set()
    if not (typ == 'm.room.member' and mem == 'invite' and isinstance(tpi, dict)):
        if not isinstance(vec['sender'], str): return 'err'
        out.add(srv(vec['sender']))
    if v <= 2:
        if not isinstance(vec['event_id'], str) or ':' not in vec['event_id']: return 'err'
        out.add(srv(vec['event_id']))
    if v >= 8 and vec['authoriser'] is not None:
        if not isinstance(vec['authoriser'], str): return 'err'
        out.add(srv(vec['authoriser']))
    return sorted(out)


# ------------------------------------------------------------------------------------------------ V verify_event
SIG_STATES = ['valid', 'wrong', 'missing_set', 'set_not_object', 'no_pubkeys', 'key_missing', 'not_string', 'not_base64', 'only_unknown_alg', 'valid_plus_unknown']
HASH_STATES = ['match', 'mismatch', 'not_base64', 'hashes_absent', 'hashes_not_object', 'sha256_absent', 'sha256_not_string']


def run_verify(C, job):
    version, states, hstate = job
    E = C.fresh_engine(KEYS, N=8)
    E.feas_mode = 'budget'; E.feas_timeout_ms = 500
    G = Sig(C, E, symbolic_len=False)       # the size limit is C05's subject
    install_entry_api(E)
    rules = version_rules(C, E, version)
    label = f'v{version}:verify_event[{",".join(states)};{hstate}]'
    servers = [b'x', b'y'][:len(states)]
    # ---- the event: a restricted join (v8+: second signer = the authoriser's server)
    content = [(b'membership', cjv_str(E, b'join'))]
    if len(states) == 2:
        content.append((b'join_authorised_via_users_server', cjv_str(E, b'@b:y')))
    ents = [(b'type', cjv_str(E, b'm.room.member')), (b'content', cjv_obj(mk_map(E, content))), (b'sender', cjv_str(E, b'@a:x')),
            (b'event_id', cjv_str(E, b'$e:x')), (b'unsigned', cjv_obj(mk_map(E, [(b'age', cjv_int(3))])))]
    # redact(event): arbitrary object carrying signatures (recorded)
    red_obj = mk_map(E, event_entries(E, (b'signatures', b'hashes'), 'red-'))
    red_calls = []

    def redact(E_, st, callee, a, m):
        red_calls.append((snapshot(E_, st, E_.deref(st, a[0])), repr(E_.deref(st, a[1])), E_.deref(st, a[2]).variant))
        return [(TRUE, ok(red_obj))]
    E.overrides.insert(0, (re.compile(r'^ruma_common::canonical_json::redact$'), redact))
    want_msg = snapshot(E, E.new_state(), mk_map(E, [(E.as_str(E.new_state(), k).conc(), v) for k, v in red_obj.data[1] if E.as_str(E.new_state(), k).conc() not in (b'signatures', b'unsigned')]))
    # ---- signatures and keys
    sig_strings, verify_calls = {}, []

    def sig_value(server, kind):
        s = G.fresh_str(('b64', 'standard', 'no_pad', Obj('SigBytes', (server, kind))), 'sig')
        return cjv_str(E, Obj('String', s))
    sigmap, keymap = [], []
    for srv, stt in zip(servers, states):
        pk = Adt('ruma_common::serde::base64::Base64', None, [Obj('PubKey', srv), Opaque('phantom')])
        keyset = [(b'ed25519:1', pk)]
        if stt == 'valid': sset = [(b'ed25519:1', sig_value(srv, 'good'))]
        elif stt == 'wrong': sset = [(b'ed25519:1', sig_value(srv, 'bad'))]
        elif stt == 'missing_set': sset = None
        elif stt == 'set_not_object': sset = 'int'
        elif stt == 'no_pubkeys': sset = [(b'ed25519:1', sig_value(srv, 'good'))]; keyset = None
        elif stt == 'key_missing': sset = [(b'ed25519:1', sig_value(srv, 'good'))]; keyset = [(b'ed25519:2', pk)]
        elif stt == 'not_string': sset = [(b'ed25519:1', cjv_int(1))]
        elif stt == 'not_base64': sset = [(b'ed25519:1', cjv_str(E, Obj('String', G.not_base64())))]
        elif stt == 'only_unknown_alg': sset = [(b'foo:1', sig_value(srv, 'good')), (b'nocolon', sig_value(srv, 'good'))]
        elif stt == 'valid_plus_unknown': sset = [(b'ed25519:1', sig_value(srv, 'good')), (b'foo:1', sig_value(srv, 'bad')), (b'nocolon', cjv_int(1))]
        if sset == 'int': sigmap.append((srv, cjv_int(1)))
        elif sset is not None: sigmap.append((srv, cjv_obj(mk_map(E, sset))))
        if keyset is not None:
            keymap.append((srv, mk_map(E, keyset)))
    # an extra signer nobody demands, with a wrong signature: must not matter
    sigmap.append((b'zzz.other', cjv_obj(mk_map(E, [(b'ed25519:1', sig_value(b'zzz.other', 'bad'))]))))
    ents.append((b'signatures', cjv_obj(mk_map(E, sigmap))))
    # ---- hashes
    ev_wo = [(k, v) for k, v in ents if k not in (b'signatures', b'unsigned')]
    def with_hashes(hv):
        return ev_wo + ([(b'hashes', hv)] if hv is not None else [])
    def b64_of_digest(snap):
        return Obj('String', G.fresh_str(('b64', 'standard', 'no_pad', Obj('Digest', snap)), 'hash'))
    content_snap = snapshot(E, E.new_state(), mk_map(E, ev_wo))
    if hstate == 'match': hv = cjv_obj(mk_map(E, [(b'sha256', cjv_str(E, b64_of_digest(content_snap)))]))
    elif hstate == 'mismatch': hv = cjv_obj(mk_map(E, [(b'sha256', cjv_str(E, b64_of_digest((('other', 1),))))]))
    elif hstate == 'not_base64': hv = cjv_obj(mk_map(E, [(b'sha256', cjv_str(E, Obj('String', G.not_base64())))]))
    elif hstate == 'hashes_absent': hv = None
    elif hstate == 'hashes_not_object': hv = cjv_int(1)
    elif hstate == 'sha256_absent': hv = cjv_obj(mk_map(E, [(b'md5', cjv_str(E, b'x'))]))
    elif hstate == 'sha256_not_string': hv = cjv_obj(mk_map(E, [(b'sha256', cjv_int(1))]))
    if hv is not None: ents.append((b'hashes', hv))
    event = mk_map(E, ents)

    def verify(E_, st, callee, a, m):
        pk, sg = E_.deref(st, a[1]), E_.deref(st, a[2])
        t = G.tag_of(st, a[3])
        verify_calls.append((pk, sg, t))
        good = (isinstance(pk, Obj) and pk.kind == 'PubKey' and isinstance(sg, Obj) and sg.kind == 'SigBytes' and sg.data == (pk.data, 'good')
                and t is not None and t[0] == 'json' and t[1] == want_msg)
        if t is None or t[0] != 'json' or t[1] != want_msg:
            st.note(('wrong-message', t[1] if t else None))
        return [(TRUE, ok(UNIT) if good else err(Opaque('VerificationError::Signature')))]
    E.overrides.insert(0, (re.compile(r'^<(?:V|verification::Ed25519Verifier) as verification::Verifier>::verify_json$'), verify))
    f = E.find_func('functions::verify_event')
    st = E.new_state()
    pkm = mk_map(E, keymap)
    outs = E.run_func(f, [E.root_ref(st, pkm), E.root_ref(st, event), E.root_ref(st, rules)], [], st=st)
    C.absorb(E)
    # ---- the specification
    ok_states = ('valid', 'valid_plus_unknown')
    sig_ok = all(s in ok_states for s in states)
    hash_err = hstate in ('hashes_absent', 'hashes_not_object', 'sha256_absent', 'sha256_not_string')
    want = 'Err' if (not sig_ok or hash_err) else ('All' if hstate == 'match' else 'Signatures')
    if len(outs) != 1:
        raise Inconclusive(f'{label}: {len(outs)} paths on a concrete scenario')
    o = outs[0]
    got = 'panic' if o.kind != 'ret' else ('Err' if o.value.variant == 'Err' else o.value.fields[0].variant)
    wrong_msg = [n for n in o.st.notes if n[0] == 'wrong-message']
    okq = got == want and not wrong_msg
    C.queries.append({'name': label + f': verdict {want}; signatures checked over canonical JSON of the redacted event', 'result': 'unsat' if okq else 'sat', 's': 0})
    C.stats['paths'] += 0
    if not okq:
        vec = {'op': 'c03:verify', 'version': version, 'states': list(states), 'hash': hstate}
        res = C.native(vec); vec['native'] = res
        vec['spec'] = want
        if res.get('r') == 'ok' and res.get('v') != want:
            C.report_violation(f'{label}: verify_event -> {res.get("v")}, expected {want}' + (f' (signature checked over the wrong text: {wrong_msg[0][1]})' if wrong_msg else ''), vec)
            C.samples.append({'counterexample': vec})
        else:
            raise Broken(f'{label}: interpreter says {got} (wrong message: {bool(wrong_msg)}), expected {want}, native {res}')
    return okq


def run_verify_batch(C, job):
    version, combos = job
    for states, hstate in combos:
        run_verify(C, (version, states, hstate))
    # model validation: a few scenarios through the native build with real Ed25519 keys
    for states, hstate, want in ((('valid',), 'match', 'All'), (('valid', 'wrong'), 'match', 'Err'), (('valid',), 'mismatch', 'Signatures')):
        if len(states) == 2 and version < 8:
            continue
        res = C.native({'op': 'c03:verify', 'version': version, 'states': list(states), 'hash': hstate})
        C.model_validation += 1
        if res.get('r') != 'ok' or res.get('v') != want:
            raise Broken(f'v{version}: native validation scenario {states} {hstate}: {res}, expected {want}')
    C.samples.append({'verify_event': f'v{version}', 'scenarios': len(combos)})


def body(C):
    C.engine(KEYS, N=8)
    C.build_replayer(['signatures'])
    versions = list(range(1, 12))
    if os.environ.get('VERIF_VERSIONS'):
        versions = [int(x) for x in os.environ['VERIF_VERSIONS'].split(',')]
    jobs = [(run_selection, v) for v in versions]
    vv = [v for v in versions if v in ((3, 9) if C.tier == 'quick' else (1, 3, 6, 8, 9, 11))] or versions[:1]
    for v in vv:
        combos = [((s,), 'match') for s in SIG_STATES] + [(('valid',), h) for h in HASH_STATES]
        if v >= 8:
            combos += [((a, b), 'match') for a in SIG_STATES for b in SIG_STATES if 'valid' in (a, b) or C.tier == 'thorough'][:100 if C.tier == 'thorough' else 24]
        jobs.append((run_verify_batch, (v, combos)))
    parts = os.environ.get('VERIF_PARTS')
    if parts:
        jobs = [j for j in jobs if any(p in j[0].__name__ for p in parts.split(','))]
    C.assumptions += [
        'ideal primitives (sigsym.py): injective serialization, collision-free digest and base64, ideal signatures (a signature verifies iff it was made by the key over the same text); Ed25519, SHA-256, base64, serde_json are outside the claim',
        'canonical_json::redact is an arbitrary object carrying signatures; its arguments are checked; what it keeps is decided by C04',
        'signer selection: event shapes enumerated (type member/message; sender, event_id, membership, third_party_invite, join_authorised_via_users_server present / absent / wrong JSON type), user ids @<a-d>:<x-y>, event ids $<a-d>:<x-z> or the hash format',
        'verify_event: concrete restricted-join event with one or two demanded signers; per-signer states ' + ', '.join(SIG_STATES) + '; hash states ' + ', '.join(HASH_STATES) + '; an undemanded signer with a wrong signature is always present',
    ]
    parallel_map(C, jobs, None)


if __name__ == '__main__':
    run_check('C03', body)
