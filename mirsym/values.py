"""Value domain of the MIR symbolic executor."""
import z3

BV64 = z3.BitVecSort(64)
BV8 = z3.BitVecSort(8)
TRUE = z3.BoolVal(True)
FALSE = z3.BoolVal(False)


def bv(x, w=64):
    return z3.BitVecVal(x, w)


INT_TYPES = {'u8': (8, False), 'u16': (16, False), 'u32': (32, False), 'u64': (64, False), 'usize': (64, False),
             'i8': (8, True), 'i16': (16, True), 'i32': (32, True), 'i64': (64, True), 'isize': (64, True),
             'u128': (128, False), 'i128': (128, True), 'char': (32, False)}


class I:
    """machine integer / char: z3 bit-vector of width w"""
    __slots__ = ('v', 'w', 's')

    def __init__(self, v, w, s=False):
        if isinstance(v, int):
            v = z3.BitVecVal(v & ((1 << w) - 1), w)
        else:
            v = z3.simplify(v)
        self.v, self.w, self.s = v, w, s

    def conc(self):
        if z3.is_bv_value(self.v):
            x = self.v.as_long()
            if self.s and x >= 1 << (self.w - 1):
                x -= 1 << self.w
            return x
        return None

    def __repr__(self):
        return f'I({self.v}:{"i" if self.s else "u"}{self.w})'


class Str:
    """&str / &[u8] / String contents: window (off, ln) over a z3 byte array."""
    __slots__ = ('base', 'off', 'ln', 'is_str', 'cap', 'cbytes', 'abs_cap', 'elems')

    def __init__(self, base, off, ln, is_str=True, cap=None, cbytes=None, abs_cap=None, elems=None):
        # elems: optional explicit list of byte terms of the underlying buffer (array-free representation for short strings)
        self.elems = elems
        # abs_cap: size of the underlying zero-based buffer (enables constant-index enumeration of shifted windows)
        self.abs_cap = abs_cap
        self.base, self.is_str = base, is_str
        # cbytes: python bytes of the whole underlying buffer when it is a compile-time constant (fast concrete reads)
        self.cbytes = cbytes
        # cap: python int upper bound on ln (None = engine default N); bounds the per-position expansions in models
        self.cap = ln.as_long() if z3.is_bv_value(ln) else cap
        self.off = off if z3.is_bv_value(off) else z3.simplify(off)
        self.ln = ln if z3.is_bv_value(ln) else z3.simplify(ln)

    def at(self, i):
        if self.cbytes is not None and z3.is_bv_value(self.off):
            ci = i if isinstance(i, int) else (i.as_long() if z3.is_bv_value(i) else None)
            if ci is not None:
                k = (self.off.as_long() + ci) & ((1 << 64) - 1)
                return z3.BitVecVal(self.cbytes[k] if k < len(self.cbytes) else 0, 8)
        if self.elems is not None:
            idx = z3.simplify(self.off + (bv(i) if isinstance(i, int) else i))
            if z3.is_bv_value(idx):
                k = idx.as_long()
                return self.elems[k] if k < len(self.elems) else z3.BitVecVal(0, 8)
            e = z3.BitVecVal(0, 8)
            for k in range(len(self.elems) - 1, -1, -1):
                e = z3.If(idx == k, self.elems[k], e)
            return e
        if isinstance(i, int):
            i = bv(i)
        return z3.Select(self.base, self.off + i)

    def conc(self):
        """bytes if fully concrete else None"""
        if not z3.is_bv_value(self.ln):
            return None
        n = self.ln.as_long()
        if self.cbytes is not None and z3.is_bv_value(self.off):
            o = self.off.as_long()
            if o + n <= len(self.cbytes):
                return self.cbytes[o:o + n]
        out = bytearray()
        for j in range(n):
            b = z3.simplify(self.at(j))
            if not z3.is_bv_value(b):
                return None
            out.append(b.as_long())
        return bytes(out)

    def __repr__(self):
        c = self.conc() if z3.is_bv_value(self.ln) and self.ln.as_long() < 64 else None
        return f'Str({c!r})' if c is not None else f'Str(off={self.off},len={self.ln})'


class Adt:
    """struct / enum value with a concrete variant on this path.  variant: name (str) or None for structs."""
    __slots__ = ('ty', 'variant', 'fields')

    def __init__(self, ty, variant, fields):
        self.ty, self.variant, self.fields = ty, variant, tuple(fields)

    def __repr__(self):
        v = f'::{self.variant}' if self.variant is not None else ''
        return f'{self.ty.split("::")[-1]}{v}{list(self.fields)}'


class SymEnum:
    """fieldless enum with a symbolic discriminant (BV64 index into the declared variant order)"""
    __slots__ = ('ty', 'v', 'n')

    def __init__(self, ty, v, n):
        self.ty, self.v, self.n = ty, z3.simplify(v), n

    def __repr__(self):
        return f'{self.ty.split("::")[-1]}::<{self.v}>'


class Tup:
    __slots__ = ('fields',)

    def __init__(self, fields):
        self.fields = tuple(fields)

    def __repr__(self):
        return f'Tup{list(self.fields)}'


class Seq:
    """Array / slice / Vec contents of non-byte elements with a concrete length on this path."""
    __slots__ = ('items', 'kind')

    def __init__(self, items, kind='slice'):
        self.items, self.kind = tuple(items), kind

    def __repr__(self):
        return f'Seq{list(self.items)}'


class Ref:
    """pointer to a place: frame id (or 'heap'), local / heap cell, projection"""
    __slots__ = ('frame', 'local', 'proj')

    def __init__(self, frame, local, proj=()):
        self.frame, self.local, self.proj = frame, local, tuple(proj)

    def __repr__(self):
        return f'Ref({self.frame},{self.local},{self.proj})'


class Closure:
    __slots__ = ('fn', 'caps')

    def __init__(self, fn, caps):
        self.fn, self.caps = fn, tuple(caps)

    def __repr__(self):
        return f'Closure({getattr(self.fn, "name", self.fn)},{list(self.caps)})'


class FnItem:
    """zero-sized function item / fn pointer"""
    __slots__ = ('path', 'crate')

    def __init__(self, path, crate=None):
        self.path, self.crate = path, crate

    def __repr__(self):
        return f'FnItem({self.path})'


class Opaque:
    """a value the run never inspects (error payloads, formatters, ...)"""
    __slots__ = ('tag', 'data')

    def __init__(self, tag, data=None):
        self.tag, self.data = tag, data

    def __repr__(self):
        return f'Opaque({self.tag})'


class Obj:
    """model-owned object (Vec, String builder, map, iterator, abstract event ...): immutable python payload;
    mutation = writing a new Obj through the owning place."""
    __slots__ = ('kind', 'data')

    def __init__(self, kind, data):
        self.kind, self.data = kind, data

    def __repr__(self):
        return f'Obj<{self.kind}>({self.data!r})'


UNIT = Tup(())


class Panic(Exception):
    pass


class Inconclusive(Exception):
    """a bound was hit or an unsupported construct reached: the run decides nothing"""
    pass


def some(v): return Adt('std::option::Option', 'Some', [v])
NONE = Adt('std::option::Option', 'None', [])
def ok(v): return Adt('std::result::Result', 'Ok', [v])
def err(v): return Adt('std::result::Result', 'Err', [v])
