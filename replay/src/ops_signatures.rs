//! native replays for the ruma-signatures properties: the reference values are recomputed here with an independent
//! canonical-JSON writer, the sha2 and base64 crates and a hard-coded redaction of the test event.
use base64::Engine as _;
use ruma_common::canonical_json::{CanonicalJsonObject, CanonicalJsonValue};
use ruma_common::RoomVersionId;
use serde_json::{json, Value};
use sha2::{Digest, Sha256};

fn cj(v: &Value, out: &mut String) {
    match v {
        Value::Object(m) => {
            let mut keys: Vec<&String> = m.keys().collect();
            keys.sort();
            out.push('{');
            for (i, k) in keys.iter().enumerate() {
                if i > 0 { out.push(','); }
                out.push('"'); out.push_str(k); out.push_str("\":");
                cj(&m[*k], out);
            }
            out.push('}');
        }
        Value::String(s) => { out.push('"'); out.push_str(s); out.push('"'); }
        Value::Number(n) => out.push_str(&n.to_string()),
        Value::Bool(b) => out.push_str(if *b { "true" } else { "false" }),
        Value::Null => out.push_str("null"),
        Value::Array(a) => {
            out.push('[');
            for (i, x) in a.iter().enumerate() { if i > 0 { out.push(','); } cj(x, out); }
            out.push(']');
        }
    }
}

fn canonical(v: &Value) -> String { let mut s = String::new(); cj(v, &mut s); s }

fn to_object(v: &Value) -> Result<CanonicalJsonObject, String> {
    match CanonicalJsonValue::try_from(v.clone()).map_err(|e| e.to_string())? {
        CanonicalJsonValue::Object(o) => Ok(o),
        _ => Err("not an object".into()),
    }
}

fn version(n: u64) -> RoomVersionId {
    match n { 1 => RoomVersionId::V1, 2 => RoomVersionId::V2, 3 => RoomVersionId::V3, 4 => RoomVersionId::V4, 5 => RoomVersionId::V5,
              6 => RoomVersionId::V6, 7 => RoomVersionId::V7, 8 => RoomVersionId::V8, 9 => RoomVersionId::V9, 10 => RoomVersionId::V10, _ => RoomVersionId::V11 }
}

/// test event with the named special fields; `pad_path` is padded so that `measure(event)` has exactly `len` bytes
fn event(present: &[String]) -> Value {
    let mut ev = json!({"content": {"body": "hi"}, "type": "m.room.message", "zzz": 7});
    for k in present {
        ev[k.as_str()] = json!({ format!("x{}", &k[..1]): k });
    }
    ev
}

pub fn c05(op: &str, req: &Value) -> Result<Value, String> {
    let len = req["len"].as_u64().unwrap_or(100) as usize;
    match op {
        "content_hash" => {
            let present: Vec<String> = req["present"].as_array().map(|a| a.iter().filter_map(|x| x.as_str().map(str::to_owned)).collect()).unwrap_or_default();
            let mut ev = event(&present);
            let strip = |e: &Value| { let mut e = e.clone(); for k in ["hashes", "signatures", "unsigned"] { e.as_object_mut().unwrap().remove(k); } e };
            let base = canonical(&strip(&ev)).len();
            if len > base { ev["content"]["body"] = Value::String(format!("hi{}", "a".repeat(len - base))); }
            let text = canonical(&strip(&ev));
            let expect = if text.len() > 65535 { None } else { Some(Sha256::digest(text.as_bytes()).to_vec()) };
            let got = ruma_signatures::content_hash(&to_object(&ev)?);
            let (r, matches, v) = match (&got, &expect) {
                (Ok(h), Some(d)) => ("ok", h.as_bytes() == &d[..], h.encode()),
                (Ok(h), None) => ("ok", false, h.encode()),
                (Err(e), None) => ("err", matches!(e, ruma_signatures::Error::PduSize), e.to_string()),
                (Err(e), Some(_)) => ("err", false, e.to_string()),
            };
            Ok(json!({"r": r, "v": v, "canonical_len": text.len(), "matches_independent": matches}))
        }
        "reference_hash" => {
            let v = req["version"].as_u64().unwrap_or(11);
            let rules = version(v).rules().ok_or("no rules")?;
            let present = vec!["hashes".to_owned(), "signatures".to_owned(), "unsigned".to_owned()];
            let mut ev = event(&present);
            // redaction of an m.room.message: content emptied, zzz and unsigned dropped; then signatures removed
            let redacted = |e: &Value| json!({"content": {}, "hashes": e["hashes"].clone(), "type": "m.room.message"});
            let base = canonical(&redacted(&ev)).len();
            if len > base { ev["hashes"]["xh"] = Value::String(format!("hashes{}", "a".repeat(len - base))); }
            if req["alphabet_sensitive"].as_bool().unwrap_or(false) {
                // pick a padding for which the two base64 alphabets give different texts (the digest contains 62 or 63)
                for extra in 0..256usize {
                    ev["hashes"]["xh"] = Value::String(format!("hashes{}", "b".repeat(extra)));
                    let d = Sha256::digest(canonical(&redacted(&ev)).as_bytes());
                    if base64::engine::general_purpose::STANDARD_NO_PAD.encode(d) != base64::engine::general_purpose::URL_SAFE_NO_PAD.encode(d) { break; }
                }
            }
            let text = canonical(&redacted(&ev));
            let expect = if text.len() > 65535 { None } else {
                let d = Sha256::digest(text.as_bytes());
                Some(if v <= 3 { base64::engine::general_purpose::STANDARD_NO_PAD.encode(d) } else { base64::engine::general_purpose::URL_SAFE_NO_PAD.encode(d) })
            };
            let got = ruma_signatures::reference_hash(&to_object(&ev)?, &rules);
            let (r, matches, val) = match (&got, &expect) {
                (Ok(h), Some(d)) => ("ok", h == d, h.clone()),
                (Ok(h), None) => ("ok", false, h.clone()),
                (Err(e), None) => ("err", matches!(e, ruma_signatures::Error::PduSize), e.to_string()),
                (Err(e), Some(_)) => ("err", false, e.to_string()),
            };
            Ok(json!({"r": r, "v": val, "canonical_len": text.len(), "matches_independent": matches}))
        }
        _ => Err(format!("unknown c05 op {op}")),
    }
}
