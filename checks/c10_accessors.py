"""C10 level C: the public parse path of ruma-common's identifier types (`<&T>::try_from(&str)`, which calls the
validators) followed by the component accessors, executed from the MIR of ruma-common + ruma-identifiers-validation.
Claims for every string accepted within the bound: no accessor panics; the components are windows of the original
string that recompose to it (sigil + localpart + ":" + server name; host [":" port]); the parsed value is the input
byte-for-byte."""
import os, re
from common import *
from validators import *
from spec import idgrammar as G
from mirsym.models.str_models import str_eq


def parse_fn(E, tyname):
    return E.find_method(tyname, 'try_from', 'TryFrom',
                         pick=lambda f: f.nargs == 1 and f.args[0][1] == '&str' and re.match(r'^std::result::Result<&', f.ret or ''))


def window_is(s, w, off, ln):
    """Str w is the window [off, off+ln) of s (same buffer)"""
    return z3.And(w.off == s.off + off, w.ln == ln)


def run_accessors(C, job):
    label = job
    cfg = ACCESSORS[label]
    N = int(os.environ.get('VERIF_NC', cfg.get('N', 64)))
    E = C.fresh_engine(['idval', 'common'], N=N)
    E.feas_mode = 'never'
    pf = parse_fn(E, cfg['type'])
    s, cons = E.sym_str('s', N)
    if cfg.get('summary'):
        import c10
        P, Pmodel = c10.srv_uf(C, E)
        E.overrides.append((re.compile(r'^ruma_identifiers_validation::server_name::validate$|^server_name::validate$'), Pmodel))
    outs = E.run_func(pf, [s], cons)
    C.absorb(E)
    accepted = [o for o in outs if o.kind == 'ret' and o.value.variant == 'Ok']
    base = lambda: list(cons) + list(E.axioms)
    nq = 0
    for o in outs:
        if o.kind == 'panic':
            def confirm0(m):
                b = model_bytes(m, s)
                vec = {'op': 'c10acc', 'type': cfg['type'], 's_hex': b.hex(), 's_repr': repr(b)[:200]}
                res = C.native(vec); vec['native'] = res
                return res.get('r') in ('panic', 'abort'), vec
            r, m, vec = solve_with_refinement(C, E, f'{label}: parse path cannot panic ({str(o.value)[:50]})', base() + [o.cond()], confirm0)
            if r == 'sat':
                C.report_violation(f'{label}: parsing panics on {vec["s_repr"]}', vec)
    if not accepted:
        raise Broken(f'{label}: no accepting path')
    for o in accepted:
        v = o.value.fields[0]
        sv = E.as_str(o.st, v)
        # stored byte-for-byte
        r, m = C.solve(f'{label}: accepted value is the input string', base() + [o.cond(), z3.Not(z3.And(sv.off == s.off, sv.ln == s.ln))])
        if r == 'sat':
            C.report_violation(f'{label}: parsed identifier differs from the input {model_bytes(m, s)!r}', {'op': 'c10acc', 'type': cfg['type'], 's_hex': model_bytes(m, s).hex()})
        results = {}
        for acc in cfg['accessors']:
            f = E.find_method(cfg['type'], acc, None)
            outs2 = E.run_func(f, [v], st=o.st)
            C.absorb(E)
            results[acc] = outs2
            for o2 in outs2:
                if o2.kind == 'panic' and 'OUT-OF-MODEL' not in str(o2.value):
                    def confirm(m, acc=acc):
                        b = model_bytes(m, s)
                        vec = {'op': 'c10acc', 'type': cfg['type'], 's_hex': b.hex(), 's_repr': repr(b)[:200], 'accessor': acc}
                        res = C.native(vec); vec['native'] = res
                        return res.get('r') in ('panic', 'abort'), vec
                    r, m, vec = solve_with_refinement(C, E, f'{label}: {acc}() cannot panic on an accepted id ({str(o2.value)[:40]})', base() + [z3.And(*o2.pc)], confirm)
                    nq += 1
                    if r == 'sat':
                        C.report_violation(f'{label}: {acc}() panics on the accepted identifier {vec["s_repr"]}: {vec["native"].get("msg", "")[:120]}', vec)
                        C.samples.append({'query': f'{label}.{acc} no panic', 'counterexample': vec['s_repr']})
        # recomposition
        bad = cfg['recompose'](E, s, results, o)
        if bad is not None:
            def confirm2(m):
                b = model_bytes(m, s)
                vec = {'op': 'c10acc', 'type': cfg['type'], 's_hex': b.hex(), 's_repr': repr(b)[:200]}
                res = C.native(vec); vec['native'] = res
                bad_nat = (res.get('r') == 'ok' and res.get('recomposed') != b.decode(errors='replace')) or res.get('r') in ('panic', 'abort')
                return bad_nat, vec
            r, m, vec = solve_with_refinement(C, E, f'{label}: components recompose to the original string', base() + [bad], confirm2)
            if r == 'sat':
                C.report_violation(f'{label}: accessors of {vec["s_repr"]} do not recompose to it: {vec["native"]}', vec)
                C.samples.append({'query': f'{label} recompose', 'counterexample': vec['s_repr'], 'native': vec['native']})
    # witness
    r, m = C.solve(f'{label}: witness accepted', base() + [z3.Or(*[o.cond() for o in accepted])])
    if r != 'sat':
        raise Broken(f'{label}: accepting path unreachable')
    C.bounds['accessors:' + label] = {'max_len_bytes': N, 'parse_paths': len(outs), 'accessors': cfg['accessors']}


def rets(outs):
    return [o for o in outs if o.kind == 'ret']


def rc_sigil_colon(lp_name, sn_name):
    def f(E, s, results, o):
        bad = []
        for a in rets(results[lp_name]):
            for b in rets(results[sn_name]):
                lp = E.as_str(a.st, a.value); sn = E.as_str(b.st, b.value)
                okc = z3.And(lp.off == s.off + 1, sn.off + sn.ln == s.off + s.ln, lp.off + lp.ln + 1 == sn.off,
                             s.at(lp.off + lp.ln - s.off) == 58, z3.ULE(lp.ln + 2, s.ln))
                bad.append(z3.And(z3.And(*a.pc), z3.And(*b.pc), z3.Not(okc)))
        return z3.Or(*bad) if bad else None
    return f


def rc_server_name(E, s, results, o):
    bad = []
    for a in rets(results['host']):
        for b in rets(results['port']):
            h = E.as_str(a.st, a.value)
            p = b.value
            # host is a prefix; no port <=> host is the whole string; otherwise the next byte is ':' and the rest is the port text
            none = p.variant == 'None'
            okc = z3.And(h.off == s.off, z3.ULE(h.ln, s.ln), z3.UGE(h.ln, 1))
            if none:
                okc = z3.And(okc, h.ln == s.ln)
            else:
                # the text that port() parsed is exactly the part after host + ":" (the window is read from the model call)
                wins = [n[1] for n in b.st.notes if n[0] == 'parse-int']
                okc = z3.And(okc, z3.ULT(h.ln, s.ln), s.at(h.ln) == 58)
                if not wins:
                    okc = z3.BoolVal(False)
                else:
                    pw = wins[-1]
                    okc = z3.And(okc, pw.off == s.off + h.ln + 1, pw.off + pw.ln == s.off + s.ln)
            bad.append(z3.And(z3.And(*a.pc), z3.And(*b.pc), z3.Not(okc)))
    return z3.Or(*bad) if bad else None


def rc_event_id(E, s, results, o):
    bad = []
    for a in rets(results['localpart']):
        for b in rets(results['server_name']):
            lp = E.as_str(a.st, a.value)
            if b.value.variant == 'None':
                okc = z3.And(lp.off == s.off + 1, lp.ln + 1 == s.ln)
            else:
                sn = E.as_str(b.st, b.value.fields[0])
                okc = z3.And(lp.off == s.off + 1, sn.off + sn.ln == s.off + s.ln, lp.off + lp.ln + 1 == sn.off, s.at(lp.off + lp.ln - s.off) == 58)
            bad.append(z3.And(z3.And(*a.pc), z3.And(*b.pc), z3.Not(okc)))
    return z3.Or(*bad) if bad else None


ACCESSORS = {
    'ServerName': dict(type='ServerName', accessors=['host', 'port', 'is_ip_literal'], recompose=rc_server_name, N=32),
    'UserId': dict(type='UserId', accessors=['localpart', 'server_name'], recompose=rc_sigil_colon('localpart', 'server_name'), N=300, summary=True),
    'RoomAliasId': dict(type='RoomAliasId', accessors=['alias', 'server_name'], recompose=rc_sigil_colon('alias', 'server_name'), N=300, summary=True),
    'EventId': dict(type='EventId', accessors=['localpart', 'server_name'], recompose=rc_event_id, N=300, summary=True),
}
